(* Invariants of Model/Items.v. Part A: all event lists. *)
From Coq Require Import List Arith Bool ZArith Lia Permutation Sorted.
Require Import Mistral.Model.Items.
Import ListNotations.

(* ------------------------------------------------------------------ *)
(* basic list facts *)

Lemma running_app : forall l1 l2, running (l1 ++ l2) = running l1 + running l2.
Proof. intros. unfold running. rewrite filter_app, app_length. reflexivity. Qed.

Lemma running_new : forall l, running (map new_exec l) = length l.
Proof. induction l as [|x l IH]; [reflexivity|]. unfold running in *. simpl. rewrite IH. reflexivity. Qed.

Lemma running_cons : forall e l,
  running (e :: l) = (if e_running (st e) then 1 else 0) + running l.
Proof. intros. unfold running. simpl. destruct (e_running (st e)); reflexivity. Qed.

Lemma outcome_not_running : forall o, e_running (outcome_state o) = false.
Proof. destruct o; reflexivity. Qed.

Lemma outcome_completed : forall o, e_completed (outcome_state o) = true.
Proof. destruct o; reflexivity. Qed.

Lemma running_upd : forall l i e e',
  nth_error l i = Some e -> e_running (st e) = true -> e_running (st e') = false ->
  S (running (upd l i e')) = running l.
Proof.
  induction l as [|y l IH]; intros i e e' Hn Hr Hr'.
  - destruct i; discriminate.
  - destruct i as [|i]; simpl in *.
    + inversion Hn; subst. rewrite !running_cons, Hr, Hr'. reflexivity.
    + rewrite !running_cons. specialize (IH _ _ _ Hn Hr Hr'). lia.
Qed.

Lemma map_idx_upd : forall l i e e',
  nth_error l i = Some e -> idx e' = idx e -> map idx (upd l i e') = map idx l.
Proof.
  induction l as [|y l IH]; intros i e e' Hn He.
  - reflexivity.
  - destruct i as [|i]; simpl in *.
    + inversion Hn; subst. rewrite He. reflexivity.
    + f_equal. eapply IH; eauto.
Qed.

Lemma length_upd : forall A (l : list A) i x, length (upd l i x) = length l.
Proof. induction l; intros; destruct i; simpl; auto. Qed.

Lemma Forall_idx_map : forall (P : nat -> Prop) l,
  Forall (fun e => P (idx e)) l <-> Forall P (map idx l).
Proof. intros. rewrite Forall_map. reflexivity. Qed.

Lemma mem_true_in : forall i l, mem i l = true <-> In i l.
Proof.
  intros. unfold mem. rewrite existsb_exists. split.
  - intros [x [Hx He]]. apply Nat.eqb_eq in He. subst. exact Hx.
  - intros H. exists i. split; [exact H|apply Nat.eqb_refl].
Qed.

Lemma length_remove_first : forall i l, In i l -> S (length (remove_first i l)) = length l.
Proof.
  induction l as [|x l IH]; intros H; [destruct H|].
  simpl. destruct (x =? i) eqn:E.
  - reflexivity.
  - simpl. f_equal. apply IH. destruct H as [H|H]; [|exact H].
    subst. rewrite Nat.eqb_refl in E. discriminate.
Qed.

Lemma length_take_cap_le : forall k l, length (take_cap (Some k) l) <= k.
Proof. intros. simpl. rewrite firstn_length. lia. Qed.

Lemma in_firstn : forall A k (l : list A) x, In x (firstn k l) -> In x l.
Proof.
  induction k as [|k IH]; intros l x H; [destruct H|].
  destruct l as [|y l]; [destruct H|]. simpl in H. destruct H as [H|H]; [left; exact H|right; auto].
Qed.

Lemma take_cap_incl : forall c l x, In x (take_cap c l) -> In x l.
Proof. intros [k|] l x H; simpl in H; [eapply in_firstn|]; eauto. Qed.

(* ------------------------------------------------------------------ *)
(* Part A: invariants of every reachable state (any events, incl. retry and rerun) *)

Definition CapOK (t : task) : Prop :=
  match conc t with
  | None => cap t = None
  | Some c => exists k, cap t = Some k /\ k + running (execs t) + length (jobs t) <= c
  end.

Definition Core (t : task) : Prop :=
  prepared t = true /\ count t = nitems t /\
  Forall (fun e => idx e < count t) (execs t) /\ CapOK t.

Definition ErrOK (t : task) : Prop :=
  tst t = TError -> forall c, conc t = Some c -> running (execs t) = 0 /\ jobs t = [].

Definition GInv (t : task) : Prop :=
  (tst t = TIdle /\ t = init) \/ (tst t <> TIdle /\ Core t /\ ErrOK t).

Lemma idx_in_true : forall p l i, idx_in p l i = true -> exists e, In e l /\ p e = true /\ idx e = i.
Proof.
  intros p l i H. unfold idx_in in H. apply existsb_exists in H. destruct H as [e [Hin He]].
  apply andb_true_iff in He. destruct He as [Hp Hi]. apply Nat.eqb_eq in Hi. eauto.
Qed.

Lemma idx_in_intro : forall p l i e, In e l -> p e = true -> idx e = i -> idx_in p l i = true.
Proof.
  intros. unfold idx_in. apply existsb_exists. exists e. split; [assumption|].
  rewrite H0. subst. simpl. apply Nat.eqb_refl.
Qed.

Lemma in_candidates_idx : forall l i, In i (candidates l) -> exists e, In e l /\ idx e = i.
Proof.
  intros l i H. unfold candidates in H. apply filter_In in H. destruct H as [_ H].
  apply andb_true_iff in H. destruct H as [H _]. apply idx_in_true in H.
  destruct H as [e [Hin [_ Hi]]]. eauto.
Qed.

Lemma all_next_lt : forall t,
  Forall (fun e => idx e < count t) (execs t) -> Forall (fun i => i < count t) (all_next t).
Proof.
  intros t HF. unfold all_next. destruct (candidates (execs t)) as [|c cs] eqn:E.
  - apply Forall_forall. intros i Hi. apply in_seq in Hi. lia.
  - apply Forall_app. split.
    + apply Forall_forall. intros i Hi. rewrite <- E in Hi. apply in_candidates_idx in Hi.
      destruct Hi as [e [Hin He]]. rewrite Forall_forall in HF. specialize (HF _ Hin). lia.
    + apply Forall_forall. intros i Hi. apply in_seq in Hi. lia.
Qed.

Lemma next_indexes_lt : forall t,
  Forall (fun e => idx e < count t) (execs t) -> Forall (fun i => i < count t) (next_indexes t).
Proof.
  intros t HF. apply Forall_forall. intros i Hi. unfold next_indexes in Hi.
  apply take_cap_incl in Hi. pose proof (all_next_lt t HF) as H. rewrite Forall_forall in H. auto.
Qed.

Lemma Core_set_tst : forall s t, Core t -> Core (set_tst s t).
Proof. intros s t H. exact H. Qed.

Lemma Core_complete : forall s t, Core t -> Core (complete s t).
Proof. intros s t H. unfold complete. destruct (t_completed (tst t)); [exact H|apply Core_set_tst; exact H]. Qed.

Lemma schedule_body_core : forall t, Core t -> Core (schedule_body t).
Proof.
  intros t [Hp [Hc [HF HC]]]. unfold schedule_body.
  destruct (next_indexes t) as [|x l] eqn:E.
  - apply Core_complete. repeat split; assumption.
  - assert (Hlt : Forall (fun i => i < count t) (x :: l)) by (rewrite <- E; apply next_indexes_lt; exact HF).
    unfold Core. cbn [execs set_cap set_execs prepared count nitems cap conc jobs tst]. repeat split; try assumption.
    + apply Forall_app. split; [exact HF|].
      apply Forall_forall. intros e He. apply in_map_iff in He. destruct He as [i [Hi Hin]]. subst e.
      cbn [idx new_exec]. rewrite Forall_forall in Hlt. apply Hlt. exact Hin.
    + unfold CapOK in *. cbn [execs set_cap set_execs prepared count nitems cap conc jobs tst].
      destruct (conc t) as [c|].
      * destruct HC as [k [Hk Hle]]. rewrite Hk. cbn [dec_cap]. eexists. split; [reflexivity|].
        assert (Hlen : length (x :: l) <= k).
        { rewrite <- E. unfold next_indexes. rewrite Hk. apply length_take_cap_le. }
        rewrite running_app, running_new. lia.
      * rewrite HC. reflexivity.
Qed.

Lemma schedule_body_tst : forall t,
  tst (schedule_body t) = tst t \/ tst (schedule_body t) = TSuccess.
Proof.
  intros t. unfold schedule_body. destruct (next_indexes t).
  - unfold complete. destruct (t_completed (tst t)); [left; reflexivity|right; reflexivity].
  - left. reflexivity.
Qed.

Lemma prepare_prepared : forall t, prepared t = true -> prepare t = t.
Proof. intros t H. unfold prepare. rewrite H. reflexivity. Qed.

Lemma running_zero_none : forall l i e,
  running l = 0 -> nth_error l i = Some e -> e_running (st e) = false.
Proof.
  induction l as [|y l IH]; intros i e H Hn; [destruct i; discriminate|].
  rewrite running_cons in H. destruct i as [|i]; simpl in Hn.
  - inversion Hn; subst. destruct (e_running (st e)); [simpl in H; lia|reflexivity].
  - eapply IH; eauto. lia.
Qed.

Lemma running_invalidate : forall l, running (invalidate l) = running l.
Proof. induction l as [|e l IH]; [reflexivity|]. unfold invalidate in *. simpl. rewrite !running_cons, IH. reflexivity. Qed.

Lemma running_reset : forall f l, running (reset_actions f l) = running l.
Proof.
  induction l as [|e l IH]; [reflexivity|]. unfold reset_actions in *. simpl.
  rewrite !running_cons, IH. destruct (f || _); reflexivity.
Qed.

Lemma idx_invalidate : forall l, map idx (invalidate l) = map idx l.
Proof. induction l as [|e l IH]; [reflexivity|]. unfold invalidate in *. simpl. rewrite IH. reflexivity. Qed.

Lemma idx_reset : forall f l, map idx (reset_actions f l) = map idx l.
Proof.
  induction l as [|e l IH]; [reflexivity|]. unfold reset_actions in *. simpl. rewrite IH.
  destruct (f || _); reflexivity.
Qed.

Lemma Forall_idx_transfer : forall (P : nat -> Prop) l l',
  map idx l' = map idx l -> Forall (fun e => P (idx e)) l -> Forall (fun e => P (idx e)) l'.
Proof. intros P l l' H HF. apply Forall_idx_map. rewrite H. apply Forall_idx_map. exact HF. Qed.

Lemma init_GInv : GInv init.
Proof. left. split; reflexivity. Qed.

Lemma final_state_not_idle : forall l, final_state l <> TIdle.
Proof. intros l. unfold final_state. destruct (has_cancelled l); [discriminate|]. destruct (has_error l); discriminate. Qed.

Lemma sched_GInv : forall t, Core t -> tst t = TRunning -> GInv (schedule t).
Proof.
  intros t HC Ht. unfold schedule. rewrite prepare_prepared by (apply HC).
  right. pose proof (schedule_body_tst t) as Hs. rewrite Ht in Hs. split; [|split].
  - destruct Hs as [Hs|Hs]; rewrite Hs; discriminate.
  - apply schedule_body_core. exact HC.
  - intros He. destruct Hs as [Hs|Hs]; rewrite Hs in He; discriminate.
Qed.

Lemma opt_eqb_some : forall k c, opt_eqb (Some k) (Some c) = true -> k = c.
Proof. intros k c H. simpl in H. apply Nat.eqb_eq. exact H. Qed.

(* on_action_complete on a state from which the handled job has already been removed *)
Lemma oac_GInv : forall t,
  tst t <> TIdle -> t_completed (tst t) = false ->
  prepared t = true -> count t = nitems t -> Forall (fun e => idx e < count t) (execs t) ->
  match conc t with
  | None => cap t = None
  | Some c => exists k, cap t = Some k /\ k + running (execs t) + S (length (jobs t)) <= c
  end ->
  GInv (on_action_complete t).
Proof.
  intros t Hni Hnc Hp Hcnt HF HC. unfold on_action_complete. rewrite Hnc.
  assert (H1 : Core (increase_capacity t) /\ tst (increase_capacity t) = tst t /\
               execs (increase_capacity t) = execs t /\ conc (increase_capacity t) = conc t /\
               jobs (increase_capacity t) = jobs t).
  { unfold increase_capacity. destruct (conc t) as [c|] eqn:Ec.
    - destruct HC as [k [Hk Hle]]. rewrite Hk. assert (Hlt : k <? c = true) by (apply Nat.ltb_lt; lia).
      rewrite Hlt. unfold Core, CapOK. cbn [execs set_cap prepared count nitems cap conc jobs tst].
      rewrite Ec. repeat split; try assumption. exists (S k). split; [reflexivity|lia].
    - unfold Core, CapOK. rewrite Ec. repeat split; assumption. }
  destruct H1 as [HC1 [Ht1 [He1 [Hc1 Hj1]]]]. set (t1 := increase_capacity t) in *.
  destruct (items_completed t1) eqn:Eic.
  - unfold complete. rewrite Ht1, Hnc. right. cbn [tst set_tst]. split; [apply final_state_not_idle|].
    split; [apply Core_set_tst; exact HC1|].
    intros Hfe c Hcc. cbn [tst set_tst execs conc jobs] in *.
    unfold items_completed in Eic. unfold final_state in Hfe.
    destruct (has_cancelled (execs t1)); [discriminate|].
    apply andb_true_iff in Eic. destruct Eic as [_ Hfull]. unfold full_capacity in Hfull.
    rewrite Hcc in Hfull. destruct HC1 as [_ [_ [_ HCap]]]. unfold CapOK in HCap. rewrite Hcc in HCap.
    destruct HCap as [k [Hk Hle]]. rewrite Hk in Hfull. apply opt_eqb_some in Hfull. subst k.
    split; [lia|]. destruct (jobs t1); [reflexivity|simpl in Hle; lia].
  - destruct (has_more t1 && match conc t1 with Some _ => true | None => false end).
    + assert (HG : GInv (schedule t1) \/ True) by (right; exact I). clear HG.
      unfold schedule. rewrite prepare_prepared by (apply HC1).
      pose proof (schedule_body_tst t1) as Hs. right. split; [|split].
      * destruct Hs as [Hs|Hs]; rewrite Hs; [rewrite Ht1; exact Hni|discriminate].
      * apply schedule_body_core. exact HC1.
      * intros He. destruct Hs as [Hs|Hs]; rewrite Hs in He; [|discriminate].
        rewrite Ht1 in He. rewrite He in Hnc. discriminate.
    + right. split; [rewrite Ht1; exact Hni|]. split; [exact HC1|].
      intros He. rewrite Ht1 in He. rewrite He in Hnc. discriminate.
Qed.

Lemma step_init : forall e, (forall n c, e <> Start n c) -> step init e = init.
Proof.
  intros e H. destruct e; try reflexivity.
  - exfalso. eapply H. reflexivity.
  - simpl. unfold accept. simpl. destruct i; reflexivity.
Qed.


Lemma tst_prepare : forall t, tst (prepare t) = tst t.
Proof. intros t. unfold prepare. destruct (prepared t); reflexivity. Qed.

Lemma sched_GInv' : forall t, Core (prepare t) -> tst t = TRunning -> GInv (schedule t).
Proof.
  intros t HC Ht. unfold schedule.
  right. pose proof (schedule_body_tst (prepare t)) as Hs. rewrite tst_prepare, Ht in Hs. split; [|split].
  - destruct Hs as [Hs|Hs]; rewrite Hs; discriminate.
  - apply schedule_body_core. exact HC.
  - intros He. destruct Hs as [Hs|Hs]; rewrite Hs in He; discriminate.
Qed.

Lemma Core_accept : forall t i o v, Core t -> Core (accept i o v t).
Proof.
  intros t i o v HC. unfold accept. destruct (nth_error (execs t) i) as [e|] eqn:En; [|exact HC].
  destruct (e_running (st e)) eqn:Er; [|exact HC].
  destruct HC as [Hp [Hc [HF HCap]]]. unfold Core.
  cbn [execs set_jobs set_execs prepared count nitems cap conc jobs tst]. repeat split; try assumption.
  - eapply (Forall_idx_transfer (fun i => i < count t)); [|exact HF]. eapply map_idx_upd; [exact En|reflexivity].
  - unfold CapOK in *. cbn [execs set_jobs set_execs prepared count nitems cap conc jobs tst].
    destruct (conc t) as [c|]; [|exact HCap]. destruct HCap as [k [Hk Hle]]. exists k. split; [exact Hk|].
    rewrite app_length. simpl.
    pose proof (running_upd (execs t) i e (mkExec (idx e) (outcome_state o) true v) En Er (outcome_not_running o)) as Hr.
    lia.
Qed.

Lemma GInv_step : forall t e, GInv t -> GInv (step t e).
Proof.
  intros t e [[Hi Heq]|[Hni [HC HE]]].
  - subst t. destruct e as [n c|i o v|i| | |f]; try (rewrite step_init by (intros; discriminate); apply init_GInv).
    cbn [step tst init execs prepared cap count jobs].
    apply sched_GInv'; [|reflexivity].
    unfold prepare, Core, CapOK. cbn. repeat split; [constructor|].
    destruct (policy_conc c) as [k|]; [exists k; split; [reflexivity|lia]|reflexivity].
  - assert (Hkeep : GInv t) by (right; split; [assumption|split; assumption]).
    destruct e as [n c|i o v|i| | |f].
    + (* Start *) cbn [step]. destruct (tst t) eqn:Et; try exact Hkeep. exfalso. apply Hni. reflexivity.
    + (* Accept *) cbn [step]. right.
      assert (Hst : tst (accept i o v t) = tst t /\ conc (accept i o v t) = conc t).
      { unfold accept. destruct (nth_error (execs t) i) as [e|]; [|split; reflexivity].
        destruct (e_running (st e)); split; reflexivity. }
      destruct Hst as [Hst Hco]. split; [rewrite Hst; exact Hni|]. split; [apply Core_accept; exact HC|].
      intros He c Hc. rewrite Hst in He. rewrite Hco in Hc. destruct (HE He c Hc) as [Hr Hj].
      unfold accept. destruct (nth_error (execs t) i) as [e|] eqn:En; [|split; assumption].
      rewrite (running_zero_none _ _ _ Hr En). split; assumption.
    + (* Handle *) cbn [step]. destruct (mem i (jobs t)) eqn:Em; [|exact Hkeep].
      apply mem_true_in in Em. pose proof (length_remove_first _ _ Em) as Hlen.
      destruct HC as [Hp [Hc [HF HCap]]].
      destruct (t_completed (tst t)) eqn:Ecomp.
      * unfold on_action_complete. cbn [tst set_jobs]. rewrite Ecomp. right. split; [exact Hni|]. split.
        -- unfold Core. cbn [execs set_jobs prepared count nitems cap conc jobs tst]. repeat split; try assumption.
           unfold CapOK in *. cbn [execs set_jobs prepared count nitems cap conc jobs tst].
           destruct (conc t) as [c|]; [|exact HCap]. destruct HCap as [k [Hk Hle]]. exists k. split; [exact Hk|lia].
        -- intros He c Hcc. cbn [tst set_jobs conc] in *. destruct (HE He c Hcc) as [_ Hj]. rewrite Hj in Em. destruct Em.
      * apply oac_GInv; cbn [execs set_jobs prepared count nitems cap conc jobs tst]; try assumption.
        unfold CapOK in HCap. destruct (conc t) as [c|]; [|exact HCap].
        destruct HCap as [k [Hk Hle]]. exists k. split; [exact Hk|lia].
    + (* RetryInvalidate *) cbn [step].
      assert (HG : GInv (set_tst TDelayed (set_execs (invalidate (execs t)) t))).
      { right. cbn [tst set_tst]. split; [discriminate|]. split; [|intros He; discriminate].
        destruct HC as [Hp [Hc [HF HCap]]]. unfold Core.
        cbn [execs set_tst set_execs prepared count nitems cap conc jobs tst]. repeat split; try assumption.
        - eapply (Forall_idx_transfer (fun i => i < count t)); [apply idx_invalidate|exact HF].
        - unfold CapOK in *. cbn [execs set_tst set_execs prepared count nitems cap conc jobs tst].
          rewrite running_invalidate. exact HCap. }
      destruct (tst t); try exact HG; exact Hkeep.
    + (* Continue *) cbn [step]. destruct (tst t) eqn:Et; try exact Hkeep.
      apply sched_GInv'; [|reflexivity]. rewrite prepare_prepared by (apply HC).
      destruct HC as [Hp [Hc [HF HCap]]]. unfold Core.
      cbn [execs set_tst set_execs prepared count nitems cap conc jobs tst]. repeat split; try assumption.
      * eapply (Forall_idx_transfer (fun i => i < count t)); [apply idx_reset|exact HF].
      * unfold CapOK in *. cbn [execs set_tst set_execs prepared count nitems cap conc jobs tst].
        rewrite running_reset. exact HCap.
    + (* Rerun *) cbn [step]. destruct (tst t) eqn:Et; try exact Hkeep.
      apply sched_GInv'; [|reflexivity].
      destruct HC as [Hp [Hc [HF HCap]]]. unfold prepare, Core.
      cbn [execs set_tst set_execs cleanup prepared count nitems cap conc jobs tst]. repeat split.
      * eapply (Forall_idx_transfer (fun i => i < nitems t)); [apply idx_reset|]. rewrite <- Hc. exact HF.
      * unfold CapOK in *. cbn [execs set_tst set_execs prepared count nitems cap conc jobs tst].
        rewrite running_reset. destruct (conc t) as [c|] eqn:Ec; [|reflexivity].
        destruct (HE Et c Ec) as [Hr Hj]. exists c. rewrite Hr, Hj. split; [reflexivity|simpl; lia].
Qed.

Lemma GInv_fold : forall evs t, GInv t -> GInv (fold_left step evs t).
Proof. induction evs as [|e evs IH]; intros t H; [exact H|]. simpl. apply IH. apply GInv_step. exact H. Qed.

Lemma GInv_run : forall evs, GInv (run evs).
Proof. intros. apply GInv_fold. apply init_GInv. Qed.

(* never more RUNNING children than the configured concurrency: any events, any n, any c *)
Theorem running_le_concurrency : forall evs c,
  conc (run evs) = Some c -> running (execs (run evs)) <= c.
Proof.
  intros evs c Hc. destruct (GInv_run evs) as [[_ Hi]|[_ [[_ [_ [_ HCap]]] _]]].
  - rewrite Hi in Hc. discriminate.
  - unfold CapOK in HCap. rewrite Hc in HCap. destruct HCap as [k [_ Hle]]. lia.
Qed.

(* the capacity counter never under-counts: capacity + RUNNING + unhandled completions <= concurrency *)
Theorem capacity_bound : forall evs c,
  conc (run evs) = Some c ->
  exists k, cap (run evs) = Some k /\ k + running (execs (run evs)) + length (jobs (run evs)) <= c.
Proof.
  intros evs c Hc. destruct (GInv_run evs) as [[_ Hi]|[_ [[_ [_ [_ HCap]]] _]]].
  - rewrite Hi in Hc. discriminate.
  - unfold CapOK in HCap. rewrite Hc in HCap. exact HCap.
Qed.

Theorem index_lt_count : forall evs e,
  In e (execs (run evs)) -> idx e < nitems (run evs).
Proof.
  intros evs e Hin. destruct (GInv_run evs) as [[_ Hi]|[_ [[_ [Hc [HF _]]] _]]].
  - rewrite Hi in Hin. destruct Hin.
  - rewrite Forall_forall in HF. rewrite <- Hc. apply HF. exact Hin.
Qed.

(* ------------------------------------------------------------------ *)
(* Part B: runs without retry / rerun *)

Definition fresh_ev (e : event) : bool :=
  match e with Start _ _ | Accept _ _ _ | Handle _ => true | _ => false end.

Definition AccOK (l : list exec) : Prop := Forall (fun e => acc e = e_completed (st e)) l.

Lemma e_completed_running : forall s, e_completed s = negb (e_running s).
Proof. destruct s; reflexivity. Qed.

Lemma acc_running_length : forall l, AccOK l -> length (filter acc l) + running l = length l.
Proof.
  induction l as [|e l IH]; intros H; [reflexivity|]. inversion H as [|? ? He Hl]; subst.
  specialize (IH Hl). rewrite running_cons. simpl. rewrite He, e_completed_running.
  destruct (e_running (st e)); simpl; lia.
Qed.

Lemma filter_none : forall A (f : A -> bool) l, (forall x, In x l -> f x = false) -> filter f l = [].
Proof.
  induction l as [|x l IH]; intros H; [reflexivity|]. simpl. rewrite (H x (or_introl eq_refl)).
  apply IH. intros y Hy. apply H. right. exact Hy.
Qed.

Lemma filter_all : forall A (f : A -> bool) l, (forall x, In x l -> f x = true) -> filter f l = l.
Proof.
  induction l as [|x l IH]; intros H; [reflexivity|]. simpl. rewrite (H x (or_introl eq_refl)).
  f_equal. apply IH. intros y Hy. apply H. right. exact Hy.
Qed.

Lemma idx_in_none : forall p l i, (forall e, In e l -> p e = false) -> idx_in p l i = false.
Proof.
  intros p l i H. unfold idx_in. destruct (existsb _ l) eqn:E; [|reflexivity].
  apply existsb_exists in E. destruct E as [e [Hin He]]. rewrite (H e Hin) in He. discriminate.
Qed.

Lemma candidates_fresh : forall l, AccOK l -> candidates l = [].
Proof.
  intros l H. unfold candidates. apply filter_none. intros i _.
  rewrite idx_in_none; [reflexivity|]. intros e He. unfold AccOK in H. rewrite Forall_forall in H.
  unfold p_unaccepted. rewrite (H e He). destruct (e_completed (st e)); reflexivity.
Qed.

Lemma started_fresh : forall l, AccOK l -> filter p_started l = l.
Proof.
  intros l H. apply filter_all. intros e He. unfold AccOK in H. rewrite Forall_forall in H.
  unfold p_started. rewrite (H e He), e_completed_running. destruct (e_running (st e)); reflexivity.
Qed.

Lemma firstn_seq : forall k a n, firstn k (seq a n) = seq a (min k n).
Proof.
  induction k as [|k IH]; intros a n; [reflexivity|]. destruct n as [|n]; [reflexivity|].
  simpl. f_equal. apply IH.
Qed.

Definition cap_min (c : option nat) (n : nat) : nat := match c with None => n | Some k => min k n end.

Lemma take_cap_seq : forall c a n, take_cap c (seq a n) = seq a (cap_min c n).
Proof. intros [k|] a n; simpl; [apply firstn_seq|reflexivity]. Qed.

Lemma next_indexes_fresh : forall t, AccOK (execs t) ->
  next_indexes t = seq (length (execs t)) (cap_min (cap t) (count t - length (execs t))).
Proof.
  intros t H. unfold next_indexes, all_next, next_start. rewrite candidates_fresh by exact H.
  rewrite started_fresh by exact H. apply take_cap_seq.
Qed.

Lemma map_idx_new : forall l, map idx (map new_exec l) = l.
Proof. induction l as [|x l IH]; [reflexivity|]. simpl. rewrite IH. reflexivity. Qed.

Lemma AccOK_new : forall l, AccOK (map new_exec l).
Proof. induction l as [|x l IH]; constructor; [reflexivity|exact IH]. Qed.

Lemma has_cancelled_app : forall l1 l2, has_cancelled (l1 ++ l2) = has_cancelled l1 || has_cancelled l2.
Proof. intros. unfold has_cancelled. apply existsb_app. Qed.

Lemma has_cancelled_new : forall l, has_cancelled (map new_exec l) = false.
Proof. induction l as [|x l IH]; [reflexivity|]. unfold has_cancelled in *. simpl. exact IH. Qed.

Lemma AccOK_upd : forall l i e', AccOK l -> acc e' = e_completed (st e') -> AccOK (upd l i e').
Proof.
  induction l as [|y l IH]; intros i e' H He; [destruct i; constructor|].
  inversion H as [|? ? Hy Hl]; subst. destruct i as [|i]; simpl.
  - constructor; [exact He|exact Hl].
  - constructor; [exact Hy|apply IH; assumption].
Qed.

Lemma has_cancelled_upd : forall l i e e',
  nth_error l i = Some e -> acc e = false -> has_cancelled l = true -> has_cancelled (upd l i e') = true.
Proof.
  induction l as [|y l IH]; intros i e e' Hn Ha H; [discriminate|].
  unfold has_cancelled in *. destruct i as [|i]; simpl in *.
  - inversion Hn; subst. rewrite Ha in H. simpl in H. rewrite H. apply orb_true_r.
  - apply orb_true_iff in H. apply orb_true_iff. destruct H as [H|H]; [left; exact H|right]. eapply IH; eauto.
Qed.

Record FInv (t : task) : Prop := {
  f_idx : map idx (execs t) = seq 0 (length (execs t));
  f_len : length (execs t) <= count t;
  f_acc : AccOK (execs t);
  f_all : conc t = None -> cap t = None /\ length (execs t) = count t;
  f_cap : forall c, conc t = Some c ->
          0 < c /\ exists k, cap t = Some k /\ (tst t = TRunning -> k + running (execs t) + length (jobs t) = c);
  f_done : tst t = TSuccess \/ tst t = TError ->
           running (execs t) = 0 /\ length (execs t) = count t /\ tst t = final_state (execs t);
  f_canc : tst t = TCancelled -> has_cancelled (execs t) = true;
  f_run : tst t = TRunning ->
          0 < count t /\ (running (execs t) = 0 -> jobs t = [] -> False) /\
          (has_cancelled (execs t) = true -> jobs t <> []);
  f_st : tst t <> TDelayed /\ tst t <> TIdle;
  f_prep : prepared t = true
}.

Lemma policy_conc_pos : forall c k, policy_conc c = Some k -> 0 < k.
Proof. intros c k H. unfold policy_conc in H. destruct (c =? 0) eqn:E; [discriminate|]. inversion H; subst. apply Nat.eqb_neq in E. lia. Qed.

Lemma cap_min_pos : forall c n, (forall k, c = Some k -> 0 < k) -> 0 < n -> 0 < cap_min c n.
Proof. intros [k|] n H Hn; simpl; [specialize (H k eq_refl); lia|exact Hn]. Qed.

Lemma cap_min_le : forall c n, cap_min c n <= n.
Proof. intros [k|] n; simpl; lia. Qed.

Lemma cap_min_le_cap : forall k n, cap_min (Some k) n <= k.
Proof. intros. simpl. apply Nat.le_min_l. Qed.

Lemma seq_nil : forall a n, seq a n = [] -> n = 0.
Proof. intros a [|n] H; [reflexivity|discriminate]. Qed.

Lemma schedule_body_fresh : forall t, AccOK (execs t) ->
  let m := cap_min (cap t) (count t - length (execs t)) in
  schedule_body t =
  match m with
  | 0 => complete TSuccess t
  | S _ => set_cap (dec_cap (cap t) m) (set_execs (execs t ++ map new_exec (seq (length (execs t)) m)) t)
  end.
Proof.
  intros t H m. unfold schedule_body. rewrite next_indexes_fresh by exact H. fold m.
  destruct m as [|m']; [reflexivity|].
  remember (seq (length (execs t)) (S m')) as l eqn:El.
  assert (Hl : length l = S m') by (rewrite El; apply seq_length).
  destruct l as [|x l]; [discriminate|]. rewrite Hl. reflexivity.
Qed.

(* the state right after Start *)
Lemma FInv_start : forall n c, FInv (step init (Start n c)).
Proof.
  intros n c. cbn [step tst init execs prepared cap count jobs]. unfold schedule.
  set (t0 := prepare _). assert (Ht0 : t0 = mkTask [] n (policy_conc c) true (policy_conc c) n TRunning []) by reflexivity.
  rewrite schedule_body_fresh by (rewrite Ht0; constructor).
  rewrite Ht0. cbn [execs cap count length]. rewrite Nat.sub_0_r.
  set (m := cap_min (policy_conc c) n).
  assert (Hm : m <= n) by apply cap_min_le.
  assert (Hpos : 0 < n -> 0 < m) by (apply cap_min_pos; apply policy_conc_pos).
  destruct m as [|m'] eqn:Em.
  - assert (Hn : n = 0) by (destruct n; [reflexivity|lia]).
    subst n. unfold complete. cbn. constructor; cbn; try (intros; discriminate); try (split; discriminate); auto.
    + constructor.
    + intros k Hk. split; [eapply policy_conc_pos; eauto|]. exists k. split; [exact Hk|intros; discriminate].
  - assert (Hm0 : 0 < m) by lia. rewrite <- Em in *. clear Em m'.
    constructor; cbn [execs set_cap set_execs prepared count nitems cap conc jobs tst app].
    + rewrite map_idx_new, map_length, seq_length. reflexivity.
    + rewrite map_length, seq_length. exact Hm.
    + apply AccOK_new.
    + intros Hc. rewrite Hc. split; [reflexivity|]. rewrite map_length, seq_length. unfold m. rewrite Hc. reflexivity.
    + intros k Hk. split; [eapply policy_conc_pos; eauto|]. rewrite Hk. cbn [dec_cap]. eexists. split; [reflexivity|].
      intros _. rewrite running_new, seq_length. cbn [length]. unfold m. rewrite Hk. pose proof (cap_min_le_cap k n) as Hq. revert Hq. generalize (cap_min (Some k) n). clear. intros; lia.
    + intros [H|H]; discriminate.
    + intros H; discriminate.
    + intros _. rewrite running_new, seq_length, has_cancelled_new. split; [lia|]. split; [intros; lia|discriminate].
    + split; discriminate.
    + reflexivity.
Qed.

Lemma app_one_not_nil : forall A (l : list A) x, l ++ [x] <> [].
Proof. intros A l x H. apply app_eq_nil in H. destruct H as [_ H]. discriminate. Qed.

Lemma FInv_accept : forall t i o v, FInv t -> FInv (accept i o v t).
Proof.
  intros t i o v F. unfold accept. destruct (nth_error (execs t) i) as [e|] eqn:En; [|exact F].
  destruct (e_running (st e)) eqn:Er; [|exact F].
  pose proof (running_upd (execs t) i e (mkExec (idx e) (outcome_state o) true v) En Er (outcome_not_running o)) as Hr.
  assert (Ha : acc e = false).
  { pose proof (f_acc t F) as HA. unfold AccOK in HA. rewrite Forall_forall in HA.
    rewrite (HA e (nth_error_In _ _ En)), e_completed_running, Er. reflexivity. }
  destruct F as [Fidx Flen Facc Fall Fcap Fdone Fcanc Frun Fst Fprep].
  constructor; cbn [execs set_jobs set_execs prepared count nitems cap conc jobs tst].
  - rewrite length_upd. erewrite map_idx_upd; [exact Fidx|exact En|reflexivity].
  - rewrite length_upd. exact Flen.
  - apply AccOK_upd; [exact Facc|]. cbn [acc st]. rewrite outcome_completed. reflexivity.
  - rewrite length_upd. exact Fall.
  - intros c Hc. destruct (Fcap c Hc) as [Hpos [k [Hk Heq]]]. split; [exact Hpos|]. exists k. split; [exact Hk|].
    intros Ht. specialize (Heq Ht). rewrite app_length. simpl. lia.
  - intros Hd. destruct (Fdone Hd) as [H0 _]. lia.
  - intros Hc. eapply has_cancelled_upd; eauto.
  - intros Ht. destruct (Frun Ht) as [Hc [_ _]]. split; [exact Hc|]. split.
    + intros _ Hj. exact (app_one_not_nil _ _ _ Hj).
    + intros _. apply app_one_not_nil.
  - exact Fst.
  - exact Fprep.
Qed.

Lemma final_state_cases : forall l,
  (has_cancelled l = true /\ final_state l = TCancelled) \/
  (has_cancelled l = false /\ (final_state l = TError \/ final_state l = TSuccess)).
Proof.
  intros l. unfold final_state. destruct (has_cancelled l); [left; auto|right].
  split; [reflexivity|]. destruct (has_error l); auto.
Qed.

Lemma seq_0_app : forall a b, seq 0 (a + b) = seq 0 a ++ seq a b.
Proof. intros. rewrite seq_app. reflexivity. Qed.

Lemma FInv_handle : forall t i, FInv t -> FInv (step t (Handle i)).
Proof.
  intros t i F. cbn [step]. destruct (mem i (jobs t)) eqn:Em; [|exact F].
  apply mem_true_in in Em. pose proof (length_remove_first _ _ Em) as Hlen.
  set (js := remove_first i (jobs t)) in *.
  unfold on_action_complete. cbn [tst set_jobs].
  destruct F as [Fidx Flen Facc Fall Fcap Fdone Fcanc Frun Fst Fprep].
  destruct (t_completed (tst t)) eqn:Ecomp.
  - constructor; cbn [execs set_jobs set_execs prepared count nitems cap conc jobs tst]; try assumption.
    + intros c Hc. destruct (Fcap c Hc) as [Hpos [k [Hk Heq]]]. split; [exact Hpos|]. exists k. split; [exact Hk|].
      intros Ht. rewrite Ht in Ecomp. discriminate.
    + intros Ht. rewrite Ht in Ecomp. discriminate.
  - assert (Ht : tst t = TRunning).
    { destruct Fst as [H1 H2]. destruct (tst t); try discriminate; try reflexivity; exfalso; auto. }
    destruct (Frun Ht) as [Hcnt [_ _]].
    set (L := length (execs t)) in *. set (R := running (execs t)) in *.
    pose proof (acc_running_length _ Facc) as HaccR. fold R L in HaccR.
    (* the state after _increase_capacity *)
    assert (Hinc : exists cap1,
      increase_capacity (set_jobs js t) = set_cap cap1 (set_jobs js t) /\
      (conc t = None -> cap1 = None /\ L = count t) /\
      (forall c, conc t = Some c -> exists k1, cap1 = Some k1 /\ 0 < k1 /\ k1 + R + length js = c)).
    { unfold increase_capacity. cbn [conc cap set_jobs]. destruct (conc t) as [c|] eqn:Ec.
      - destruct (Fcap c eq_refl) as [Hpos [k [Hk Heq]]]. specialize (Heq Ht). rewrite Hk.
        assert (Hlt : k <? c = true) by (apply Nat.ltb_lt; fold R in Heq; lia). rewrite Hlt.
        exists (Some (S k)). split; [reflexivity|]. split; [intros; discriminate|].
        intros c' Hc'. inversion Hc'; subst c'. exists (S k). fold R in Heq. split; [reflexivity|]. split; lia.
      - destruct (Fall eq_refl) as [Hcn HL]. exists None. split; [clear - Hcn; destruct t; cbn in *; subst; reflexivity|].
        split; [intros; split; [reflexivity|exact HL]|intros; discriminate]. }
    destruct Hinc as [cap1 [Hinc [HcapN HcapS]]]. rewrite Hinc. clear Hinc.
    set (t1 := set_cap cap1 (set_jobs js t)).
    assert (Hcount' : (if count t =? 0 then 1 else count t) = count t).
    { destruct (count t =? 0) eqn:E0; [apply Nat.eqb_eq in E0; lia|reflexivity]. }
    assert (Hic : items_completed t1 =
                  if has_cancelled (execs t) then true
                  else (count t =? length (filter acc (execs t))) && full_capacity t1).
    { unfold items_completed. cbn [execs count t1 set_cap set_jobs]. rewrite Hcount'. reflexivity. }
    assert (Hfull : full_capacity t1 = match conc t with None => true | Some c => opt_eqb cap1 (Some c) end).
    { unfold full_capacity. cbn [conc cap t1 set_cap set_jobs]. destruct (conc t); reflexivity. }
    assert (Hfsc : has_cancelled (execs t) = false -> final_state (execs t) = TError \/ final_state (execs t) = TSuccess).
    { intros H. destruct (final_state_cases (execs t)) as [[H1 _]|[_ H2]]; [rewrite H in H1; discriminate|exact H2]. }
    rewrite Hic. clear Hic.
    destruct (has_cancelled (execs t)) eqn:Hhc; [|destruct ((count t =? length (filter acc (execs t))) && full_capacity t1) eqn:Eic].
    + (* completes CANCELLED *)
      unfold complete. cbn [tst t1 set_cap set_jobs]. rewrite Ecomp.
      assert (Hfs : final_state (execs t) = TCancelled) by (unfold final_state; rewrite Hhc; reflexivity).
      cbn [execs t1 set_cap set_jobs]. rewrite Hfs.
      constructor; cbn [execs set_tst set_cap set_jobs prepared count nitems cap conc jobs tst t1].
      * exact Fidx.
      * exact Flen.
      * exact Facc.
      * exact HcapN.
      * intros c Hc. destruct (Fcap c Hc) as [Hpos _]. destruct (HcapS c Hc) as [k1 [Hk1 _]].
        split; [exact Hpos|]. exists k1. split; [exact Hk1|intros; discriminate].
      * intros [H|H]; discriminate.
      * intros _. exact Hhc.
      * intros; discriminate.
      * split; discriminate.
      * exact Fprep.
    + (* completes SUCCESS / ERROR *)
      unfold complete. cbn [tst t1 set_cap set_jobs]. rewrite Ecomp.
      specialize (Hfsc eq_refl).
      apply andb_true_iff in Eic. destruct Eic as [Hca Hfu].
      apply Nat.eqb_eq in Hca. rewrite Hfull in Hfu.
      assert (HR0 : R = 0 /\ L = count t).
      { destruct (conc t) as [c|] eqn:Ec.
        - destruct (HcapS c eq_refl) as [k1 [Hk1 [_ Heq]]]. rewrite Hk1 in Hfu. apply opt_eqb_some in Hfu. lia.
        - destruct (HcapN eq_refl) as [_ HL]. lia. }
      destruct HR0 as [HR0 HL].
      cbn [execs t1 set_cap set_jobs].
      constructor; cbn [execs set_tst set_cap set_jobs prepared count nitems cap conc jobs tst t1].
      * exact Fidx.
      * exact Flen.
      * exact Facc.
      * exact HcapN.
      * intros c Hc. destruct (Fcap c Hc) as [Hpos _]. destruct (HcapS c Hc) as [k1 [Hk1 _]].
        split; [exact Hpos|]. exists k1. split; [exact Hk1|]. intros Hr. destruct Hfsc as [Hfs|Hfs]; rewrite Hfs in Hr; discriminate.
      * intros _. split; [exact HR0|]. split; [exact HL|reflexivity].
      * intros Hc. destruct Hfsc as [Hfs|Hfs]; rewrite Hfs in Hc; discriminate.
      * intros Hr. destruct Hfsc as [Hfs|Hfs]; rewrite Hfs in Hr; discriminate.
      * destruct Hfsc as [Hfs|Hfs]; rewrite Hfs; split; discriminate.
      * exact Fprep.
    + (* not complete *)
      assert (Hhm : has_more t1 = (L <? count t)).
      { unfold has_more. cbn [execs count t1 set_cap set_jobs]. rewrite started_fresh by exact Facc. reflexivity. }
      rewrite Hhm. cbn [conc t1 set_cap set_jobs].
      destruct ((L <? count t) && match conc t with Some _ => true | None => false end) eqn:Ebr.
      * (* next batch *)
        apply andb_true_iff in Ebr. destruct Ebr as [HLlt Hcs]. apply Nat.ltb_lt in HLlt.
        destruct (conc t) as [c|] eqn:Ec; [|discriminate].
        destruct (HcapS c eq_refl) as [k1 [Hk1 [Hk1pos Heq]]]. destruct (Fcap c eq_refl) as [Hpos _].
        unfold schedule. rewrite prepare_prepared by exact Fprep.
        rewrite schedule_body_fresh by exact Facc.
        cbn [execs count cap t1 set_cap set_jobs]. fold L. rewrite Hk1.
        set (m := cap_min (Some k1) (count t - L)).
        assert (Hm1 : m <= count t - L) by apply cap_min_le.
        assert (Hm2 : m <= k1) by apply cap_min_le_cap.
        assert (Hm3 : 0 < m) by (apply cap_min_pos; [intros k Hk; inversion Hk; subst; exact Hk1pos|lia]).
        destruct m as [|m'] eqn:Em'; [lia|]. rewrite <- Em' in *. clear Em' m'.
        constructor; cbn [execs set_tst set_cap set_execs set_jobs prepared count nitems cap conc jobs tst t1 dec_cap].
        -- rewrite map_app, map_idx_new, app_length, map_length, seq_length, Fidx. fold L. symmetry. apply seq_0_app.
        -- rewrite app_length, map_length, seq_length. fold L. lia.
        -- apply Forall_app. split; [exact Facc|apply AccOK_new].
        -- rewrite Ec. intros; discriminate.
        -- rewrite Ec. intros c' Hc'. inversion Hc'; subst c'. split; [exact Hpos|]. eexists. split; [reflexivity|].
           intros _. rewrite running_app, running_new, seq_length. fold R. lia.
        -- rewrite Ht. intros [H|H]; discriminate.
        -- rewrite Ht. intros; discriminate.
        -- intros _. split; [exact Hcnt|]. rewrite running_app, running_new, seq_length. split; [intros; lia|].
           rewrite has_cancelled_app, Hhc, has_cancelled_new. intros; discriminate.
        -- exact Fst.
        -- exact Fprep.
      * (* nothing to start *)
        constructor; cbn [execs set_tst set_cap set_execs set_jobs prepared count nitems cap conc jobs tst t1].
        -- exact Fidx.
        -- exact Flen.
        -- exact Facc.
        -- exact HcapN.
        -- intros c Hc. destruct (Fcap c Hc) as [Hpos _]. destruct (HcapS c Hc) as [k1 [Hk1 [_ Heq]]].
           split; [exact Hpos|]. exists k1. split; [exact Hk1|intros _; exact Heq].
        -- rewrite Ht. intros [H|H]; discriminate.
        -- rewrite Ht. intros; discriminate.
        -- intros _. split; [exact Hcnt|]. split; [|rewrite Hhc; intros; discriminate].
           fold R. intros HR0 Hjs. rewrite Hfull in Eic.
           destruct (conc t) as [c|] eqn:Ec.
           ++ destruct (HcapS c eq_refl) as [k1 [Hk1 [_ Heq]]]. rewrite Hjs in Heq. simpl in Heq.
              rewrite Hk1 in Eic. assert (Hkc : k1 = c) by lia. subst k1. simpl in Eic. rewrite Nat.eqb_refl, andb_true_r in Eic.
              apply Nat.eqb_neq in Eic. rewrite andb_true_r in Ebr. apply Nat.ltb_ge in Ebr. lia.
           ++ destruct (HcapN eq_refl) as [_ HL]. rewrite andb_true_r in Eic. apply Nat.eqb_neq in Eic. lia.
        -- exact Fst.
        -- exact Fprep.
Qed.

Lemma FInv_step : forall t e, FInv t -> fresh_ev e = true -> FInv (step t e).
Proof.
  intros t e F He. destruct e as [n c|i o v|i| | |f]; try discriminate.
  - cbn [step]. destruct (tst t) eqn:Et; try exact F. exfalso. apply (proj2 (f_st t F)). exact Et.
  - apply FInv_accept. exact F.
  - apply FInv_handle. exact F.
Qed.

Definition fresh (evs : list event) : Prop := forallb fresh_ev evs = true.

Lemma fresh_fold : forall evs t, fresh evs -> (t = init \/ FInv t) ->
  fold_left step evs t = init \/ FInv (fold_left step evs t).
Proof.
  induction evs as [|e evs IH]; intros t Hf Ht; [exact Ht|].
  unfold fresh in Hf. simpl in Hf. apply andb_true_iff in Hf. destruct Hf as [He Hf].
  simpl. apply IH; [exact Hf|]. destruct Ht as [Ht|Ht].
  - subst t. destruct e as [n c|i o v|i| | |f]; try discriminate.
    + right. apply FInv_start.
    + left. apply step_init. intros; discriminate.
    + left. apply step_init. intros; discriminate.
  - right. apply FInv_step; assumption.
Qed.

Lemma fresh_run : forall evs, fresh evs -> run evs = init \/ FInv (run evs).
Proof. intros evs H. apply fresh_fold; [exact H|left; reflexivity]. Qed.

(* ---- theorems about runs without retry / rerun ---- *)

Theorem index_once_fresh : forall evs, fresh evs ->
  map idx (execs (run evs)) = seq 0 (length (execs (run evs))) /\
  length (execs (run evs)) <= nitems (run evs).
Proof.
  intros evs H. destruct (fresh_run evs H) as [Hi|F].
  - rewrite Hi. split; [reflexivity|apply Nat.le_refl].
  - split; [apply (f_idx _ F)|].
    destruct (GInv_run evs) as [[Ht _]|[_ [[_ [Hc _]] _]]].
    + exfalso. apply (proj2 (f_st _ F)). exact Ht.
    + rewrite <- Hc. apply (f_len _ F).
Qed.

Lemma running_zero_all : forall l, running l = 0 -> Forall (fun e => e_running (st e) = false) l.
Proof.
  induction l as [|e l IH]; intros H; constructor.
  - rewrite running_cons in H. destruct (e_running (st e)); [simpl in H; lia|reflexivity].
  - apply IH. rewrite running_cons in H. lia.
Qed.

Theorem complete_only_after_all_fresh : forall evs, fresh evs ->
  tst (run evs) = TSuccess \/ tst (run evs) = TError ->
  map idx (execs (run evs)) = seq 0 (nitems (run evs)) /\
  Forall (fun e => acc e = true /\ e_completed (st e) = true) (execs (run evs)).
Proof.
  intros evs H Hd. destruct (fresh_run evs H) as [Hi|F].
  - rewrite Hi in Hd. destruct Hd; discriminate.
  - destruct (f_done _ F Hd) as [HR [HL _]].
    destruct (GInv_run evs) as [[Ht _]|[_ [[_ [Hc _]] _]]].
    + exfalso. apply (proj2 (f_st _ F)). exact Ht.
    + split; [rewrite <- Hc, <- HL; apply (f_idx _ F)|].
      pose proof (running_zero_all _ HR) as Hall. pose proof (f_acc _ F) as HA. unfold AccOK in HA.
      rewrite Forall_forall in *. intros e He. specialize (Hall e He). specialize (HA e He).
      rewrite HA, e_completed_running, Hall. split; reflexivity.
Qed.

Theorem final_state_fresh : forall evs, fresh evs ->
  t_completed (tst (run evs)) = true -> tst (run evs) = final_state (execs (run evs)).
Proof.
  intros evs H Hc. destruct (fresh_run evs H) as [Hi|F].
  - rewrite Hi in Hc. discriminate.
  - destruct (tst (run evs)) eqn:Et; try discriminate.
    + rewrite <- Et. apply (f_done _ F). left. exact Et.
    + rewrite <- Et. apply (f_done _ F). right. exact Et.
    + pose proof (f_canc _ F Et) as Hh. unfold final_state. rewrite Hh. reflexivity.
Qed.

Theorem final_state_spec : forall l,
  (final_state l = TCancelled <-> exists e, In e l /\ acc e = true /\ st e = ECancelled) /\
  (final_state l = TError <->
     (forall e, In e l -> acc e = true -> st e <> ECancelled) /\ exists e, In e l /\ acc e = true /\ st e = EError) /\
  (final_state l = TSuccess <-> forall e, In e l -> acc e = true -> st e <> ECancelled /\ st e <> EError).
Proof.
  intros l.
  assert (HC : has_cancelled l = true <-> exists e, In e l /\ acc e = true /\ st e = ECancelled).
  { unfold has_cancelled. rewrite existsb_exists. split; intros [e [Hin He]]; exists e; (split; [exact Hin|]).
    - apply andb_true_iff in He. destruct He as [Ha Hs]. split; [exact Ha|]. destruct (st e); try discriminate; reflexivity.
    - destruct He as [Ha Hs]. rewrite Ha, Hs. reflexivity. }
  assert (HE : has_error l = true <-> exists e, In e l /\ acc e = true /\ st e = EError).
  { unfold has_error. rewrite existsb_exists. split; intros [e [Hin He]]; exists e; (split; [exact Hin|]).
    - apply andb_true_iff in He. destruct He as [Ha Hs]. split; [exact Ha|]. destruct (st e); try discriminate; reflexivity.
    - destruct He as [Ha Hs]. rewrite Ha, Hs. reflexivity. }
  unfold final_state. destruct (has_cancelled l) eqn:Ec; [|destruct (has_error l) eqn:Ee].
  - split; [split; [intros _; apply HC; reflexivity|reflexivity]|].
    destruct (proj1 HC eq_refl) as [e [Hin [Ha Hs]]].
    split; (split; [discriminate|]).
    + intros [Hn _]. exfalso. exact (Hn e Hin Ha Hs).
    + intros Hn. exfalso. exact (proj1 (Hn e Hin Ha) Hs).
  - split; [split; [discriminate|intros H; apply HC in H; discriminate]|].
    split; [split; [intros _|reflexivity]|split; [discriminate|]].
    + split; [|apply HE; reflexivity]. intros e Hin Ha Hs.
      assert (Hx : false = true) by (apply HC; eauto). discriminate.
    + intros Hn. destruct (proj1 HE eq_refl) as [e [Hin [Ha Hs]]]. exfalso. exact (proj2 (Hn e Hin Ha) Hs).
  - split; [split; [discriminate|intros H; apply HC in H; discriminate]|].
    split; [split; [discriminate|intros [_ H]; apply HE in H; discriminate]|].
    split; [intros _|reflexivity]. intros e Hin Ha. split; intros Hs.
    + assert (Hx : false = true) by (apply HC; eauto). discriminate.
    + assert (Hx : false = true) by (apply HE; eauto). discriminate.
Qed.

Theorem no_stuck_fresh : forall evs, fresh evs -> tst (run evs) = TRunning ->
  0 < running (execs (run evs)) \/ jobs (run evs) <> [].
Proof.
  intros evs H Ht. destruct (fresh_run evs H) as [Hi|F].
  - rewrite Hi in Ht. discriminate.
  - destruct (f_run _ F Ht) as [_ [Hns _]].
    destruct (running (execs (run evs))) as [|r]; [|left; lia].
    right. intros Hj. exact (Hns eq_refl Hj).
Qed.

Theorem capacity_eq_fresh : forall evs c, fresh evs -> tst (run evs) = TRunning -> conc (run evs) = Some c ->
  exists k, cap (run evs) = Some k /\ k + running (execs (run evs)) + length (jobs (run evs)) = c.
Proof.
  intros evs c H Ht Hc. destruct (fresh_run evs H) as [Hi|F].
  - rewrite Hi in Ht. discriminate.
  - destruct (f_cap _ F c Hc) as [_ [k [Hk Heq]]]. exists k. split; [exact Hk|exact (Heq Ht)].
Qed.

Theorem cancelled_only_if_cancelled_item : forall evs, fresh evs -> tst (run evs) = TCancelled ->
  exists e, In e (execs (run evs)) /\ acc e = true /\ st e = ECancelled.
Proof.
  intros evs H Ht. pose proof (final_state_fresh evs H) as Hf. rewrite Ht in Hf. specialize (Hf eq_refl).
  symmetry in Hf. apply (proj1 (final_state_spec _)) in Hf. exact Hf.
Qed.

Theorem empty_succeeds : forall c,
  tst (run [Start 0 c]) = TSuccess /\ execs (run [Start 0 c]) = [] /\ result (execs (run [Start 0 c])) = [].
Proof. intros c. unfold run. cbn. destruct (policy_conc c) as [[|k]|]; repeat split; reflexivity. Qed.

(* ------------------------------------------------------------------ *)
(* Part C: get_task_execution_result *)

Definition idx_le (a b : exec) : Prop := idx a <= idx b.

Lemma insert_perm : forall x l, Permutation (insert x l) (x :: l).
Proof.
  induction l as [|y l IH]; [reflexivity|]. simpl. destruct (idx x <=? idx y); [reflexivity|].
  rewrite IH. apply perm_swap.
Qed.

Lemma isort_perm : forall l, Permutation (isort l) l.
Proof.
  induction l as [|x l IH]; [reflexivity|]. unfold isort in *. simpl. rewrite insert_perm. constructor. exact IH.
Qed.

Lemma insert_sorted : forall x l, StronglySorted idx_le l -> StronglySorted idx_le (insert x l).
Proof.
  induction l as [|y l IH]; intros H.
  - simpl. constructor; constructor.
  - simpl. destruct (idx x <=? idx y) eqn:E.
    + apply Nat.leb_le in E. constructor; [exact H|]. inversion H as [|? ? Hs Hf]; subst.
      constructor; [exact E|]. rewrite Forall_forall in *. intros z Hz. specialize (Hf z Hz). unfold idx_le in *. lia.
    + apply Nat.leb_gt in E. inversion H as [|? ? Hs Hf]; subst. constructor; [apply IH; exact Hs|].
      rewrite Forall_forall in *. intros z Hz.
      apply (Permutation_in _ (insert_perm x l)) in Hz. destruct Hz as [Hz|Hz].
      * subst z. unfold idx_le. lia.
      * apply Hf. exact Hz.
Qed.

Lemma isort_sorted : forall l, StronglySorted idx_le (isort l).
Proof.
  induction l as [|x l IH]; [constructor|]. unfold isort in *. simpl. apply insert_sorted. exact IH.
Qed.

Lemma filter_sorted : forall (f : exec -> bool) l, StronglySorted idx_le l -> StronglySorted idx_le (filter f l).
Proof.
  induction l as [|x l IH]; intros H; [constructor|]. inversion H as [|? ? Hs Hf]; subst. simpl.
  destruct (f x); [|apply IH; exact Hs]. constructor; [apply IH; exact Hs|].
  rewrite Forall_forall in *. intros z Hz. apply filter_In in Hz. apply Hf. apply Hz.
Qed.

(* the result lists the counted executions by ascending item index ... *)
Theorem result_sorted : forall l, StronglySorted idx_le (result_execs l).
Proof. intros l. unfold result_execs. apply filter_sorted. apply isort_sorted. Qed.

Lemma filter_perm : forall A (f : A -> bool) l l', Permutation l l' -> Permutation (filter f l) (filter f l').
Proof.
  intros A f l l' H. induction H; simpl.
  - constructor.
  - destruct (f x); [constructor|]; assumption.
  - destruct (f x), (f y); try apply perm_swap; try reflexivity.
  - etransitivity; eassumption.
Qed.

(* ... and consists of exactly the counted (accepted) executions *)
Theorem result_perm : forall l, Permutation (result_execs l) (filter acc l).
Proof. intros l. unfold result_execs. apply filter_perm. apply isort_perm. Qed.

Lemma nodup_idx_inj : forall l a b, NoDup (map idx l) -> In a l -> In b l -> idx a = idx b -> a = b.
Proof.
  induction l as [|x l IH]; intros a b Hn Ha Hb He; [destruct Ha|].
  simpl in Hn. inversion Hn as [|? ? Hnin Hnd]; subst.
  destruct Ha as [Ha|Ha], Hb as [Hb|Hb]; subst.
  - reflexivity.
  - exfalso. apply Hnin. rewrite He. apply in_map. exact Hb.
  - exfalso. apply Hnin. rewrite <- He. apply in_map. exact Ha.
  - apply IH; assumption.
Qed.

Lemma sorted_perm_eq : forall l1 l2,
  StronglySorted idx_le l1 -> StronglySorted idx_le l2 -> Permutation l1 l2 -> NoDup (map idx l1) -> l1 = l2.
Proof.
  induction l1 as [|a l1 IH]; intros l2 H1 H2 Hp Hn.
  - apply Permutation_nil in Hp. subst. reflexivity.
  - destruct l2 as [|b l2]; [apply Permutation_sym, Permutation_nil in Hp; discriminate|].
    assert (Hab : a = b).
    { assert (Ha : In a (b :: l2)) by (eapply Permutation_in; [exact Hp|left; reflexivity]).
      assert (Hb : In b (a :: l1)) by (eapply Permutation_in; [apply Permutation_sym; exact Hp|left; reflexivity]).
      destruct Ha as [Ha|Ha]; [symmetry; exact Ha|]. destruct Hb as [Hb|Hb]; [exact Hb|].
      inversion H1 as [|? ? _ Hf1]; subst. inversion H2 as [|? ? _ Hf2]; subst.
      rewrite Forall_forall in Hf1, Hf2. specialize (Hf1 b Hb). specialize (Hf2 a Ha). unfold idx_le in *.
      apply (nodup_idx_inj (a :: l1)); [exact Hn|left; reflexivity|right; exact Hb|lia]. }
    subst b. f_equal. apply IH.
    + inversion H1; assumption.
    + inversion H2; assumption.
    + eapply Permutation_cons_inv. exact Hp.
    + simpl in Hn. inversion Hn; assumption.
Qed.

(* the result does not depend on the order in which the executions are listed / were completed,
   provided no item index is counted twice *)
Theorem result_order_independent : forall l l',
  Permutation l l' -> NoDup (map idx (filter acc l)) -> result l = result l'.
Proof.
  intros l l' Hp Hn. unfold result. f_equal. apply sorted_perm_eq.
  - apply result_sorted.
  - apply result_sorted.
  - rewrite result_perm, result_perm. apply filter_perm. exact Hp.
  - eapply Permutation_NoDup; [|exact Hn]. apply Permutation_map. apply Permutation_sym. apply result_perm.
Qed.

Lemma isort_seq : forall l a, map idx l = seq a (length l) -> isort l = l.
Proof.
  induction l as [|x l IH]; intros a H; [reflexivity|]. simpl in H. inversion H as [[Hx Hl]].
  unfold isort in *. simpl. rewrite (IH (S (idx x))) by exact Hl.
  destruct l as [|y r]; [reflexivity|]. simpl in Hl. injection Hl as Hy _. simpl.
  rewrite Hy. assert (E : idx x <=? S (idx x) = true) by (apply Nat.leb_le; lia). rewrite E. reflexivity.
Qed.

(* a completed run without retry / rerun: the result is the list of the n items' outputs, item i at position i *)
Theorem result_in_item_order_fresh : forall evs, fresh evs ->
  tst (run evs) = TSuccess \/ tst (run evs) = TError ->
  result_execs (execs (run evs)) = execs (run evs) /\
  map idx (result_execs (execs (run evs))) = seq 0 (nitems (run evs)) /\
  length (result (execs (run evs))) = nitems (run evs).
Proof.
  intros evs H Hd. destruct (complete_only_after_all_fresh evs H Hd) as [Hidx Hall].
  assert (Hre : result_execs (execs (run evs)) = execs (run evs)).
  { unfold result_execs. rewrite (isort_seq _ 0).
    - apply filter_all. intros e He. rewrite Forall_forall in Hall. apply (Hall e He).
    - rewrite Hidx. f_equal. rewrite <- (map_length idx), Hidx, seq_length. reflexivity. }
  split; [exact Hre|]. split; [rewrite Hre; exact Hidx|].
  unfold result. rewrite map_length, Hre, <- (map_length idx), Hidx, seq_length. reflexivity.
Qed.

(* ------------------------------------------------------------------ *)
(* Part D: rerun and retry *)

Definition p_failed (e : exec) : bool := acc e && (e_error (st e) || e_cancelled (st e)).

(* ascending indexes whose counted execution failed *)
Definition failed_indexes (l : list exec) : list nat :=
  filter (fun i => idx_in p_failed l i) (seq 0 (bound l)).

(* indexes of the executions created by the step from t to t' *)
Definition started_by (t t' : task) : list nat := map idx (skipn (length (execs t)) (execs t')).

(* the property text, first batch of a partial rerun (the batch is cut at the concurrency limit) *)
Definition partial_rerun_only_failed : Prop :=
  forall evs, fresh evs -> tst (run evs) = TError ->
  started_by (run evs) (step (run evs) (Rerun false)) =
  take_cap (conc (run evs)) (failed_indexes (execs (run evs))).

Definition witness_F4 : list event :=
  [Start 3 0; Accept 0 OError 100%Z; Accept 1 OSuccess 101%Z; Accept 2 OSuccess 102%Z; Handle 0; Handle 1; Handle 2].

Theorem partial_rerun_only_failed_refuted : ~ partial_rerun_only_failed.
Proof.
  intros H. specialize (H witness_F4 eq_refl eq_refl). vm_compute in H. discriminate.
Qed.

(* what the code does: items [ERROR, SUCCESS, SUCCESS] -> 0, 1 and 2 are started again; after the
   re-executed item 0 succeeds the task is SUCCESS while 1 and 2 are still RUNNING *)
Theorem partial_rerun_witness :
  let t := run witness_F4 in
  tst t = TError /\ failed_indexes (execs t) = [0] /\
  started_by t (step t (Rerun false)) = [0; 1; 2] /\
  let t' := fold_left step [Rerun false; Accept 3 OSuccess 103%Z; Handle 3] t in
  tst t' = TSuccess /\ running (execs t') = 2.
Proof. vm_compute. repeat split; reflexivity. Qed.

Definition p_live (e : exec) : bool := acc e || e_running (st e).

(* "exactly one action per item index" for arbitrary event lists: no index is counted or in progress twice *)
Definition index_once_always : Prop :=
  forall evs, NoDup (map idx (filter p_live (execs (run evs)))).

(* "every item is (re-)executed": a task that succeeded has a counted execution for every index *)
Definition success_covers_all_items : Prop :=
  forall evs i, tst (run evs) = TSuccess -> i < nitems (run evs) ->
  exists e, In e (execs (run evs)) /\ acc e = true /\ idx e = i.

Definition witness_F7 : list event :=
  [Start 3 2; Accept 0 OError 100%Z; Handle 0; Accept 1 OError 101%Z; Handle 1; Accept 2 OError 102%Z; Handle 2;
   RetryInvalidate; Continue; Accept 3 OSuccess 103%Z; Handle 3].

Theorem index_once_always_refuted : ~ index_once_always.
Proof.
  intros H. specialize (H witness_F7). vm_compute in H.
  inversion H as [|? ? _ H1]. inversion H1 as [|? ? Hn _]. apply Hn. left. reflexivity.
Qed.

Theorem success_covers_all_items_refuted : ~ success_covers_all_items.
Proof.
  intros H.
  specialize (H (witness_F7 ++ [Accept 4 OSuccess 104%Z; Handle 4; Accept 5 OSuccess 105%Z; Handle 5]) 2 eq_refl).
  assert (Hlt : 2 < 3) by lia. specialize (H Hlt). destruct H as [e [Hin [Ha Hi]]].
  vm_compute in Hin.
  repeat (destruct Hin as [Hin|Hin]; [subst e; simpl in *; try discriminate|]); try destruct Hin.
Qed.

(* what the code does on the retry: index 1 is RUNNING twice, index 2 is not started, and the task ends in SUCCESS
   with the result [103; 104; 105] made of items 0, 1, 1 *)
Theorem retry_concurrency_witness :
  let t := run witness_F7 in
  map idx (filter (fun e => e_running (st e)) (execs t)) = [1; 1] /\
  let t' := fold_left step [Accept 4 OSuccess 104%Z; Handle 4; Accept 5 OSuccess 105%Z; Handle 5] t in
  tst t' = TSuccess /\ map idx (result_execs (execs t')) = [0; 1; 1] /\ result (execs t') = [103; 104; 105]%Z.
Proof. vm_compute. repeat split; reflexivity. Qed.

(* ---- the conditional version: a partial rerun starts exactly the failed items when the last item failed ---- *)

Definition good (e : exec) : Prop := acc e = true /\ e_completed (st e) = true.

Definition reset1 (e : exec) : exec :=
  if false || (acc e && (e_error (st e) || e_cancelled (st e))) then mkExec (idx e) (st e) false (out e) else e.

Lemma reset_is_map : forall l, reset_actions false l = map reset1 l.
Proof. reflexivity. Qed.

Lemma reset1_idx : forall e, idx (reset1 e) = idx e.
Proof. intros e. unfold reset1. destruct (false || _); reflexivity. Qed.

Lemma reset1_unaccepted : forall e, good e -> p_unaccepted (reset1 e) = p_failed e.
Proof.
  intros e [Ha Hc]. unfold reset1, p_failed, p_unaccepted. rewrite Ha. simpl.
  destruct (e_error (st e) || e_cancelled (st e)) eqn:E; simpl.
  - rewrite Hc. reflexivity.
  - rewrite Ha. reflexivity.
Qed.

Lemma reset1_accepted : forall e, p_accepted (reset1 e) = true -> p_failed e = false.
Proof.
  intros e H. unfold reset1, p_failed, p_accepted in *. destruct (acc e); [|reflexivity]. simpl in *.
  destruct (e_error (st e) || e_cancelled (st e)); [simpl in H; discriminate|reflexivity].
Qed.

Lemma idx_in_reset_unaccepted : forall l i, Forall good l ->
  idx_in p_unaccepted (reset_actions false l) i = idx_in p_failed l i.
Proof.
  induction l as [|e l IH]; intros i H; [reflexivity|]. inversion H as [|? ? He Hl]; subst.
  rewrite reset_is_map in *. unfold idx_in in *. simpl. rewrite (IH i Hl), reset1_idx, (reset1_unaccepted e He). reflexivity.
Qed.

Lemma idx_in_reset_accepted : forall l i, NoDup (map idx l) ->
  idx_in p_failed l i = true -> idx_in p_accepted (reset_actions false l) i = false.
Proof.
  intros l i Hn Hf. destruct (idx_in p_accepted (reset_actions false l) i) eqn:E; [|reflexivity].
  apply idx_in_true in E. destruct E as [e' [Hin [Hp Hi]]]. rewrite reset_is_map in Hin.
  apply in_map_iff in Hin. destruct Hin as [e2 [He2 Hin2]]. subst e'. rewrite reset1_idx in Hi.
  apply reset1_accepted in Hp.
  apply idx_in_true in Hf. destruct Hf as [e1 [Hin1 [Hp1 Hi1]]].
  assert (e1 = e2) by (apply (nodup_idx_inj l); [exact Hn|exact Hin1|exact Hin2|congruence]).
  subst e2. congruence.
Qed.

Lemma bound_reset : forall f l, bound (reset_actions f l) = bound l.
Proof. intros. unfold bound. rewrite idx_reset. reflexivity. Qed.

Lemma candidates_reset : forall l, Forall good l -> NoDup (map idx l) ->
  candidates (reset_actions false l) = failed_indexes l.
Proof.
  intros l Hg Hn. unfold candidates, failed_indexes. rewrite bound_reset. apply filter_ext. intros i.
  rewrite idx_in_reset_unaccepted by exact Hg. destruct (idx_in p_failed l i) eqn:E; [|reflexivity].
  rewrite idx_in_reset_accepted by assumption. reflexivity.
Qed.

Lemma in_le_list_max : forall l x, In x l -> x <= list_max l.
Proof.
  intros l x H. assert (Hf : Forall (fun k => k <= list_max l) l) by (apply list_max_le; apply Nat.le_refl).
  rewrite Forall_forall in Hf. apply Hf. exact H.
Qed.

Theorem partial_rerun_only_failed_if_last_failed : forall evs,
  fresh evs -> tst (run evs) = TError ->
  In (nitems (run evs) - 1) (failed_indexes (execs (run evs))) ->
  started_by (run evs) (step (run evs) (Rerun false)) =
  take_cap (conc (run evs)) (failed_indexes (execs (run evs))).
Proof.
  intros evs Hf Ht Hlast. set (t := run evs) in *.
  destruct (complete_only_after_all_fresh evs Hf (or_intror Ht)) as [Hidx Hall]. fold t in Hidx, Hall.
  assert (Hgood : Forall good (execs t)) by exact Hall.
  assert (Hnd : NoDup (map idx (execs t))) by (rewrite Hidx; apply seq_NoDup).
  set (F := failed_indexes (execs t)) in *.
  assert (HFlt : forall i, In i F -> i < nitems t).
  { intros i Hi. unfold F, failed_indexes in Hi. apply filter_In in Hi. destruct Hi as [_ Hi].
    apply idx_in_true in Hi. destruct Hi as [e [Hin [_ Hie]]].
    assert (Hm : In (idx e) (map idx (execs t))) by (apply in_map; exact Hin).
    rewrite Hidx in Hm. apply in_seq in Hm. lia. }
  assert (Hn0 : 0 < nitems t) by (specialize (HFlt _ Hlast); lia).
  cbn [step]. rewrite Ht. unfold schedule.
  set (l0 := reset_actions false (execs t)).
  assert (Hprep : prepare (set_execs l0 (set_tst TRunning (cleanup t))) =
                  mkTask l0 (nitems t) (conc t) true (conc t) (nitems t) TRunning (jobs t)) by reflexivity.
  rewrite Hprep. clear Hprep. set (t0 := mkTask _ _ _ _ _ _ _ _).
  assert (Hnext : next_indexes t0 = take_cap (conc t) F).
  { unfold next_indexes, all_next. cbn [execs cap count t0]. unfold l0. rewrite candidates_reset by assumption. fold F.
    destruct F as [|c cs] eqn:EF; [destruct Hlast|]. rewrite <- EF in *.
    assert (Hmax : S (list_max F) = nitems t).
    { pose proof (in_le_list_max F _ Hlast) as H1.
      assert (H2 : list_max F <= nitems t - 1).
      { apply list_max_le. apply Forall_forall. intros i Hi. specialize (HFlt i Hi). lia. }
      lia. }
    rewrite Hmax, Nat.sub_diag. simpl. rewrite app_nil_r. reflexivity. }
  assert (Hex : execs (schedule_body t0) = l0 ++ map new_exec (take_cap (conc t) F)).
  { unfold schedule_body. rewrite Hnext. destruct (take_cap (conc t) F) as [|x r].
    - unfold complete. simpl. rewrite app_nil_r. reflexivity.
    - reflexivity. }
  unfold started_by. rewrite Hex.
  assert (Hlen : length (execs t) = length l0).
  { unfold l0. rewrite <- (map_length idx (reset_actions false (execs t))), idx_reset, map_length. reflexivity. }
  rewrite Hlen, skipn_app, skipn_all, Nat.sub_diag. simpl. apply map_idx_new.
Qed.
