(* Proofs about Model/Join.v `affected` (find_indirectly_affected_task_executions): when a task completes, every
   join execution that can be reached from it through tasks that are not themselves joins-with-an-execution is
   scheduled for a refresh - on every definition (cycles included) and every row set.  These are exactly the joins
   whose logical state can read the completed task: _possible_route walks inbound transitions only through tasks
   that have no execution. *)
From Coq Require Import List Arith Bool Lia.
Require Import Mistral.Gen.States Mistral.Model.Join Mistral.Proofs.JoinProofs.
Import ListNotations.

Section Affected.
Variable sp : list task.
Variable rows : list row.

Definition has_row (n : nat) : bool := match lookup rows n with Some _ => true | None => false end.

(* a join that has an execution: where the search stops and what it collects *)
Definition jrow (n : nat) : bool :=
  match find_task sp n with Some t => is_join t && has_row n | None => false end.

(* a task the search walks through *)
Definition transparent (n : nat) : bool :=
  match find_task sp n with Some t => negb (is_join t && has_row n) | None => false end.

Inductive tpath : nat -> nat -> Prop :=
| tp_edge : forall t j, In j (outs_of sp t) -> tpath t j
| tp_step : forall t m j, In m (outs_of sp t) -> transparent m = true -> tpath m j -> tpath t j.

(* -- termination measure -- *)
Fixpoint unv (l : list task) (v : list nat) : nat :=
  match l with
  | [] => 0
  | t :: tl => (if memn (tname t) v then 0 else S (length (touts t))) + unv tl v
  end.

Lemma unv_mono : forall l v n, unv l (n :: v) <= unv l v.
Proof.
  induction l as [|t tl IH]; intros v n; simpl; [lia|]. specialize (IH v n).
  destruct (Nat.eqb (tname t) n); simpl; [lia|]. destruct (memn (tname t) v); lia.
Qed.

Lemma unv_visit : forall l v n t,
  find (fun x => Nat.eqb (tname x) n) l = Some t -> memn n v = false ->
  unv l (n :: v) + S (length (touts t)) <= unv l v.
Proof.
  induction l as [|x tl IH]; intros v n t Hf Hv; [discriminate|].
  cbn [find] in Hf. cbn [unv].
  assert (Hm : memn (tname x) (n :: v) = Nat.eqb (tname x) n || memn (tname x) v) by reflexivity.
  rewrite Hm. destruct (Nat.eqb_spec (tname x) n) as [He | He].
  - inversion Hf; subst. rewrite Hv. cbn [orb]. pose proof (unv_mono tl v (tname t)). lia.
  - specialize (IH v n t Hf Hv). cbn [orb]. destruct (memn (tname x) v); lia.
Qed.

Lemma unv_nil : forall l, unv l [] = fold_right (fun t acc => S (length (touts t)) + acc) 0 l.
Proof. induction l as [|t tl IH]; simpl; [reflexivity|]. rewrite IH. reflexivity. Qed.

(* -- the invariant of the worklist loop -- *)
Definition ainv (src : nat) (v w r : list nat) : Prop :=
  In src v /\
  (forall n, In n v -> n = src \/ transparent n = true -> forall o, In o (outs_of sp n) -> In o v \/ In o w) /\
  (forall n, In n v -> n <> src -> jrow n = true -> In n r) /\
  (forall n, In n r -> jrow n = true).

Lemma affected_loop_inv : forall src fuel v w r,
  length w + unv sp v < fuel -> ainv src v w r ->
  exists v', ainv src v' [] (affected_loop fuel sp rows v w r).
Proof.
  intros src. induction fuel as [|f IH]; intros v w r Hlt Hinv; [lia|].
  destruct w as [|n w]; simpl; [exists v; exact Hinv|].
  destruct Hinv as [H3 [H1 [H2 H4]]].
  destruct (memn n v) eqn:Hv.
  - apply IH; [simpl in Hlt; lia|]. split; [exact H3|]. split; [|split; assumption].
    intros x Hx Hc o Ho. destruct (H1 x Hx Hc o Ho) as [Hin | [He | Hin]]; auto.
    subst o. left. apply memn_In. exact Hv.
  - assert (Hnv : ~ In n v) by (apply memn_false; exact Hv).
    assert (Hsrc : n <> src) by (intros He; subst; contradiction).
    destruct (find_task sp n) as [t|] eqn:Hf.
    + destruct (is_join t && match lookup rows n with Some _ => true | None => false end) eqn:Hj.
      * (* a join with an execution: collected, not expanded *)
        apply IH; [simpl in Hlt; pose proof (unv_mono sp v n); lia|].
        assert (Hjr : jrow n = true) by (unfold jrow, has_row; rewrite Hf; exact Hj).
        assert (Htr : transparent n = false) by (unfold transparent, has_row; rewrite Hf, Hj; reflexivity).
        split; [simpl; auto|]. split; [|split].
        -- intros x [He | Hx] Hc o Ho.
           ++ subst x. destruct Hc as [Hc | Hc]; [contradiction | rewrite Htr in Hc; discriminate].
           ++ destruct (H1 x Hx Hc o Ho) as [Hin | [He | Hin]]; simpl; auto.
        -- intros x [He | Hx] Hne Hjx; [subst; simpl; auto | simpl; right; apply H2; assumption].
        -- intros x [He | Hx]; [subst; exact Hjr | apply H4; exact Hx].
      * (* a task the search walks through *)
        assert (Hout : outs_of sp n = touts t) by (unfold outs_of; rewrite Hf; reflexivity).
        apply IH.
        -- unfold find_task in Hf. pose proof (unv_visit sp v n t Hf Hv). rewrite app_length. simpl in Hlt. lia.
        -- assert (Hjr : jrow n = false) by (unfold jrow, has_row; rewrite Hf; exact Hj).
           split; [simpl; auto|]. split; [|split].
           ++ intros x [He | Hx] Hc o Ho.
              ** subst x. rewrite Hout in Ho. right. apply in_or_app. left. exact Ho.
              ** destruct (H1 x Hx Hc o Ho) as [Hin | [He | Hin]]; simpl; auto.
                 right. apply in_or_app. right. exact Hin.
           ++ intros x [He | Hx] Hne Hjx; [subst; rewrite Hjr in Hjx; discriminate | apply H2; assumption].
           ++ exact H4.
    + (* an engine command / unknown name *)
      apply IH; [simpl in Hlt; pose proof (unv_mono sp v n); lia|].
      assert (Hjr : jrow n = false) by (unfold jrow; rewrite Hf; reflexivity).
      assert (Htr : transparent n = false) by (unfold transparent; rewrite Hf; reflexivity).
      split; [simpl; auto|]. split; [|split].
      * intros x [He | Hx] Hc o Ho.
        -- subst x. destruct Hc as [Hc | Hc]; [contradiction | rewrite Htr in Hc; discriminate].
        -- destruct (H1 x Hx Hc o Ho) as [Hin | [He | Hin]]; simpl; auto.
      * intros x [He | Hx] Hne Hjx; [subst; rewrite Hjr in Hjx; discriminate | apply H2; assumption].
      * exact H4.
Qed.

Lemma affected_final_inv : forall src, exists v', ainv src v' [] (affected sp rows src).
Proof.
  intros src. unfold affected. apply affected_loop_inv.
  - unfold affected_fuel. pose proof (unv_mono sp [] src). rewrite unv_nil in H. lia.
  - split; [simpl; auto|]. split; [|split].
    + intros n [He | []] _ o Ho. subst n. right. exact Ho.
    + intros n [He | []] Hne. subst. contradiction.
    + intros n [].
Qed.

(* every join execution reachable from the completed task through walked-through tasks is refreshed *)
Theorem affected_covers : forall src j,
  tpath src j -> jrow j = true -> j <> src -> In j (affected sp rows src).
Proof.
  intros src j Hp Hj Hne. destruct (affected_final_inv src) as [v' [H3 [H1 [H2 H4]]]].
  assert (Hgen : forall t, tpath t j -> In t v' -> t = src \/ transparent t = true -> In j (affected sp rows src)).
  { intros t Hpt. induction Hpt as [t j Hin | t m j Hin Htr Hrest IH]; intros Ht Hc.
    - destruct (H1 t Ht Hc j Hin) as [Hv | []]. apply H2; assumption.
    - destruct (H1 t Ht Hc m Hin) as [Hv | []]. apply IH; auto. }
  apply (Hgen src Hp H3). left. reflexivity.
Qed.

(* ... and only join executions are *)
Theorem affected_sound : forall src j, In j (affected sp rows src) -> jrow j = true.
Proof. intros src j Hin. destruct (affected_final_inv src) as [v' [_ [_ [_ H4]]]]. apply H4. exact Hin. Qed.

End Affected.
