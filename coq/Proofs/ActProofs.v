(* Proofs about Model/Act.v (property C06, component level). *)
From Coq Require Import List Bool String Arith Lia.
Require Import Mistral.Gen.States Mistral.Model.Act.
Import ListNotations.

(* ------------------------------------------------------------------ *)
(* Executor: the input domain is finite (2*2*2*6*2*3*3 = 864 points)    *)

Ltac destruct_exec_in i :=
  destruct i as [r s h o y e1 e2]; destruct r, s, h, o, y, e1, e2.

Lemma all_exec_in_complete : forall i, In i all_exec_in.
Proof.
  intros [r s h o y e1 e2]. unfold all_exec_in.
  apply in_flat_map. exists r. split; [destruct r; cbn; auto|].
  apply in_flat_map. exists s. split; [destruct s; cbn; auto|].
  apply in_flat_map. exists h. split; [destruct h; cbn; auto|].
  apply in_flat_map. exists o. split; [destruct o; cbn; auto 10|].
  apply in_flat_map. exists y. split; [destruct y; cbn; auto|].
  apply in_flat_map. exists e1. split; [destruct e1; cbn; auto|].
  apply in_map. destruct e2; cbn; auto.
Qed.

Lemma all_exec_in_length : List.length all_exec_in = 864.
Proof. vm_compute. reflexivity. Qed.

(* "reports one error": counted over both channels (engine call / returned Result) *)
Definition error_reports (o : exec_out) : nat :=
  err_calls o + (if returns_error o then 1 else 0).

(* a redelivered request for an action that is not safe to re-run: the action is not
   run; exactly one error is reported - to the engine when there is an action execution
   id (one call, nothing else), as the returned Result otherwise (no call at all) *)
Lemma exec_unsafe_redelivery : forall i,
  redelivered i = true -> safe_rerun i = false ->
  let o := do_run_action i in
  runs o = 0 /\ error_reports o = 1 /\
  (has_id i = true -> calls o = [(KErr, eng1 i)] /\ returns_error o = false) /\
  (has_id i = false -> calls o = [] /\ ret o = RResult KErr).
Proof.
  intros i. destruct_exec_in i; cbn [redelivered safe_rerun]; intros Hr Hs; try discriminate;
    vm_compute; repeat split; intros; try discriminate; reflexivity.
Qed.

Lemma exec_runs : forall i,
  let o := do_run_action i in
  runs o <= 1 /\ (runs o = 0 <-> (redelivered i = true /\ safe_rerun i = false)).
Proof.
  intros i. destruct_exec_in i; vm_compute; repeat split; intros; try lia; try tauto;
    try discriminate; try (destruct H; discriminate).
Qed.

(* at most one report is taken by the engine; a second call is made only after the
   first one raised a MistralException, and it is an error report *)
Lemma exec_reports : forall i,
  let o := do_run_action i in
  ok_calls o <= 1 /\ List.length (calls o) <= 2 /\
  (has_id i = false -> calls o = []) /\
  (forall c1 c2 rest, calls o = c1 :: c2 :: rest ->
     snd c1 = EMistral /\ c2 = (KErr, eng2 i) /\ rest = []).
Proof.
  intros i. destruct_exec_in i; vm_compute; repeat split; intros; try lia; try discriminate;
    try reflexivity;
    match goal with H : _ = _ :: _ :: _ |- _ => injection H; intros; subst; reflexivity end.
Qed.

(* what is reported is what happened: a non-error report is the class of the value the
   action returned, only for a synchronous action that was run; an error report has a cause *)
Lemma exec_faithful : forall i k e,
  In (k, e) (calls (do_run_action i)) ->
  (k <> KErr -> runs (do_run_action i) = 1 /\ kind_of (outcome i) = k /\ sync i = true /\
                (outcome i = RetOk \/ outcome i = RetPlain \/ outcome i = RetCancel)) /\
  (k = KErr -> (redelivered i = true /\ safe_rerun i = false) \/ outcome i = RetErr \/
               outcome i = Raises \/ outcome i = TimesOut \/ eng1 i = EMistral).
Proof.
  intros i k e. destruct_exec_in i; vm_compute; intros H;
    repeat (destruct H as [H|H]; [injection H; intros; subst|]); try contradiction;
    split; intros; try congruence; auto 10.
Qed.

(* an asynchronous action that returned a non-error value: nothing is reported (it reports itself) *)
Lemma exec_async_silent : forall i,
  redelivered i && negb (safe_rerun i) = false -> sync i = false ->
  (outcome i = RetOk \/ outcome i = RetPlain \/ outcome i = RetCancel) ->
  calls (do_run_action i) = [].
Proof.
  intros i. destruct_exec_in i; vm_compute; intros H1 H2 H3; try discriminate; try reflexivity;
    repeat (destruct H3 as [H3|H3]; try discriminate).
Qed.

(* one request delivered any number of times: the first copy as sent, every further copy
   flagged redelivered by the transport.  For an action not safe to re-run the action runs
   at most once over all copies and every redelivered copy reports exactly one error. *)
Definition total_runs (l : list exec_in) : nat :=
  fold_right (fun i n => runs (do_run_action i) + n) 0 l.

Lemma exec_redeliveries_run_once : forall first copies,
  safe_rerun first = false ->
  Forall (fun c => redelivered c = true /\ safe_rerun c = false) copies ->
  total_runs (first :: copies) <= 1 /\
  Forall (fun c => runs (do_run_action c) = 0 /\ error_reports (do_run_action c) = 1) copies.
Proof.
  intros first copies Hs Hc.
  assert (Hz : total_runs copies = 0 /\
               Forall (fun c => runs (do_run_action c) = 0 /\ error_reports (do_run_action c) = 1) copies).
  { induction Hc as [|c l [Hr Hsf] _ IH]; [split; [reflexivity|constructor]|].
    destruct (exec_unsafe_redelivery c Hr Hsf) as [H0 [H1 _]].
    destruct IH as [IH1 IH2]. split.
    - cbn [total_runs fold_right]. fold (total_runs l). rewrite H0, IH1. reflexivity.
    - constructor; auto. }
  destruct Hz as [Hz1 Hz2]. split; [|exact Hz2].
  cbn [total_runs fold_right]. fold (total_runs copies). rewrite Hz1.
  pose proof (exec_runs first) as [H _]. lia.
Qed.

Lemma derive_redelivered_spec : forall v, derive_redelivered v = true <-> v = Some true.
Proof. intros [[|]|]; cbn; split; intros; congruence. Qed.

(* ------------------------------------------------------------------ *)
(* RegularAction.complete: accept once                                  *)

Lemma action_complete_completed : forall r x,
  is_completed (a_state r) = true -> action_complete r x = (r, true).
Proof. intros r x H. unfold action_complete. rewrite H. reflexivity. Qed.

Lemma state_of_kind_completed : forall k, is_completed (state_of_kind k) = true.
Proof. destruct k; vm_compute; reflexivity. Qed.

Lemma action_complete_fresh : forall r k p,
  is_completed (a_state r) = false ->
  action_complete r (k, p) = (mkARow (state_of_kind k) true (Some p), false) /\
  is_completed (a_state (fst (action_complete r (k, p)))) = true.
Proof.
  intros r k p H. unfold action_complete. rewrite H. cbn. split; [reflexivity|apply state_of_kind_completed].
Qed.

Lemma deliver_all_completed : forall l r,
  is_completed (a_state r) = true -> deliver_all r l = (r, 0).
Proof.
  induction l as [|x t IH]; intros r H; cbn [deliver_all]; [reflexivity|].
  rewrite (action_complete_completed r x H). rewrite (IH r H). reflexivity.
Qed.

(* any sequence of deliveries to a not yet completed action execution: the first one is
   taken, all the others (duplicates, a heartbeat-expiry error, a late genuine result, in
   any number and order) raise and change nothing *)
Lemma deliver_all_first_wins : forall r k p l,
  is_completed (a_state r) = false ->
  deliver_all r ((k, p) :: l) = (mkARow (state_of_kind k) true (Some p), 1).
Proof.
  intros r k p l H. cbn [deliver_all].
  destruct (action_complete_fresh r k p H) as [E Hc]. rewrite E in *. cbn [fst] in Hc.
  rewrite (deliver_all_completed l _ Hc). reflexivity.
Qed.

Lemma deliver_all_app : forall l1 l2 r,
  deliver_all r (l1 ++ l2) =
  (fst (deliver_all (fst (deliver_all r l1)) l2),
   snd (deliver_all r l1) + snd (deliver_all (fst (deliver_all r l1)) l2)).
Proof.
  induction l1 as [|x t IH]; intros l2 r; cbn [app deliver_all fst snd].
  - destruct (deliver_all r l2); reflexivity.
  - destruct (action_complete r x) as [r1 raised]. rewrite IH.
    destruct (deliver_all r1 t) as [r2 n]. cbn [fst snd].
    destruct (deliver_all r2 l2) as [r3 m]. cbn [fst snd]. destruct raised; reflexivity.
Qed.

Lemma deliver_all_ends_completed : forall l r,
  l <> [] -> is_completed (a_state (fst (deliver_all r l))) = true.
Proof.
  intros [|[k p] t] r Hne; [congruence|].
  destruct (is_completed (a_state r)) eqn:H.
  - rewrite deliver_all_completed by exact H. exact H.
  - rewrite deliver_all_first_wins by exact H. cbn. apply state_of_kind_completed.
Qed.

(* a message delivered before may be delivered again at any later point: same row, same
   number of accepted results *)
Lemma deliver_dup_anywhere : forall r l1 x l2 l3,
  deliver_all r (l1 ++ x :: l2 ++ x :: l3) = deliver_all r (l1 ++ x :: l2 ++ l3).
Proof.
  intros r l1 x l2 l3.
  replace (l1 ++ x :: l2 ++ x :: l3) with ((l1 ++ x :: l2) ++ x :: l3)
    by (rewrite <- app_assoc; reflexivity).
  replace (l1 ++ x :: l2 ++ l3) with ((l1 ++ x :: l2) ++ l3)
    by (rewrite <- app_assoc; reflexivity).
  rewrite (deliver_all_app (l1 ++ x :: l2) (x :: l3)), (deliver_all_app (l1 ++ x :: l2) l3).
  assert (Hc : is_completed (a_state (fst (deliver_all r (l1 ++ x :: l2)))) = true)
    by (apply deliver_all_ends_completed; destruct l1; discriminate).
  rewrite !(deliver_all_completed _ _ Hc). reflexivity.
Qed.

(* the heartbeat-expiry error racing the genuine result: whichever is delivered first is
   accepted, the other changes nothing, exactly one is accepted *)
Lemma heartbeat_race : forall r genuine expiry,
  is_completed (a_state r) = false ->
  deliver_all r [genuine; expiry] = (fst (action_complete r genuine), 1) /\
  deliver_all r [expiry; genuine] = (fst (action_complete r expiry), 1).
Proof.
  intros r [k1 p1] [k2 p2] H. rewrite !deliver_all_first_wins by exact H.
  unfold action_complete. rewrite H. cbn. split; reflexivity.
Qed.

(* ------------------------------------------------------------------ *)
(* Task.complete guards and RegularTask._run_new                        *)

Lemma task_complete_ignored : forall cur new si cas,
  is_completed cur = true -> is_skipped new = false ->
  task_complete cur new si cas = (cur, Ignored).
Proof. intros cur new si cas H1 H2. unfold task_complete. rewrite H1, H2. reflexivity. Qed.

Lemma task_complete_logic_completes : forall cur new si cas s,
  is_completed cur = false -> is_completed new = true ->
  task_complete cur new si cas = (s, Logic) -> s = new.
Proof.
  intros cur new si cas s H1 H2. unfold task_complete. rewrite H1. cbn [andb].
  destruct (state_eqb cur new) eqn:E.
  - (* cur = new contradicts completed/not completed *)
    destruct cur, new; try discriminate E; try discriminate H1; discriminate H2.
  - cbn [andb]. destruct cas; intros H; inversion H; reflexivity.
Qed.

(* the requested states on_action_complete passes: a finished action's state *)
Definition finished (s : state) : bool := is_completed s && negb (is_skipped s).

(* any sequence of completion requests with finished states (result deliveries, forced
   completions, in any number): the completion logic - publishing and dispatch of the
   follow-up commands, i.e. creation of downstream tasks - runs at most once, and never
   for an already completed task *)
Lemma complete_all_logic_once : forall l cur,
  Forall (fun x => finished (fst (fst x)) = true) l ->
  snd (complete_all cur l) <= 1 /\
  (is_completed cur = true -> complete_all cur l = (cur, 0)).
Proof.
  induction l as [|[[new si] cas] t IH]; intros cur HF.
  - cbn. split; [lia|reflexivity].
  - inversion HF as [|? ? Hx HF']; subst. cbn [fst] in Hx.
    apply andb_true_iff in Hx. destruct Hx as [Hc Hs]. apply negb_true_iff in Hs.
    cbn [complete_all].
    destruct (is_completed cur) eqn:Hcur.
    + rewrite (task_complete_ignored cur new si cas Hcur Hs).
      destruct (IH cur HF') as [_ IH2]. rewrite (IH2 Hcur). cbn. split; [lia|reflexivity].
    + split; [|discriminate].
      destruct (task_complete cur new si cas) as [s1 p] eqn:E.
      destruct p.
      * destruct (IH s1 HF') as [IH1 _]. destruct (complete_all s1 t). cbn [snd] in *. lia.
      * destruct (IH s1 HF') as [IH1 _]. destruct (complete_all s1 t). cbn [snd] in *. lia.
      * pose proof (task_complete_logic_completes cur new si cas s1 Hcur Hc E). subst s1.
        destruct (IH new HF') as [_ IH2]. rewrite (IH2 Hc). cbn. lia.
Qed.

Lemma run_new_not_idle : forall w p cur, is_idle cur = false -> run_new w p cur = (cur, 0).
Proof. intros w p cur H. unfold run_new. rewrite H. destruct w; reflexivity. Qed.

Lemma run_new_all_not_idle : forall l cur, is_idle cur = false -> run_new_all cur l = (cur, 0).
Proof.
  induction l as [|[w p] t IH]; intros cur H; cbn [run_new_all]; [reflexivity|].
  rewrite (run_new_not_idle w p cur H). rewrite (IH cur H). reflexivity.
Qed.

(* any number of first-run start_task deliveries for one task (policies never put a task
   back to IDLE): actions are scheduled at most once, and not at all for a task that has
   already left IDLE *)
Lemma run_new_all_once : forall l cur,
  Forall (fun wp => snd wp <> Some IDLE) l ->
  snd (run_new_all cur l) <= 1 /\
  (is_idle cur = false -> run_new_all cur l = (cur, 0)).
Proof.
  induction l as [|[w p] t IH]; intros cur HF.
  - cbn. split; [lia|reflexivity].
  - split; [|apply run_new_all_not_idle].
    inversion HF as [|? ? Hp HF']; subst. cbn [snd] in Hp.
    cbn [run_new_all]. unfold run_new.
    destruct w.
    + destruct (IH cur HF') as [IH1 _]. destruct (run_new_all cur t). cbn [snd] in *. lia.
    + destruct (is_idle cur) eqn:Hi.
      * destruct p as [s|].
        -- destruct (state_eqb s RUNNING) eqn:Es.
           ++ rewrite (run_new_all_not_idle t RUNNING) by reflexivity. cbn. lia.
           ++ assert (Hs : is_idle s = false) by (destruct s; try reflexivity; congruence).
              rewrite (run_new_all_not_idle t s Hs). cbn. lia.
        -- rewrite (run_new_all_not_idle t RUNNING) by reflexivity. cbn. lia.
      * rewrite (run_new_all_not_idle t cur Hi). cbn. lia.
Qed.

(* ------------------------------------------------------------------ *)
(* start_workflow carrying an execution id                              *)

Lemma start_existing : forall t id p q,
  find_wf id t = Some q -> start_workflow t id p = (t, q, false).
Proof. intros t id p q H. unfold start_workflow. rewrite H. reflexivity. Qed.

Lemma find_wf_app : forall t1 t2 id,
  find_wf id (t1 ++ t2) = match find_wf id t1 with Some q => Some q | None => find_wf id t2 end.
Proof.
  induction t1 as [|[i p] r IH]; intros t2 id; cbn [app find_wf]; [reflexivity|].
  destruct (Nat.eqb i id); [reflexivity|apply IH].
Qed.

Lemma find_wf_count : forall t id, find_wf id t = None <-> count_id id t = 0.
Proof.
  induction t as [|[i p] r IH]; intros id; unfold count_id in *; cbn [find_wf filter fst List.length].
  - tauto.
  - destruct (Nat.eqb i id); cbn [List.length]; [split; intros; discriminate|apply IH].
Qed.

Lemma count_id_app : forall t1 t2 id, count_id id (t1 ++ t2) = count_id id t1 + count_id id t2.
Proof. intros. unfold count_id. rewrite filter_app, app_length. reflexivity. Qed.

(* one start request: an id is never stored twice, other ids are untouched *)
Lemma start_workflow_count : forall t id p j,
  count_id j (fst (fst (start_workflow t id p))) =
  if Nat.eqb id j then Nat.max 1 (count_id j t) else count_id j t.
Proof.
  intros t id p j. unfold start_workflow.
  destruct (find_wf id t) as [q|] eqn:E; cbn [fst].
  - destruct (Nat.eqb id j) eqn:Ej; [|reflexivity].
    apply Nat.eqb_eq in Ej. subst j.
    destruct (count_id id t) eqn:Ec; [|lia].
    apply find_wf_count in Ec. congruence.
  - rewrite count_id_app. unfold count_id at 2. cbn [filter fst].
    destruct (Nat.eqb id j) eqn:Ej; cbn [List.length].
    + apply Nat.eqb_eq in Ej. subst j. apply find_wf_count in E. rewrite E. reflexivity.
    + lia.
Qed.

Definition unique_ids (t : wf_table) : Prop := forall j, count_id j t <= 1.

Lemma start_workflow_unique : forall t id p,
  unique_ids t -> unique_ids (fst (fst (start_workflow t id p))).
Proof.
  intros t id p H j. rewrite start_workflow_count. specialize (H j).
  destruct (Nat.eqb id j); lia.
Qed.

(* any sequence of start requests (ids repeated any number of times, any inputs): every
   id is stored at most once *)
Lemma start_all_unique : forall l t, unique_ids t -> unique_ids (fst (start_all t l)).
Proof.
  induction l as [|[id p] r IH]; intros t H; cbn [start_all]; [exact H|].
  pose proof (start_workflow_unique t id p H) as H1.
  destruct (start_workflow t id p) as [[t1 q] c]. cbn [fst] in H1.
  specialize (IH t1 H1). destruct (start_all t1 r). exact IH.
Qed.

Lemma start_all_app : forall l1 l2 t,
  fst (start_all t (l1 ++ l2)) = fst (start_all (fst (start_all t l1)) l2).
Proof.
  induction l1 as [|[id p] r IH]; intros l2 t; cbn [app start_all]; [reflexivity|].
  destruct (start_workflow t id p) as [[t1 q] c].
  specialize (IH l2 t1). destruct (start_all t1 (r ++ l2)). destruct (start_all t1 r).
  exact IH.
Qed.

Lemma start_workflow_finds : forall t id p,
  find_wf id (fst (fst (start_workflow t id p))) <> None.
Proof.
  intros t id p. unfold start_workflow. destruct (find_wf id t) eqn:E; cbn [fst].
  - congruence.
  - rewrite find_wf_app, E. cbn. rewrite Nat.eqb_refl. discriminate.
Qed.

Lemma start_workflow_keeps : forall t id p j q,
  find_wf j t = Some q -> find_wf j (fst (fst (start_workflow t id p))) = Some q.
Proof.
  intros t id p j q H. unfold start_workflow. destruct (find_wf id t); cbn [fst]; [exact H|].
  rewrite find_wf_app, H. reflexivity.
Qed.

Lemma start_all_keeps : forall l t j q,
  find_wf j t = Some q -> find_wf j (fst (start_all t l)) = Some q.
Proof.
  induction l as [|[id p] r IH]; intros t j q H; cbn [start_all]; [exact H|].
  pose proof (start_workflow_keeps t id p j q H) as H1.
  destruct (start_workflow t id p) as [[t1 q1] c]. cbn [fst] in H1.
  specialize (IH t1 j q H1). destruct (start_all t1 r). exact IH.
Qed.

(* a start request with an id, delivered again at any later point with any input: the
   table of executions is the one of the duplicate-free run, the redelivered request
   creates nothing and returns the execution created by the first delivery *)
Lemma start_dup_anywhere : forall t l1 id p l2 p' l3,
  fst (start_all t (l1 ++ (id, p) :: l2 ++ (id, p') :: l3)) =
  fst (start_all t (l1 ++ (id, p) :: l2 ++ l3)) /\
  exists q, let t' := fst (start_all t (l1 ++ (id, p) :: l2)) in
            start_workflow t' id p' = (t', q, false).
Proof.
  intros t l1 id p l2 p' l3.
  assert (Hf : exists q, find_wf id (fst (start_all t (l1 ++ (id, p) :: l2))) = Some q).
  { rewrite start_all_app. cbn [start_all].
    pose proof (start_workflow_finds (fst (start_all t l1)) id p) as Hne.
    destruct (start_workflow (fst (start_all t l1)) id p) as [[t1 q1] c] eqn:E. cbn [fst] in Hne.
    destruct (find_wf id t1) as [q|] eqn:Eq; [|congruence].
    exists q. pose proof (start_all_keeps l2 t1 id q Eq) as K.
    destruct (start_all t1 l2). exact K. }
  destruct Hf as [q Hq]. split.
  - replace (l1 ++ (id, p) :: l2 ++ (id, p') :: l3) with ((l1 ++ (id, p) :: l2) ++ (id, p') :: l3)
      by (rewrite <- app_assoc; reflexivity).
    replace (l1 ++ (id, p) :: l2 ++ l3) with ((l1 ++ (id, p) :: l2) ++ l3)
      by (rewrite <- app_assoc; reflexivity).
    rewrite (start_all_app (l1 ++ (id, p) :: l2) ((id, p') :: l3)), (start_all_app (l1 ++ (id, p) :: l2) l3).
    cbn [start_all]. rewrite (start_existing _ id p' q Hq).
    destruct (start_all (fst (start_all t (l1 ++ (id, p) :: l2))) l3). reflexivity.
  - exists q. cbn zeta. apply start_existing. exact Hq.
Qed.
