(* C01, the "never left RUNNING with nothing pending" clause, PROVED for join-free programs:
   for every direct workflow without join tasks (any forks, guards, engine commands, cycles), every
   outcome oracle, every uid oracle and every schedule of start, delivery of any pending message /
   executor request / post-commit queue in any order, and the operator events pause, resume and stop at
   any point, whenever nothing is pending every task execution is final and the workflow is completed
   or PAUSED (which only a resume leaves: a paused run that is resumed goes on to completion).  The proof is the no-lost-wake-up invariant of DESIGN.md 5.4 (I-work),
   restricted to the message kinds that exist without joins:
     every IDLE task has a pending start request, every RUNNING task has an unfinished action with a
     pending executor request or result, a RUNNING workflow whose tasks are all completed has a pending
     completion check.
   With joins the invariant additionally needs the graph argument relating
   find_indirectly_affected_task_executions to _possible_route; that part is NOT proved (DESIGN 11.2). *)
From Coq Require Import List Bool Arith Lia Permutation.
Require Import Mistral.Gen.States Mistral.Model.PySort Mistral.Model.Engine.
Require Import Mistral.Proofs.StatesProofs Mistral.Proofs.EngineMutual Mistral.Proofs.EngineWf
               Mistral.Proofs.EngineSafety Mistral.Proofs.EngineMore.
Import ListNotations.

(* ------------------------------------------------------------ join-free programs *)
Definition nojoin (sp : spec) : Prop := forall n, is_join sp n = false.

Definition nojoin_b (sp : spec) : bool :=
  forallb (fun t => match ts_join t with JNone => true | _ => false end) sp.

Lemma nojoin_b_sound sp : nojoin_b sp = true -> nojoin sp.
Proof.
  intros H n. unfold is_join, get_ts.
  destruct (nth_error sp n) as [t|] eqn:E.
  - rewrite (nth_error_nth _ _ _ E). unfold nojoin_b in H. rewrite forallb_forall in H.
    specialize (H t (nth_error_In _ _ E)). destruct (ts_join t); congruence.
  - rewrite nth_overflow by (apply nth_error_None; exact E). reflexivity.
Qed.

(* commands that occur in plain runs of join-free programs *)
Definition okc (c : cmd) : bool :=
  match c with
  | CRunTask _ _ false _ => true
  | CRunExisting _ true false => true
  | CSetState ERROR | CSetState SUCCESS | CSetState PAUSED => true
  | CNoop => true
  | _ => false
  end.

Lemma to_cmd_okc sp tid p : nojoin sp -> okc (to_cmd sp tid p) = true.
Proof. intros Hn. unfold to_cmd. destruct (fst p); simpl; try reflexivity. rewrite Hn. reflexivity. Qed.

Lemma Forall_okc_map sp tid nx : nojoin sp -> Forall (fun c => okc c = true) (map (to_cmd sp tid) nx).
Proof. intros Hn. apply Forall_forall. intros c Hc. apply in_map_iff in Hc. destruct Hc as [p [<- _]]. apply to_cmd_okc, Hn. Qed.

(* rearrange keeps only commands of the list *)
Lemma split_at_state_parts l : forall pre a sc b,
  split_at_state l pre = Some (a, sc, b) -> exists mid, a = pre ++ mid /\ l = mid ++ sc :: b.
Proof.
  induction l as [|c r IH]; intros pre a sc b H; simpl in H; [discriminate|].
  destruct c; try (apply IH in H; destruct H as [mid [-> ->]]; eexists (_ :: mid); rewrite <- app_assoc; split; reflexivity).
  inversion H; subst. exists []. rewrite app_nil_r. split; reflexivity.
Qed.

Lemma rearrange_incl l c : In c (rearrange l) -> In c l.
Proof.
  unfold rearrange. set (l' := filter _ l).
  assert (Hl' : forall x, In x l' -> In x l) by (intros x Hx; apply filter_In in Hx; apply Hx).
  assert (Hs : forall m x, In x (sort_cmds m) -> In x m).
  { intros m x Hx. eapply Permutation_in; [apply Permutation_sym, (py_sort_perm cmd_lt CNoop)|exact Hx]. }
  destruct (split_at_state l' []) as [[[a sc] b]|] eqn:E.
  - apply split_at_state_parts in E. destruct E as [mid [Ea El]]. simpl in Ea. subst a.
    set (res := match mid, sc with
                | [], CSetState PAUSED => sort_cmds mid ++ [sc] ++ b
                | [], _ => [sc]
                | _, CSetState PAUSED => sort_cmds mid ++ [sc] ++ b
                | _, _ => sort_cmds mid ++ [sc]
                end).
    assert (Hres : res = sort_cmds mid ++ sc :: b \/ res = [sc] \/ res = sort_cmds mid ++ [sc]).
    { unfold res. destruct mid as [|m0 mid']; destruct sc as [? ? ? ?|? ? ?|?|x|]; try destruct x; auto. }
    intros H. apply Hl'. rewrite El. fold res in H.
    destruct Hres as [Hr|[Hr|Hr]]; rewrite Hr in H.
    + apply in_app_or in H. apply in_or_app. destruct H as [H|H]; [left; apply Hs; exact H|right; exact H].
    + destruct H as [<-|[]]. apply in_or_app. right. left. reflexivity.
    + apply in_app_or in H. apply in_or_app. destruct H as [H|[<-|[]]]; [left; apply Hs; exact H|right; left; reflexivity].
  - intros H. apply Hl', Hs, H.
Qed.

Lemma rearrange_okc l : Forall (fun c => okc c = true) l -> Forall (fun c => okc c = true) (rearrange l).
Proof.
  intros H. apply Forall_forall. intros c Hc. apply rearrange_incl in Hc.
  rewrite Forall_forall in H. apply H, Hc.
Qed.

(* ================================================================= the loop on ok commands *)
(* With ok commands process_cmds never re-enters complete_task: it is a plain loop. *)
Section Loop.
Variable sp : spec.

Fixpoint loop (t : tx) (cmds : list cmd) : result :=
  match cmds with
  | [] => (t, FOk)
  | c :: rest =>
    if is_completed (wf_state (fst t)) then (t, FOk)
    else if state_eqb (wf_state (fst t)) PAUSED then loop (backlog_push t c) rest
    else match c with
         | CRunTask name _ waiting trig => loop (run_task_cmd sp t name waiting trig) rest
         | CSetState x => match set_workflow_state (fst t) x with
                          | Some s1 => loop (s1, snd t) rest
                          | None => (t, FForce)
                          end
         | CNoop => loop t rest
         | CRunExisting tid reset rerun => loop (run_existing_cmd t tid reset rerun) rest
         | _ => (t, FOk)
         end
  end.

Lemma process_cmds_loop : forall cmds f t,
  Forall (fun c => okc c = true) cmds -> length cmds < f -> process_cmds sp f t cmds = loop t cmds.
Proof.
  induction cmds as [|c rest IH]; intros f t Hc Hf; rewrite process_cmds_eq.
  - destruct f; reflexivity.
  - destruct f as [|f]; [simpl in Hf; lia|]. simpl in Hf.
    inversion Hc as [|? ? Hc1 Hc2]; subst. cbv zeta. cbn [loop].
    destruct (is_completed (wf_state (fst t))); [reflexivity|].
    destruct (state_eqb (wf_state (fst t)) PAUSED); [apply IH; [exact Hc2|lia]|].
    destruct c as [name e waiting trig|tid reset rerun|tid|x|]; simpl in Hc1; try discriminate.
    + apply IH; [exact Hc2|lia].
    + apply IH; [exact Hc2|lia].
    + destruct (set_workflow_state (fst t) x); [apply IH; [exact Hc2|lia]|reflexivity].
    + apply IH; [exact Hc2|lia].
Qed.

End Loop.

Definition is_run (c : cmd) : bool := match c with CRunTask _ _ _ _ => true | _ => false end.
Definition is_set (c : cmd) : bool := match c with CSetState _ => true | _ => false end.
Definition idle_row (r : trow) : Prop := t_state r = IDLE.
Definition okcs (l : list cmd) : Prop := Forall (fun c => okc c = true) l.

(* ------------------------------------------------------------ more on rearrange *)
Definition nonnoop (c : cmd) : bool := match c with CNoop => false | _ => true end.

Lemma split_at_state_sc l : forall pre a sc b, split_at_state l pre = Some (a, sc, b) -> is_set sc = true.
Proof.
  induction l as [|c r IH]; intros pre a sc b H; simpl in H; [discriminate|].
  destruct c; try (eapply IH; exact H). inversion H; subst. reflexivity.
Qed.

Lemma existsb_perm {A} (f : A -> bool) l l' : Permutation l l' -> existsb f l = existsb f l'.
Proof.
  induction 1; simpl; auto.
  - rewrite IHPermutation. reflexivity.
  - destruct (f x), (f y); reflexivity.
  - congruence.
Qed.

Lemma sort_cmds_perm m : Permutation m (sort_cmds m).
Proof. apply (py_sort_perm cmd_lt CNoop). Qed.

Lemma rearrange_shape l :
  (split_at_state (filter nonnoop l) [] = None /\ rearrange l = sort_cmds (filter nonnoop l)) \/
  (exists mid sc b, filter nonnoop l = mid ++ sc :: b /\ is_set sc = true /\
     (rearrange l = sort_cmds mid ++ sc :: b \/ rearrange l = [sc] \/ rearrange l = sort_cmds mid ++ [sc])).
Proof.
  unfold rearrange. fold nonnoop. set (l' := filter nonnoop l).
  destruct (split_at_state l' []) as [[[a sc] b]|] eqn:E; [right|left; split; reflexivity].
  pose proof (split_at_state_sc _ _ _ _ _ E) as Hsc.
  apply split_at_state_parts in E. destruct E as [mid [Ea El]]. simpl in Ea. subst a.
  exists mid, sc, b. split; [exact El|]. split; [exact Hsc|].
  destruct mid as [|m0 mid']; destruct sc as [? ? ? ?|? ? ?|?|x|]; try destruct x; auto.
Qed.

Lemma rearrange_length l : length (rearrange l) <= length l.
Proof.
  assert (Hf : length (filter nonnoop l) <= length l).
  { induction l as [|c r IH]; simpl; [lia|]. destruct (nonnoop c); simpl; lia. }
  destruct (rearrange_shape l) as [[_ ->]|[mid [sc [b [El [_ Hr]]]]]].
  - rewrite <- (Permutation_length (sort_cmds_perm _)). exact Hf.
  - rewrite El, app_length in Hf. simpl in Hf.
    destruct Hr as [->|[->| ->]]; rewrite ?app_length, <- ?(Permutation_length (sort_cmds_perm mid)); simpl; lia.
Qed.

Lemma rearrange_noset_run l :
  existsb is_set (rearrange l) = false -> existsb is_run (rearrange l) = existsb is_run l.
Proof.
  intros H.
  assert (Hf : existsb is_run (filter nonnoop l) = existsb is_run l).
  { clear H. induction l as [|c r IH]; simpl; [reflexivity|]. destruct c; simpl; rewrite ?IH; reflexivity. }
  destruct (rearrange_shape l) as [[_ Hr]|[mid [sc [b [El [Hsc Hr]]]]]].
  - rewrite Hr, <- (existsb_perm _ _ _ (sort_cmds_perm _)). exact Hf.
  - exfalso. destruct Hr as [Hr|[Hr|Hr]]; rewrite Hr in H; rewrite ?existsb_app in H; simpl in H;
      rewrite Hsc in H; rewrite ?orb_true_r in H; simpl in H; discriminate.
Qed.


Lemma rearrange_in_filter l c : In c (rearrange l) -> In c (filter nonnoop l).
Proof.
  assert (Hs : forall m x, In x (sort_cmds m) -> In x m).
  { intros m x Hx. eapply Permutation_in; [apply Permutation_sym, sort_cmds_perm|exact Hx]. }
  destruct (rearrange_shape l) as [[_ ->]|[mid [sc [b [El [_ Hr]]]]]]; [apply Hs|].
  rewrite El. intros H. apply in_or_app.
  destruct Hr as [Hr|[Hr|Hr]]; rewrite Hr in H.
  - apply in_app_or in H. destruct H as [H|H]; [left; apply Hs, H|right; exact H].
  - destruct H as [<-|[]]. right. left. reflexivity.
  - apply in_app_or in H. destruct H as [H|[<-|[]]]; [left; apply Hs, H|right; left; reflexivity].
Qed.

Lemma rearrange_nonnoop l c : In c (rearrange l) -> nonnoop c = true.
Proof. intros H. apply rearrange_in_filter in H. apply filter_In in H. apply H. Qed.

Lemma rearrange_noset_perm l : existsb is_set (rearrange l) = false -> Permutation (filter nonnoop l) (rearrange l).
Proof.
  intros H. destruct (rearrange_shape l) as [[_ Hr]|[mid [sc [b [El [Hsc Hr]]]]]].
  - rewrite Hr. apply sort_cmds_perm.
  - exfalso. destruct Hr as [Hr|[Hr|Hr]]; rewrite Hr in H; rewrite ?existsb_app in H; simpl in H;
      rewrite Hsc in H; rewrite ?orb_true_r in H; simpl in H; discriminate.
Qed.

(* what may sit in the backlog / be processed by the loop: ok, not a noop (rearrange drops them), and
   a RunExisting command refers to an existing task execution *)
Definition bk_ok (n : nat) (c : cmd) : bool :=
  okc c && nonnoop c && match c with CRunExisting tid _ _ => Nat.ltb tid n | _ => true end.
Definition bks (n : nat) (l : list cmd) : Prop := Forall (fun c => bk_ok n c = true) l.

Lemma bk_ok_mono n m c : n <= m -> bk_ok n c = true -> bk_ok m c = true.
Proof.
  unfold bk_ok. intros Hle H. apply andb_true_iff in H. destruct H as [H1 H2]. rewrite H1. simpl.
  destruct c; auto. apply Nat.ltb_lt in H2. apply Nat.ltb_lt. lia.
Qed.

Lemma bks_mono n m l : n <= m -> bks n l -> bks m l.
Proof. intros Hle H. eapply Forall_impl; [|exact H]. intros c. apply bk_ok_mono, Hle. Qed.

Definition in_range (n : nat) (l : list cmd) : Prop := forall tid a b, In (CRunExisting tid a b) l -> tid < n.

Lemma rearrange_bks n l : okcs l -> in_range n l -> bks n (rearrange l).
Proof.
  intros Hok Hr. apply Forall_forall. intros c Hc.
  pose proof (rearrange_nonnoop _ _ Hc) as Hn. apply rearrange_incl in Hc.
  unfold okcs in Hok. rewrite Forall_forall in Hok. unfold bk_ok. rewrite (Hok c Hc), Hn. simpl.
  destruct c; auto. apply Nat.ltb_lt. eapply Hr. exact Hc.
Qed.

Lemma bks_okcs n l : bks n l -> okcs l.
Proof. intros H. eapply Forall_impl; [|exact H]. intros c Hc. unfold bk_ok in Hc. apply andb_true_iff in Hc. destruct Hc as [Hc _]. apply andb_true_iff in Hc. apply Hc. Qed.

(* the start requests of these runs: the original one (first run), the one re-issued by resume, and the
   one issued by a rerun (reset on or off) *)
Definition sflag (f r x : bool) : bool := (f && negb r && negb x) || (negb f && negb r && x) || (negb f && r).

Definition plain_op (o : op) : bool :=
  match o with
  | OStartTask _ f r x => sflag f r x
  | ORunAction _ => true
  | OCheck => true
  | _ => false
  end.

(* ================================================================= what the loop does *)
Section Loop2.
Variable sp : spec.

Record loop_spec (t t' : tx) (cmds : list cmd) : Prop := {
  ls_pend : pend (fst t') = pend (fst t);
  ls_acts : acts (fst t') = acts (fst t);
  ls_created : wf_created (fst t') = wf_created (fst t);
  ls_live : live_wf_state (wf_state (fst t')) = true;
  ls_okb : bks (length (tasks (fst t'))) (backlog (fst t'));
  ls_new : exists nt more, tasks (fst t') = tasks (fst t) ++ nt /\ Forall idle_row nt /\
             snd t' = snd t ++ more /\ forallb plain_op more = true /\
             (forall k, k < length nt -> In (OStartTask (length (tasks (fst t)) + k) true false false) more) /\
             (wf_state (fst t') = RUNNING -> existsb is_run cmds = true -> nt <> []) /\
             (wf_state (fst t') = RUNNING -> forall tid, In (CRunExisting tid true false) cmds ->
                In (OStartTask tid false false true) more);
  ls_running : wf_state (fst t') = RUNNING ->
               wf_state (fst t) = RUNNING /\ backlog (fst t') = backlog (fst t) /\ existsb is_set cmds = false;
  ls_quiet : wf_state (fst t) <> RUNNING ->
             tasks (fst t') = tasks (fst t) /\ wf_state (fst t') = wf_state (fst t) /\ snd t' = snd t
}.

Lemma set_ws_running s x : wf_state s = RUNNING -> okc (CSetState x) = true ->
  set_workflow_state s x = Some (set_wf_state s x).
Proof.
  intros Hw Hx. destruct x; simpl in Hx; try discriminate;
    unfold set_workflow_state, stop_workflow, fail_workflow, succeed_workflow, pause_workflow, wf_set_state;
    rewrite Hw; reflexivity.
Qed.

Lemma loop_spec_nil t : live_wf_state (wf_state (fst t)) = true -> bks (length (tasks (fst t))) (backlog (fst t)) ->
  forall cmds, (wf_state (fst t) = RUNNING -> cmds = []) -> loop_spec t t cmds.
Proof.
  intros Hl Hb cmds Hc. constructor; auto.
  - exists [], []. rewrite !app_nil_r. repeat split; auto.
    + intros k Hk. simpl in Hk. lia.
    + intros Hw Hr. rewrite (Hc Hw) in Hr. discriminate.
    + intros Hw tid Hin. rewrite (Hc Hw) in Hin. destruct Hin.
  - intros Hw. rewrite (Hc Hw). auto.
Qed.

Lemma bk_ok_okc n c : bk_ok n c = true -> okc c = true.
Proof. unfold bk_ok. intros H. apply andb_true_iff in H. destruct H as [H _]. apply andb_true_iff in H. apply H. Qed.

Lemma loop_ok : forall cmds t, bks (length (tasks (fst t))) cmds -> live_wf_state (wf_state (fst t)) = true ->
  bks (length (tasks (fst t))) (backlog (fst t)) ->
  snd (loop sp t cmds) = FOk /\ loop_spec t (fst (loop sp t cmds)) cmds.
Proof.
  induction cmds as [|c rest IH]; intros t Hc Hl Hb.
  - simpl. split; [reflexivity|]. apply loop_spec_nil; auto.
  - inversion Hc as [|? ? Hc1 Hc2]; subst. cbn [loop].
    pose proof (bk_ok_okc _ _ Hc1) as Hc1o.
    destruct (wf_state (fst t)) eqn:Ew; try discriminate Hl.
    + (* RUNNING *)
      change (is_completed RUNNING) with false. change (state_eqb RUNNING PAUSED) with false. cbv iota.
      destruct c as [name e waiting trig|tid reset rerun|tid|x|]; simpl in Hc1o; try discriminate.
      * destruct waiting; [discriminate|].
        set (row := mkTrow name IDLE false [] false false false (next_uid (fst t)) (trig_list trig)).
        change (run_task_cmd sp t name false trig)
          with (add_task (fst t) row, snd t ++ [OStartTask (length (tasks (fst t))) true false false]).
        assert (Hlen : length (tasks (fst t) ++ [row]) = S (length (tasks (fst t)))) by (rewrite app_length; simpl; lia).
        destruct (IH (add_task (fst t) row, snd t ++ [OStartTask (length (tasks (fst t))) true false false])) as [Hf Hs].
        { cbn [fst add_task tasks]. rewrite Hlen. eapply bks_mono; [|exact Hc2]. lia. }
        { simpl. rewrite Ew. reflexivity. }
        { cbn [fst add_task tasks backlog]. rewrite Hlen. eapply bks_mono; [|exact Hb]. lia. }
        split; [exact Hf|]. destruct Hs as [Hp Ha Hcr Hlv Hob Hn Hr Hq].
        cbn [fst snd add_task tasks acts pend wf_created wf_state backlog] in Hp, Ha, Hcr, Hn, Hr, Hq.
        constructor; [exact Hp|exact Ha|exact Hcr|exact Hlv|exact Hob| | |].
        -- destruct Hn as [nt [more [H1 [H2 [H3 [H4 [H5 [H6 H7]]]]]]]].
           exists (row :: nt), (OStartTask (length (tasks (fst t))) true false false :: more).
           split; [rewrite H1, <- app_assoc; reflexivity|].
           split; [constructor; [reflexivity|exact H2]|].
           split; [rewrite H3, <- app_assoc; reflexivity|].
           split; [simpl; exact H4|].
           split; [|split].
           ++ intros k Hk. destruct k as [|k].
              ** left. rewrite Nat.add_0_r. reflexivity.
              ** right. simpl in Hk. specialize (H5 k ltac:(lia)). rewrite Hlen in H5.
                 replace (length (tasks (fst t)) + S k) with (S (length (tasks (fst t))) + k) by lia. exact H5.
           ++ intros _ _. discriminate.
           ++ intros Hw tid Hin. right. apply (H7 Hw). destruct Hin as [Hin|Hin]; [discriminate|exact Hin].
        -- intros Hw. destruct (Hr Hw) as [H1 [H2 H3]]. repeat split; auto.
        -- intros Hne. congruence.
      * destruct reset; [|discriminate]. destruct rerun; [discriminate|].
        assert (Et2 : run_existing_cmd t tid true false = (fst t, snd t ++ [OStartTask tid false false true])).
        { unfold run_existing_cmd. rewrite andb_false_r. reflexivity. }
        rewrite Et2.
        destruct (IH (fst t, snd t ++ [OStartTask tid false false true]) Hc2) as [Hf Hs]; [simpl; rewrite Ew; reflexivity|exact Hb|].
        split; [exact Hf|]. destruct Hs as [Hp Ha Hcr Hlv Hob Hn Hr Hq]. cbn [fst snd] in Hp, Ha, Hcr, Hn, Hr, Hq.
        constructor; [exact Hp|exact Ha|exact Hcr|exact Hlv|exact Hob| | |].
        -- destruct Hn as [nt [more [H1 [H2 [H3 [H4 [H5 [H6 H7]]]]]]]].
           exists nt, (OStartTask tid false false true :: more).
           split; [exact H1|]. split; [exact H2|].
           split; [rewrite H3, <- app_assoc; reflexivity|].
           split; [simpl; exact H4|].
           split; [|split].
           ++ intros k Hk. right. apply H5, Hk.
           ++ intros Hw Hrun. apply (H6 Hw). exact Hrun.
           ++ intros Hw tid' Hin. destruct Hin as [Hin|Hin].
              ** injection Hin as <-. left. reflexivity.
              ** right. apply (H7 Hw), Hin.
        -- intros Hw. destruct (Hr Hw) as [H1 [H2 H3]]. repeat split; auto.
        -- intros Hne. congruence.
      * rewrite (set_ws_running (fst t) x Ew Hc1o).
        destruct (IH (set_wf_state (fst t) x, snd t) Hc2) as [Hf Hs];
          [simpl; destruct x; simpl in Hc1o; try discriminate; reflexivity|exact Hb|].
        split; [exact Hf|]. destruct Hs as [Hp Ha Hcr Hlv Hob Hn Hr Hq]. simpl in Hp, Ha, Hcr, Hn, Hr, Hq.
        assert (Hx : x <> RUNNING) by (destruct x; simpl in Hc1o; try discriminate; intros; discriminate).
        destruct (Hq Hx) as [Q1 [Q2 Q3]].
        constructor; [exact Hp|exact Ha|exact Hcr|exact Hlv|exact Hob| | |].
        -- exists [], []. rewrite !app_nil_r. repeat split; auto.
           ++ intros k Hk. simpl in Hk. lia.
           ++ intros Hw. congruence.
           ++ intros Hw. congruence.
        -- intros Hw. congruence.
        -- intros Hne. congruence.
    + (* PAUSED *)
      change (is_completed PAUSED) with false. change (state_eqb PAUSED PAUSED) with true. cbv iota.
      destruct (IH (backlog_push t c) Hc2) as [Hf Hs]; [simpl; rewrite Ew; reflexivity| |].
      { simpl. apply Forall_app. split; [exact Hb|constructor; [exact Hc1|constructor]]. }
      split; [exact Hf|]. destruct Hs as [Hp Ha Hcr Hlv Hob Hn Hr Hq]. simpl in Hp, Ha, Hcr, Hn, Hr, Hq.
      assert (Hx : wf_state (fst t) <> RUNNING) by congruence.
      destruct (Hq Hx) as [Q1 [Q2 Q3]].
      constructor; [exact Hp|exact Ha|exact Hcr|exact Hlv|exact Hob| | |].
      * exists [], []. rewrite !app_nil_r. repeat split; auto.
        -- intros k Hk. simpl in Hk. lia.
        -- intros Hw. congruence.
        -- intros Hw. congruence.
      * intros Hw. congruence.
      * intros _. repeat split; congruence.
    + change (is_completed SUCCESS) with true; cbv iota. split; [reflexivity|].
      apply loop_spec_nil; [simpl; rewrite Ew; reflexivity|exact Hb|simpl fst; intros H; congruence].
    + change (is_completed CANCELLED) with true; cbv iota. split; [reflexivity|].
      apply loop_spec_nil; [simpl; rewrite Ew; reflexivity|exact Hb|simpl fst; intros H; congruence].
    + change (is_completed ERROR) with true; cbv iota. split; [reflexivity|].
      apply loop_spec_nil; [simpl; rewrite Ew; reflexivity|exact Hb|simpl fst; intros H; congruence].
Qed.

(* when the workflow is still RUNNING after a non-empty loop, something is going to wake it up *)
Lemma loop_progress t t' cmds : bks (length (tasks (fst t))) cmds -> loop_spec t t' cmds ->
  wf_state (fst t') = RUNNING -> cmds <> [] ->
  exists nt more, tasks (fst t') = tasks (fst t) ++ nt /\ snd t' = snd t ++ more /\
    (nt <> [] \/ exists tid, tid < length (tasks (fst t)) /\ In (OStartTask tid false false true) more).
Proof.
  intros Hb Hs Hw Hne. destruct (ls_running _ _ _ Hs Hw) as [_ [_ Hns]].
  destruct (ls_new _ _ _ Hs) as [nt [more [H1 [_ [H3 [_ [_ [H6 H7]]]]]]]].
  exists nt, more. split; [exact H1|]. split; [exact H3|].
  destruct cmds as [|c rest]; [contradiction|].
  inversion Hb as [|? ? Hc1 _]; subst. simpl in Hns. apply orb_false_iff in Hns. destruct Hns as [Hc _].
  pose proof (bk_ok_okc _ _ Hc1) as Hok. unfold bk_ok in Hc1.
  destruct c as [name e waiting trig|tid reset rerun|tid|x|]; simpl in Hok, Hc; try discriminate.
  - left. apply (H6 Hw). reflexivity.
  - destruct reset; [|discriminate]. destruct rerun; [discriminate|]. right. exists tid. split.
    + simpl in Hc1. apply Nat.ltb_lt. exact Hc1.
    + apply (H7 Hw). left. reflexivity.
Qed.
End Loop2.

(* ================================================================= dispatch = two loops *)
Lemma set_backlog_nil s : backlog s = [] -> set_backlog s [] = s.
Proof. destruct s; simpl; intros ->; reflexivity. Qed.

Lemma rearrange_nil : rearrange [] = [].
Proof. reflexivity. Qed.

Lemma dispatch_loops sp f t cmds : okcs cmds -> okcs (backlog (fst t)) ->
  length cmds + length (backlog (fst t)) + 1 < f ->
  dispatch sp f t cmds =
  match loop sp (set_backlog (fst t) [], snd t) (rearrange (backlog (fst t))) with
  | (t1, FOk) => loop sp t1 (rearrange cmds)
  | r => r
  end.
Proof.
  intros Hc Hb Hf. rewrite dispatch_eq. destruct f as [|f]; [lia|]. cbv zeta.
  pose proof (rearrange_length cmds) as Hlen.
  destruct (backlog (fst t)) as [|b bl] eqn:Eb.
  - rewrite rearrange_nil. cbn [loop]. rewrite set_backlog_nil by exact Eb.
    rewrite process_cmds_loop by (try apply rearrange_okc; try exact Hc; simpl in Hf; lia).
    destruct t; reflexivity.
  - pose proof (rearrange_length (b :: bl)) as Hlen2.
    rewrite process_cmds_loop by (try apply rearrange_okc; try exact Hb; simpl in Hf, Hlen2 |- *; lia).
    destruct (loop sp (set_backlog (fst t) [], snd t) (rearrange (b :: bl))) as [t1 fl]. destruct fl; [|reflexivity].
    apply process_cmds_loop; [apply rearrange_okc; exact Hc|simpl in Hf; lia].
Qed.

Record disp_spec (t t' : tx) (cmds : list cmd) : Prop := {
  ds_pend : pend (fst t') = pend (fst t);
  ds_acts : acts (fst t') = acts (fst t);
  ds_created : wf_created (fst t') = wf_created (fst t);
  ds_live : live_wf_state (wf_state (fst t')) = true;
  ds_okb : bks (length (tasks (fst t'))) (backlog (fst t'));
  ds_bl : wf_state (fst t') = RUNNING -> backlog (fst t') = [];
  ds_new : exists nt more, tasks (fst t') = tasks (fst t) ++ nt /\ Forall idle_row nt /\
             snd t' = snd t ++ more /\ forallb plain_op more = true /\
             (forall k, k < length nt -> In (OStartTask (length (tasks (fst t)) + k) true false false) more) /\
             (wf_state (fst t') = RUNNING -> existsb is_run cmds = true -> nt <> []) /\
             (wf_state (fst t') = RUNNING -> filter nonnoop (backlog (fst t)) ++ filter nonnoop cmds <> [] ->
                nt <> [] \/ exists tid, tid < length (tasks (fst t')) /\ In (OStartTask tid false false true) more);
  ds_running : wf_state (fst t') = RUNNING -> wf_state (fst t) = RUNNING;
  ds_quiet : wf_state (fst t) <> RUNNING ->
             tasks (fst t') = tasks (fst t) /\ wf_state (fst t') = wf_state (fst t) /\ snd t' = snd t
}.

Lemma bks_in_range n l : bks n l -> in_range n l.
Proof.
  intros H tid a b Hin. unfold bks in H. rewrite Forall_forall in H. specialize (H _ Hin).
  unfold bk_ok in H. apply andb_true_iff in H. destruct H as [_ H]. apply Nat.ltb_lt. exact H.
Qed.

Lemma perm_nonempty {A} (l l' : list A) : Permutation l l' -> l <> [] -> l' <> [].
Proof. intros Hp Hne ->. apply Permutation_sym, Permutation_nil in Hp. contradiction. Qed.

Lemma dispatch_ok sp f t cmds :
  okcs cmds -> in_range (length (tasks (fst t))) cmds ->
  live_wf_state (wf_state (fst t)) = true -> bks (length (tasks (fst t))) (backlog (fst t)) ->
  length cmds + length (backlog (fst t)) + 1 < f ->
  snd (dispatch sp f t cmds) = FOk /\ disp_spec t (fst (dispatch sp f t cmds)) cmds.
Proof.
  intros Hc Hr Hl Hb Hf. set (n := length (tasks (fst t))) in *.
  rewrite dispatch_loops by (try exact Hc; try (eapply bks_okcs; exact Hb); exact Hf).
  set (t0 := (set_backlog (fst t) [], snd t)).
  destruct (loop_ok sp (rearrange (backlog (fst t))) t0) as [Hf1 S1].
  { apply rearrange_bks; [eapply bks_okcs; exact Hb|apply bks_in_range; exact Hb]. }
  { exact Hl. }
  { constructor. }
  destruct (loop sp t0 (rearrange (backlog (fst t)))) as [t1 fl1]. cbn [fst snd] in Hf1, S1. subst fl1.
  destruct S1 as [P1 A1 C1 L1 O1 N1 R1 Q1]. cbn [t0 fst snd set_backlog pend acts wf_created wf_state tasks backlog] in P1, A1, C1, N1, R1, Q1.
  destruct N1 as [nt1 [more1 [T1 [I1 [M1 [PL1 [IX1 [RN1 RE1]]]]]]]].
  assert (Hn1 : length (tasks (fst t1)) = n + length nt1) by (rewrite T1, app_length; reflexivity).
  destruct (loop_ok sp (rearrange cmds) t1) as [Hf2 S2].
  { eapply bks_mono; [|apply rearrange_bks; [exact Hc|exact Hr]]. lia. }
  { exact L1. }
  { exact O1. }
  split; [exact Hf2|].
  pose proof S2 as S2'.
  destruct S2 as [P2 A2 C2 L2 O2 N2 R2 Q2].
  destruct N2 as [nt2 [more2 [T2 [I2 [M2 [PL2 [IX2 [RN2 RE2]]]]]]]].
  set (t2 := fst (loop sp t1 (rearrange cmds))) in *.
  constructor.
  - congruence.
  - congruence.
  - congruence.
  - exact L2.
  - exact O2.
  - intros Hw. destruct (R2 Hw) as [Hw1 [B2 _]]. destruct (R1 Hw1) as [_ [B1 _]]. congruence.
  - exists (nt1 ++ nt2), (more1 ++ more2).
    split; [rewrite T2, T1, app_assoc; reflexivity|].
    split; [apply Forall_app; split; assumption|].
    split; [rewrite M2, M1, app_assoc; reflexivity|].
    split; [rewrite forallb_app, PL1, PL2; reflexivity|].
    split; [|split].
    + intros k Hk. rewrite app_length in Hk. apply in_or_app.
      destruct (Nat.lt_ge_cases k (length nt1)) as [Hlt|Hge].
      * left. apply IX1, Hlt.
      * right. specialize (IX2 (k - length nt1) ltac:(lia)). rewrite Hn1 in IX2.
        replace (n + length nt1 + (k - length nt1)) with (n + k) in IX2 by lia. exact IX2.
    + intros Hw Hrun. destruct (R2 Hw) as [_ [_ Hns]].
      rewrite <- (rearrange_noset_run _ Hns) in Hrun. specialize (RN2 Hw Hrun).
      intros E. apply app_eq_nil in E. destruct E as [_ E]. contradiction.
    + intros Hw Hne. destruct (R2 Hw) as [Hw1 [_ Hns2]]. destruct (R1 Hw1) as [_ [_ Hns1]].
      assert (Hlen2 : length (tasks (fst t2)) = n + length nt1 + length nt2) by (rewrite T2, app_length, Hn1; reflexivity).
      destruct (filter nonnoop (backlog (fst t))) as [|b0 bl0] eqn:Efb.
      * simpl in Hne.
        assert (Hne2 : rearrange cmds <> []) by (eapply perm_nonempty; [apply rearrange_noset_perm; exact Hns2|exact Hne]).
        destruct (loop_progress t1 t2 (rearrange cmds)) as [nt' [more' [T' [M' Hp]]]]; [|exact S2'|exact Hw|exact Hne2|].
        { eapply bks_mono; [|apply rearrange_bks; [exact Hc|exact Hr]]. lia. }
        rewrite T2 in T'. apply app_inv_head in T'. rewrite M2 in M'. apply app_inv_head in M'. subst nt' more'.
        destruct Hp as [Hp|[tid [Ht Hin]]].
        -- left. intros E. apply app_eq_nil in E. destruct E as [_ E]. contradiction.
        -- right. exists tid. split; [lia|apply in_or_app; right; exact Hin].
      * assert (Hne1 : rearrange (backlog (fst t)) <> []).
        { eapply perm_nonempty; [apply rearrange_noset_perm; exact Hns1|rewrite Efb; discriminate]. }
        assert (S1' : loop_spec t0 t1 (rearrange (backlog (fst t)))).
        { constructor; cbn [t0 fst snd set_backlog pend acts wf_created wf_state tasks backlog]; try assumption.
          exists nt1, more1. repeat split; assumption. }
        destruct (loop_progress t0 t1 (rearrange (backlog (fst t)))) as [nt' [more' [T' [M' Hp]]]]; [|exact S1'|exact Hw1|exact Hne1|].
        { apply rearrange_bks; [eapply bks_okcs; exact Hb|apply bks_in_range; exact Hb]. }
        cbn [t0 fst snd set_backlog tasks] in T', M', Hp.
        rewrite T1 in T'. apply app_inv_head in T'. rewrite M1 in M'. apply app_inv_head in M'. subst nt' more'.
        destruct Hp as [Hp|[tid [Ht Hin]]].
        -- left. intros E. apply app_eq_nil in E. destruct E as [E _]. contradiction.
        -- right. exists tid. split; [fold n in Ht; lia|apply in_or_app; left; exact Hin].
  - intros Hw. destruct (R2 Hw) as [Hw1 _]. apply (R1 Hw1).
  - intros Hne. destruct (Q1 Hne) as [QA [QB QC]].
    assert (Hne1 : wf_state (fst t1) <> RUNNING) by congruence.
    destruct (Q2 Hne1) as [QD [QE QF]]. repeat split; congruence.
Qed.

(* ================================================================= the no-lost-wake-up invariant *)
Definition plain_item (i : item) : bool :=
  match i with
  | IStartTask _ f r x => sflag f r x
  | IExec _ => true
  | IResult _ _ => true
  | IPtq ops => forallb plain_op ops
  | _ => false
  end.

(* a post-commit operation is still going to be executed: registered in the running transaction or
   part of a pending post-commit queue *)
Definition op_avail (p : list item) (ops : list op) (o : op) : Prop :=
  In o ops \/ exists q, In (IPtq q) p /\ In o q.
Definition start_pending (p : list item) (ops : list op) (tid : nat) : Prop :=
  exists f r x, sflag f r x = true /\ (In (IStartTask tid f r x) p \/ op_avail p ops (OStartTask tid f r x)).
Definition act_pending (p : list item) (ops : list op) (aid : nat) : Prop :=
  In (IExec aid) p \/ (exists r, In (IResult aid r) p) \/ op_avail p ops (ORunAction aid).
Definition check_pending (p : list item) (ops : list op) : Prop := op_avail p ops OCheck.
(* a resume-issued start request for an existing task: it starts the task or registers a completion check *)
Definition rs_pending (n : nat) (p : list item) (ops : list op) : Prop :=
  exists tid, tid < n /\ (In (IStartTask tid false false true) p \/ op_avail p ops (OStartTask tid false false true)).

(* a rerun request for the task is on its way: it is going to give the task a new action execution *)
Definition rerun_pending (p : list item) (ops : list op) (tid : nat) : Prop :=
  exists reset, In (IStartTask tid false true reset) p \/ op_avail p ops (OStartTask tid false true reset).
(* what a RUNNING task is waiting for *)
Definition run_witness (al : list arow) (p : list item) (ops : list op) (tid : nat) : Prop :=
  (exists aid a, nth_error al aid = Some a /\ a_task a = tid /\ is_completed (a_state a) = false /\ act_pending p ops aid) \/
  rerun_pending p ops tid.

Definition incomplete_task (s : st) : Prop :=
  exists tid r, nth_error (tasks s) tid = Some r /\ is_completed (t_state r) = false.

Definition chk (s : st) (p : list item) (ops : list op) : Prop :=
  incomplete_task s \/ check_pending p ops \/ rs_pending (length (tasks s)) p ops.

(* X = the task whose action result is being processed (None outside of that) *)
Record WkNC (X : option nat) (s : st) (ops : list op) : Prop := {
  N_created : wf_created s = true;
  N_live : live_wf_state (wf_state s) = true;
  N_okb : bks (length (tasks s)) (backlog s);
  N_bl : wf_state s = RUNNING -> backlog s = [];
  N_states : forall tid r, nth_error (tasks s) tid = Some r ->
     is_completed (t_state r) = true \/ t_state r = IDLE \/ t_state r = RUNNING;
  N_idle : forall tid r, X <> Some tid -> nth_error (tasks s) tid = Some r -> t_state r = IDLE ->
     start_pending (pend s) ops tid;
  N_running : forall tid r, X <> Some tid -> nth_error (tasks s) tid = Some r -> t_state r = RUNNING ->
     run_witness (acts s) (pend s) ops tid;
  N_acts : forall aid a, nth_error (acts s) aid = Some a -> a_task a < length (tasks s);
  N_items : forallb plain_item (pend s) = true;
  N_ops : forallb plain_op ops = true
}.

Definition Wk (X : option nat) (s : st) (ops : list op) : Prop :=
  WkNC X s ops /\ (wf_state s = RUNNING -> chk s (pend s) ops).

Lemma op_avail_mono p ops p' ops' o :
  (forall x, In x p -> In x p') -> (forall x, In x ops -> op_avail p' ops' x) ->
  op_avail p ops o -> op_avail p' ops' o.
Proof.
  intros Hp Ho [H|[q [H1 H2]]]; [apply Ho, H|]. right. exists q. split; [apply Hp, H1|exact H2].
Qed.

Lemma start_pending_mono p ops p' ops' tid :
  (forall x, In x p -> In x p') -> (forall x, In x ops -> op_avail p' ops' x) ->
  start_pending p ops tid -> start_pending p' ops' tid.
Proof.
  intros Hp Ho [f [r [x [Hs [H|H]]]]]; exists f, r, x; (split; [exact Hs|]);
    [left; apply Hp, H|right; eapply op_avail_mono; eassumption].
Qed.

Lemma act_pending_mono p ops p' ops' aid :
  (forall x, In x p -> In x p') -> (forall x, In x ops -> op_avail p' ops' x) ->
  act_pending p ops aid -> act_pending p' ops' aid.
Proof.
  intros Hp Ho [H|[[r H]|H]]; [left; apply Hp, H|right; left; exists r; apply Hp, H|
                               right; right; eapply op_avail_mono; eassumption].
Qed.

Lemma run_witness_mono al al' p ops p' ops' tid :
  (forall aid a, nth_error al aid = Some a -> nth_error al' aid = Some a) ->
  (forall x, In x p -> In x p') -> (forall x, In x ops -> op_avail p' ops' x) ->
  run_witness al p ops tid -> run_witness al' p' ops' tid.
Proof.
  intros Ha Hp Ho [[aid [a [A1 [A2 [A3 A4]]]]]|[reset [H|H]]].
  - left. exists aid, a. split; [apply Ha, A1|]. split; [exact A2|]. split; [exact A3|]. eapply act_pending_mono; eassumption.
  - right. exists reset. left. apply Hp, H.
  - right. exists reset. right. eapply op_avail_mono; eassumption.
Qed.

Lemma chk_mono s s' p ops p' ops' :
  (incomplete_task s -> incomplete_task s') -> length (tasks s) <= length (tasks s') ->
  (forall x, In x p -> In x p') -> (forall x, In x ops -> op_avail p' ops' x) ->
  chk s p ops -> chk s' p' ops'.
Proof.
  intros Hi Hl Hp Ho [H|[H|[tid [Ht H]]]]; [left; apply Hi, H|right; left; eapply op_avail_mono; eassumption|].
  right. right. exists tid. split; [lia|]. destruct H as [H|H]; [left; apply Hp, H|right; eapply op_avail_mono; eassumption].
Qed.

Lemma incomplete_task_frame s s' : tasks s' = tasks s -> incomplete_task s -> incomplete_task s'.
Proof. unfold incomplete_task. intros ->. auto. Qed.

(* committing a transaction: its operations become one pending queue *)
Lemma commit_W s ops : Wk None s ops -> Wk None (commit (s, ops)) [].
Proof.
  intros [[H1 H2 H3 H4 H5 H6 H7 H8 H9 H10] H11]. unfold commit. cbn [fst snd].
  destruct ops as [|o l] eqn:Eo; [split; [constructor; assumption|exact H11]|]. rewrite <- Eo in *. clear Eo o l.
  assert (Hp : forall x, In x (pend s) -> In x (pend s ++ [IPtq ops])) by (intros; apply in_or_app; auto).
  assert (Ho : forall x, In x ops -> op_avail (pend s ++ [IPtq ops]) [] x).
  { intros x Hx. right. exists ops. split; [apply in_or_app; right; left; reflexivity|exact Hx]. }
  split.
  - constructor; cbn [add_pend wf_created wf_state backlog tasks acts pend]; try assumption.
    + intros tid r Hn Hr Hi. eapply start_pending_mono; [exact Hp|exact Ho|eapply H6; eassumption].
    + intros tid r Hn Hr Hi. eapply run_witness_mono; [intros aid a Ha; exact Ha|exact Hp|exact Ho|exact (H7 tid r Hn Hr Hi)].
    + rewrite forallb_app, H9. simpl. rewrite H10. reflexivity.
    + reflexivity.
  - cbn [add_pend wf_state pend]. intros Hw. eapply chk_mono; [| |exact Hp|exact Ho|exact (H11 Hw)]; auto.
Qed.

(* ------------------------------------------------------------ the completion check *)
Lemma filter_nonempty_witness {A} (f : A -> bool) l :
  0 < length (filter f l) -> exists k x, nth_error l k = Some x /\ f x = true.
Proof.
  induction l as [|a r IH]; simpl; [lia|]. destruct (f a) eqn:E.
  - intros _. exists 0, a. split; [reflexivity|exact E].
  - intros H. destruct (IH H) as [k [x [H1 H2]]]. exists (S k), x. split; assumption.
Qed.

Lemma cac_spec s : live_wf_state (wf_state s) = true ->
  exists s1, check_and_complete s = Some s1 /\ hdr_only s s1 /\ live_wf_state (wf_state s1) = true /\
             (wf_state s1 = RUNNING -> wf_state s = RUNNING /\ incomplete_task s) /\
             (wf_state s <> RUNNING -> s1 = s).
Proof.
  intros Hl. unfold check_and_complete.
  destruct (wf_state s) eqn:Ew; try discriminate Hl;
    try (exists s; cbn; repeat split; auto; [left; reflexivity|rewrite Ew; reflexivity|congruence|congruence]).
  cbn [is_completed mem existsb state_eqb orb is_paused_or_completed is_paused].
  change (is_paused_or_completed RUNNING) with false. cbv iota.
  destruct (Nat.ltb 0 (incomplete_count s)) eqn:Ec.
  - exists s. repeat split; auto; [left; reflexivity|rewrite Ew; reflexivity|].
    apply Nat.ltb_lt in Ec. unfold incomplete_count in Ec. apply filter_nonempty_witness in Ec.
    destruct Ec as [k [x [H1 H2]]]. exists k, x. split; [exact H1|]. apply negb_true_iff in H2. exact H2.
  - assert (Hx : forall x, mem x [SUCCESS; ERROR; CANCELLED] = true -> wf_set_state s x = Some (set_wf_state s x)).
    { intros x Hx. unfold wf_set_state. rewrite Ew. destruct x; try discriminate Hx; reflexivity. }
    assert (Hy : forall x, mem x [SUCCESS; ERROR; CANCELLED] = true ->
               hdr_only s (set_wf_state s x) /\ live_wf_state (wf_state (set_wf_state s x)) = true /\
               (wf_state (set_wf_state s x) = RUNNING -> RUNNING = RUNNING /\ incomplete_task s) /\
               (RUNNING <> RUNNING -> set_wf_state s x = s)).
    { intros x Hx0. split; [right; exists x; reflexivity|]. simpl.
      split; [destruct x; try discriminate Hx0; reflexivity|].
      split; [intros ->; discriminate Hx0|congruence]. }
    destruct (any_cancels s).
    + exists (set_wf_state s CANCELLED). split; [|apply Hy; reflexivity].
      unfold cancel_workflow. rewrite Ew. apply Hx. reflexivity.
    + destruct (all_errors_handled s).
      * exists (set_wf_state s SUCCESS). split; [|apply Hy; reflexivity]. unfold succeed_workflow. rewrite Ew. apply Hx. reflexivity.
      * exists (set_wf_state s ERROR). split; [|apply Hy; reflexivity]. unfold fail_workflow. rewrite Ew. apply Hx. reflexivity.
Qed.

(* ------------------------------------------------------------ executing a post-commit queue *)
Lemma op_avail_cons p o ops x : op_avail p (o :: ops) x -> x = o \/ op_avail p ops x.
Proof. intros [[H|H]|H]; [left; symmetry; exact H|right; left; exact H|right; right; exact H]. Qed.

Lemma op_avail_pend_mono p p' ops x : (forall i, In i p -> In i p') -> op_avail p ops x -> op_avail p' ops x.
Proof. intros Hp. apply op_avail_mono; [exact Hp|intros y Hy; left; exact Hy]. Qed.

Lemma run_witness_step al p o ops p' tid :
  (forall i, In i p -> In i p') ->
  match o with
  | OStartTask t f r x => In (IStartTask t f r x) p'
  | ORunAction a => In (IExec a) p'
  | _ => True
  end ->
  run_witness al p (o :: ops) tid -> run_witness al p' ops tid.
Proof.
  intros Hp Ho [[aid [a [A1 [A2 [A3 A4]]]]]|[reset [H|H]]].
  - left. exists aid, a. repeat split; auto. destruct A4 as [A|[[q A]|A]].
    + left. apply Hp, A.
    + right. left. exists q. apply Hp, A.
    + apply op_avail_cons in A. destruct A as [A|A].
      * subst o. left. exact Ho.
      * right. right. eapply op_avail_pend_mono; [exact Hp|exact A].
  - right. exists reset. left. apply Hp, H.
  - right. exists reset. apply op_avail_cons in H. destruct H as [H|H].
    + subst o. left. exact Ho.
    + right. eapply op_avail_pend_mono; [exact Hp|exact H].
Qed.

Lemma run_op_W sp s o ops : Wk None s (o :: ops) -> Wk None (run_ops sp s [o]) ops.
Proof.
  intros [[H1 H2 H3 H4 H5 H6 H7 H8 H9 H10] H11]. simpl in H10. apply andb_true_iff in H10. destruct H10 as [Ho H10].
  cbn [run_ops].
  destruct o as [tid f r x|aid| |tid]; simpl in Ho; try discriminate.
  - set (it := IStartTask tid f r x).
    assert (Hp : forall i, In i (pend s) -> In i (pend s ++ [it])) by (intros; apply in_or_app; auto).
    assert (Hlast : In it (pend s ++ [it])) by (apply in_or_app; right; left; reflexivity).
    split.
    + constructor; cbn [add_pend wf_created wf_state backlog tasks acts pend]; try assumption.
      * intros tid' r' Hn Hr Hi. destruct (H6 tid' r' Hn Hr Hi) as [f' [r'' [x' [Hs [H|H]]]]]; exists f', r'', x'; (split; [exact Hs|]).
        -- left. apply Hp, H.
        -- apply op_avail_cons in H. destruct H as [H|H].
           ++ left. injection H as -> -> -> ->. exact Hlast.
           ++ right. eapply op_avail_pend_mono; [exact Hp|exact H].
      * intros tid' r' Hn Hr Hi. eapply (run_witness_step _ _ (OStartTask tid f r x)); [exact Hp|exact Hlast|exact (H7 tid' r' Hn Hr Hi)].
      * rewrite forallb_app, H9. simpl. rewrite Ho. reflexivity.
    + cbn [add_pend wf_state pend tasks]. intros Hw. destruct (H11 Hw) as [H|[H|[tid' [Ht H]]]].
      * left. exact H.
      * right. left. apply op_avail_cons in H. destruct H as [H|H]; [discriminate|]. eapply op_avail_pend_mono; [exact Hp|exact H].
      * right. right. exists tid'. split; [exact Ht|]. destruct H as [H|H]; [left; apply Hp, H|].
        apply op_avail_cons in H. destruct H as [H|H].
        -- left. injection H as -> -> -> ->. exact Hlast.
        -- right. eapply op_avail_pend_mono; [exact Hp|exact H].
  - set (it := IExec aid).
    assert (Hp : forall i, In i (pend s) -> In i (pend s ++ [it])) by (intros; apply in_or_app; auto).
    split.
    + constructor; cbn [add_pend wf_created wf_state backlog tasks acts pend]; try assumption.
      * intros tid' r Hn Hr Hi. destruct (H6 tid' r Hn Hr Hi) as [f' [r'' [x' [Hs [H|H]]]]]; exists f', r'', x'; (split; [exact Hs|]).
        -- left. apply Hp, H.
        -- apply op_avail_cons in H. destruct H as [H|H]; [discriminate|].
           right. eapply op_avail_pend_mono; [exact Hp|exact H].
      * intros tid' r Hn Hr Hi. eapply (run_witness_step _ _ (ORunAction aid)); [exact Hp| |exact (H7 tid' r Hn Hr Hi)].
        apply in_or_app. right. left. reflexivity.
      * rewrite forallb_app, H9. reflexivity.
    + cbn [add_pend wf_state pend tasks]. intros Hw. destruct (H11 Hw) as [H|[H|[tid' [Ht H]]]].
      * left. exact H.
      * right. left. apply op_avail_cons in H. destruct H as [H|H]; [discriminate|]. eapply op_avail_pend_mono; [exact Hp|exact H].
      * right. right. exists tid'. split; [exact Ht|]. destruct H as [H|H]; [left; apply Hp, H|].
        apply op_avail_cons in H. destruct H as [H|H]; [discriminate|]. right. eapply op_avail_pend_mono; [exact Hp|exact H].
  - destruct (cac_spec s H2) as [s1 [E1 [Hh [Hl1 [Hr1 Hq1]]]]]. rewrite E1.
    assert (Hf : tasks s1 = tasks s /\ acts s1 = acts s /\ pend s1 = pend s /\ backlog s1 = backlog s /\
                 wf_created s1 = wf_created s).
    { destruct Hh as [->|[y ->]]; repeat split; reflexivity. }
    destruct Hf as [F1 [F2 [F3 [F4 F5]]]].
    split.
    + constructor; rewrite ?F1, ?F2, ?F3, ?F4, ?F5; try assumption.
      * intros Hw. apply H4. apply (Hr1 Hw).
      * intros tid' r Hn Hr Hi. destruct (H6 tid' r Hn Hr Hi) as [f' [r'' [x' [Hs [H|H]]]]]; exists f', r'', x'; (split; [exact Hs|]).
        -- left. exact H.
        -- apply op_avail_cons in H. destruct H as [H|H]; [discriminate|]. right. exact H.
      * intros tid' r Hn Hr Hi. eapply (run_witness_step _ _ OCheck); [intros i Hi'; exact Hi'|exact I|exact (H7 tid' r Hn Hr Hi)].
    + intros Hw. left. eapply incomplete_task_frame; [exact F1|apply (Hr1 Hw)].
Qed.

Lemma run_ops_cons sp s o ops : run_ops sp s (o :: ops) = run_ops sp (run_ops sp s [o]) ops.
Proof. reflexivity. Qed.

Lemma run_ops_W sp : forall ops s, Wk None s ops -> Wk None (run_ops sp s ops) [].
Proof.
  induction ops as [|o ops IH]; intros s H; [exact H|].
  rewrite run_ops_cons. apply IH. apply run_op_W. exact H.
Qed.

(* ------------------------------------------------------------ taking an item off the pending list *)
Lemma remove_nth_ptq_spec : forall l n ops rest, remove_nth_ptq n l = Some (ops, rest) ->
  In (IPtq ops) l /\ (forall x, In x l -> x = IPtq ops \/ In x rest) /\ (forall x, In x rest -> In x l).
Proof.
  induction l as [|i l IH]; intros n ops rest H; simpl in H; [discriminate|].
  assert (Hgen : forall n', match remove_nth_ptq n' l with Some (o, r') => Some (o, i :: r') | None => None end = Some (ops, rest) ->
            In (IPtq ops) (i :: l) /\ (forall x, In x (i :: l) -> x = IPtq ops \/ In x rest) /\ (forall x, In x rest -> In x (i :: l))).
  { intros n' Hn. destruct (remove_nth_ptq n' l) as [[o r']|] eqn:E; [|discriminate]. inversion Hn; subst.
    destruct (IH _ _ _ E) as [A [B C]]. split; [right; exact A|]. split.
    - intros x [<-|Hx]; [right; left; reflexivity|]. destruct (B x Hx) as [->|Hr]; [left; reflexivity|right; right; exact Hr].
    - intros x [<-|Hx]; [left; reflexivity|right; apply C, Hx]. }
  destruct i; try (apply (Hgen n); exact H).
  destruct n as [|k]; [|apply (Hgen k); exact H].
  inversion H; subst. split; [left; reflexivity|]. split.
  - intros x [<-|Hx]; [left; reflexivity|right; exact Hx].
  - intros x Hx. right. exact Hx.
Qed.

Lemma remove_first_spec f : forall l it rest, remove_first f l = Some (it, rest) ->
  In it l /\ f it = true /\ (forall x, In x l -> x = it \/ In x rest) /\ (forall x, In x rest -> In x l).
Proof.
  induction l as [|i l IH]; intros it rest H; simpl in H; [discriminate|].
  destruct (f i) eqn:E.
  - inversion H; subst. split; [left; reflexivity|]. split; [exact E|]. split.
    + intros x [<-|Hx]; [left; reflexivity|right; exact Hx].
    + intros x Hx. right. exact Hx.
  - destruct (remove_first f l) as [[y r']|] eqn:E2; [|discriminate]. inversion H; subst.
    destruct (IH _ _ eq_refl) as [A [B [C D]]]. split; [right; exact A|]. split; [exact B|]. split.
    + intros x [<-|Hx]; [right; left; reflexivity|]. destruct (C x Hx) as [->|Hr]; [left; reflexivity|right; right; exact Hr].
    + intros x [<-|Hx]; [left; reflexivity|right; apply D, Hx].
Qed.

Lemma forallb_sub {A} (f : A -> bool) l l' : (forall x, In x l' -> In x l) -> forallb f l = true -> forallb f l' = true.
Proof. intros Hs H. rewrite forallb_forall in *. intros x Hx. apply H, Hs, Hx. Qed.

(* a post-commit queue taken off the list: its operations are now the running ones *)
Lemma take_ptq_W s ops rest :
  In (IPtq ops) (pend s) -> (forall x, In x (pend s) -> x = IPtq ops \/ In x rest) -> (forall x, In x rest -> In x (pend s)) ->
  Wk None s [] -> Wk None (set_pend s rest) ops.
Proof.
  intros Hin Hsplit Hsub [[H1 H2 H3 H4 H5 H6 H7 H8 H9 H10] H11].
  assert (Hoa : forall o, op_avail (pend s) [] o -> op_avail rest ops o).
  { intros o [[]|[q [Q1 Q2]]]. destruct (Hsplit _ Q1) as [E|E]; [inversion E; subst; left; exact Q2|right; exists q; split; assumption]. }
  assert (Hit : forall i, (forall q, i <> IPtq q) -> In i (pend s) -> In i rest).
  { intros i Hne Hi. destruct (Hsplit _ Hi) as [E|E]; [exfalso; apply (Hne ops), E|exact E]. }
  split.
  - constructor; cbn [set_pend wf_created wf_state backlog tasks acts pend]; try assumption.
    + intros tid r Hn Hr Hi. destruct (H6 tid r Hn Hr Hi) as [f' [r'' [x' [Hs [H|H]]]]]; exists f', r'', x'; (split; [exact Hs|]);
        [left; apply Hit; [intros q; discriminate|exact H]|right; apply Hoa, H].
    + intros tid r Hn Hr Hi. destruct (H7 tid r Hn Hr Hi) as [[aid [a [A1 [A2 [A3 A4]]]]]|[reset [A|A]]].
      * left. exists aid, a. repeat split; auto. destruct A4 as [A|[[q A]|A]].
        -- left. apply Hit; [intros q; discriminate|exact A].
        -- right. left. exists q. apply Hit; [intros q'; discriminate|exact A].
        -- right. right. apply Hoa, A.
      * right. exists reset. left. apply Hit; [intros q; discriminate|exact A].
      * right. exists reset. right. apply Hoa, A.
    + eapply forallb_sub; [exact Hsub|exact H9].
    + rewrite forallb_forall in H9. apply (H9 _ Hin).
  - cbn [set_pend wf_state pend tasks]. intros Hw. destruct (H11 Hw) as [H|[H|[tid [Ht H]]]]; [left; exact H|right; left; apply Hoa, H|].
    right. right. exists tid. split; [exact Ht|]. destruct H as [H|H]; [left; apply Hit; [intros q; discriminate|exact H]|right; apply Hoa, H].
Qed.

(* a message taken off the list: everything except what that very message stood for is kept *)
Lemma op_avail_rest s it rest o :
  (forall q, it <> IPtq q) -> (forall x, In x (pend s) -> x = it \/ In x rest) ->
  op_avail (pend s) [] o -> op_avail rest [] o.
Proof.
  intros Hne Hsplit [[]|[q [Q1 Q2]]]. right. exists q. split; [|exact Q2].
  destruct (Hsplit _ Q1) as [E|E]; [exfalso; apply (Hne q); symmetry; exact E|exact E].
Qed.

Lemma drop_item_NC X' s it rest :
  (forall q, it <> IPtq q) ->
  (forall x, In x (pend s) -> x = it \/ In x rest) -> (forall x, In x rest -> In x (pend s)) ->
  (forall tid r f r' x, X' <> Some tid -> nth_error (tasks s) tid = Some r -> t_state r = IDLE ->
     it <> IStartTask tid f r' x) ->
  (forall aid a, nth_error (acts s) aid = Some a -> X' <> Some (a_task a) -> is_completed (a_state a) = false ->
     it <> IExec aid /\ forall r, it <> IResult aid r) ->
  (forall tid r reset, X' <> Some tid -> nth_error (tasks s) tid = Some r -> t_state r = RUNNING ->
     it <> IStartTask tid false true reset) ->
  WkNC None s [] -> WkNC X' (set_pend s rest) [].
Proof.
  intros Hne Hsplit Hsub Hst Hact Hrr [H1 H2 H3 H4 H5 H6 H7 H8 H9 H10].
  assert (Hoa : forall o, op_avail (pend s) [] o -> op_avail rest [] o) by (intros o; apply (op_avail_rest s it); assumption).
  assert (Hit : forall i, i <> it -> In i (pend s) -> In i rest).
  { intros i Hi Hin. destruct (Hsplit _ Hin) as [E|E]; [contradiction|exact E]. }
  assert (Hnone : forall n : nat, None <> Some n) by (intros; discriminate).
  constructor; cbn [set_pend wf_created wf_state backlog tasks acts pend]; try assumption.
  - intros tid r Hx Hn Hi. destruct (H6 tid r (Hnone tid) Hn Hi) as [f' [r'' [x' [Hs [H|H]]]]]; exists f', r'', x'; (split; [exact Hs|]);
      [left|right; apply Hoa, H].
    apply Hit; [|exact H]. intros E. apply (Hst tid r f' r'' x' Hx Hn Hi). symmetry. exact E.
  - intros tid r Hx Hn Hi. destruct (H7 tid r (Hnone tid) Hn Hi) as [[aid [a [A1 [A2 [A3 A4]]]]]|[reset [A|A]]].
    + left. exists aid, a. repeat split; auto.
      assert (Hxa : X' <> Some (a_task a)) by (rewrite A2; exact Hx).
      destruct (Hact aid a A1 Hxa A3) as [B1 B2].
      destruct A4 as [A|[[q A]|A]].
      * left. apply Hit; [intros E; apply B1; symmetry; exact E|exact A].
      * right. left. exists q. apply Hit; [intros E; apply (B2 q); symmetry; exact E|exact A].
      * right. right. apply Hoa, A.
    + right. exists reset. left. apply Hit; [|exact A]. intros E. apply (Hrr tid r reset Hx Hn Hi). symmetry. exact E.
    + right. exists reset. right. apply Hoa, A.
  - eapply forallb_sub; [exact Hsub|exact H9].
Qed.

(* the check clause survives the removal of any message that is not a resume-issued start request *)
Lemma chk_drop s it rest :
  (forall q, it <> IPtq q) -> (forall x, In x (pend s) -> x = it \/ In x rest) ->
  (forall tid, tid < length (tasks s) -> it <> IStartTask tid false false true) ->
  chk s (pend s) [] -> chk (set_pend s rest) rest [].
Proof.
  intros Hne Hsplit Hrs [H|[H|[tid [Ht H]]]]; [left; exact H|right; left; eapply op_avail_rest; eassumption|].
  right. right. exists tid. split; [exact Ht|]. destruct H as [H|H]; [left|right; eapply op_avail_rest; eassumption].
  destruct (Hsplit _ H) as [E|E]; [exfalso; apply (Hrs tid Ht); symmetry; exact E|exact E].
Qed.

Lemma NC_weaken X s ops : WkNC None s ops -> WkNC X s ops.
Proof.
  intros [H1 H2 H3 H4 H5 H6 H7 H8 H9 H10].
  assert (Hnone : forall n : nat, None <> Some n) by (intros; discriminate).
  constructor; try assumption.
  - intros tid r _. apply H6, Hnone.
  - intros tid r _. apply H7, Hnone.
Qed.

(* ------------------------------------------------------------ list helpers *)
Lemma nth_error_set_nth_other {A} n k (x : A) l : k <> n -> nth_error (set_nth n x l) k = nth_error l k.
Proof.
  revert n k. induction l as [|y l IH]; intros n k Hk; [destruct n; reflexivity|].
  destruct n as [|n]; destruct k as [|k]; simpl; try reflexivity; [contradiction|]. apply IH. lia.
Qed.

Lemma nth_error_set_nth_same {A} n (x : A) l : n < length l -> nth_error (set_nth n x l) n = Some x.
Proof.
  revert n. induction l as [|y l IH]; intros n Hn; simpl in Hn; [lia|].
  destruct n as [|n]; simpl; [reflexivity|]. apply IH. lia.
Qed.

Lemma nth_error_nth' {A} (l : list A) n d x : nth_error l n = Some x -> nth n l d = x.
Proof. apply nth_error_nth. Qed.

Lemma nojoin_affected_walk sp s : nojoin sp -> forall f work visited, affected_walk f sp s work visited [] = [].
Proof.
  intros Hn. induction f as [|f IH]; intros work visited; simpl; [reflexivity|].
  destruct work as [|n rest]; [reflexivity|]. destruct (mem_nat n visited); [apply IH|].
  rewrite Hn. apply IH.
Qed.

Lemma nojoin_check_affected sp t tid : nojoin sp -> check_affected sp t tid = t.
Proof.
  intros Hn. unfold check_affected. destruct (negb _); [reflexivity|]. destruct (is_completed (wf_state (fst t))); [reflexivity|].
  unfold affected. rewrite nojoin_affected_walk by exact Hn. simpl. rewrite app_nil_r. destruct t; reflexivity.
Qed.


(* ------------------------------------------------------------ start_task for an IDLE task *)
Lemma start_new_W sp s tid r : nojoin sp -> WkNC (Some tid) s [] ->
  nth_error (tasks s) tid = Some r -> t_state r = IDLE ->
  Wk None (commit (check_affected sp (schedule_action (task_set_state s tid RUNNING, []) tid) tid)) [].
Proof.
  intros Hnj [H1 H2 H3 H4 H5 H6 H7 H8 H9 H10] Hn Hi.
  rewrite nojoin_check_affected by exact Hnj.
  assert (Hlt : tid < length (tasks s)) by (apply nth_error_Some; congruence).
  unfold schedule_action, task_set_state. cbn [fst snd app].
  unfold get_task. rewrite (nth_error_nth' _ _ dummy_trow _ Hn).
  set (r' := t_set_state r RUNNING). set (a := mkArow tid RUNNING false).
  cbn [upd_task acts]. set (aid := length (acts s)).
  match goal with |- Wk None (commit (?s2, ?o)) [] => change (Wk None (commit (s2, o)) []); apply commit_W end.
  assert (Hnew : nth_error (acts s ++ [a]) aid = Some a).
  { unfold aid. rewrite nth_error_app2 by lia. rewrite Nat.sub_diag. reflexivity. }
  assert (Hold : forall k b, nth_error (acts s) k = Some b -> nth_error (acts s ++ [a]) k = Some b).
  { intros k b Hk. rewrite nth_error_app1; [exact Hk|]. apply nth_error_Some. congruence. }
  split.
  - constructor; cbn [add_act upd_task wf_created wf_state backlog tasks acts pend]; rewrite ?set_nth_length; try assumption.
    + intros k x Hk. destruct (Nat.eq_dec k tid) as [->|Hne].
      * rewrite nth_error_set_nth_same in Hk by exact Hlt. inversion Hk; subst. right. right. reflexivity.
      * rewrite nth_error_set_nth_other in Hk by exact Hne. eapply H5; exact Hk.
    + intros k x _ Hk Hxi. destruct (Nat.eq_dec k tid) as [->|Hne].
      * rewrite nth_error_set_nth_same in Hk by exact Hlt. inversion Hk; subst. discriminate Hxi.
      * rewrite nth_error_set_nth_other in Hk by exact Hne.
        assert (Hx : Some tid <> Some k) by congruence.
        eapply start_pending_mono; [intros y Hy; exact Hy| |exact (H6 k x Hx Hk Hxi)]. intros y [].
    + intros k x _ Hk Hxr. destruct (Nat.eq_dec k tid) as [->|Hne].
      * left. exists aid, a. repeat split; auto. right. right. left. left. reflexivity.
      * rewrite nth_error_set_nth_other in Hk by exact Hne.
        assert (Hx : Some tid <> Some k) by congruence.
        eapply run_witness_mono; [exact Hold|intros y Hy; exact Hy| |exact (H7 k x Hx Hk Hxr)]. intros y [].
    + intros k b Hk.
      destruct (Nat.lt_ge_cases k (length (acts s))) as [Hl|Hl].
      * rewrite nth_error_app1 in Hk by exact Hl. eapply H8; exact Hk.
      * rewrite nth_error_app2 in Hk by exact Hl. destruct (k - length (acts s)) as [|m]; simpl in Hk.
        -- inversion Hk; subst. exact Hlt.
        -- destruct m; discriminate.
  - intros _. left. exists tid, r'. split; [apply nth_error_set_nth_same; exact Hlt|reflexivity].
Qed.

(* ------------------------------------------------------------ one task changes state *)
Definition same_but (tid : nat) (x : state) (s s' : st) : Prop :=
  wf_created s' = wf_created s /\ wf_state s' = wf_state s /\ backlog s' = backlog s /\ acts s' = acts s /\
  pend s' = pend s /\ length (tasks s') = length (tasks s) /\
  (forall k, k <> tid -> nth_error (tasks s') k = nth_error (tasks s) k) /\
  (forall r', nth_error (tasks s') tid = Some r' -> t_state r' = x).

Lemma nth_error_set_nth_eq {A} n (x y : A) l : nth_error (set_nth n x l) n = Some y -> y = x.
Proof.
  revert n. induction l as [|z l IH]; intros n H; [destruct n; discriminate|].
  destruct n as [|n]; simpl in H; [inversion H; reflexivity|]. apply IH in H. exact H.
Qed.

Lemma same_but_upd tid x s s' r' : (exists y, same_but tid y s s') \/ s' = s -> t_state r' = x -> same_but tid x s (upd_task s' tid r').
Proof.
  intros Hs Hr.
  assert (Hf : wf_created s' = wf_created s /\ wf_state s' = wf_state s /\ backlog s' = backlog s /\ acts s' = acts s /\
               pend s' = pend s /\ length (tasks s') = length (tasks s) /\
               (forall k, k <> tid -> nth_error (tasks s') k = nth_error (tasks s) k)).
  { destruct Hs as [[y [A [B [C [D [E [F [G _]]]]]]]]| ->]; repeat split; auto. }
  destruct Hf as [A [B [C [D [E [F G]]]]]].
  unfold same_but. cbn [upd_task wf_created wf_state backlog acts pend tasks]. rewrite set_nth_length.
  repeat split; auto.
  - intros k Hk. rewrite nth_error_set_nth_other by exact Hk. apply G, Hk.
  - intros r2 H2. apply nth_error_set_nth_eq in H2. subst r2. exact Hr.
Qed.

Lemma same_but_NC tid x s s' ops ops' :
  WkNC (Some tid) s ops -> same_but tid x s s' -> is_completed x = true ->
  (forall o, In o ops -> In o ops') -> forallb plain_op ops' = true -> WkNC None s' ops'.
Proof.
  intros [H1 H2 H3 H4 H5 H6 H7 H8 H9 H10] [A [B [C [D [E [F [G G']]]]]]] Hx Hsub Hpl.
  assert (Hp : forall i, In i (pend s) -> In i (pend s)) by auto.
  assert (Ho : forall o, In o ops -> op_avail (pend s) ops' o) by (intros o Ho; left; apply Hsub, Ho).
  assert (Hxi : x <> IDLE) by (intros ->; discriminate Hx).
  assert (Hxr : x <> RUNNING) by (intros ->; discriminate Hx).
  constructor; rewrite ?A, ?B, ?C, ?D, ?E, ?F; try assumption.
  - intros k r Hk. destruct (Nat.eq_dec k tid) as [->|Hne].
    + left. rewrite (G' r Hk). exact Hx.
    + rewrite G in Hk by exact Hne. eapply H5; exact Hk.
  - intros k r _ Hk Hi. destruct (Nat.eq_dec k tid) as [->|Hne].
    + exfalso. apply Hxi. rewrite <- (G' r Hk). exact Hi.
    + rewrite G in Hk by exact Hne. assert (Hx' : Some tid <> Some k) by congruence.
      eapply start_pending_mono; [exact Hp|exact Ho|exact (H6 k r Hx' Hk Hi)].
  - intros k r _ Hk Hi. destruct (Nat.eq_dec k tid) as [->|Hne].
    + exfalso. apply Hxr. rewrite <- (G' r Hk). exact Hi.
    + rewrite G in Hk by exact Hne. assert (Hx' : Some tid <> Some k) by congruence.
      eapply run_witness_mono; [intros aid a Ha; exact Ha|exact Hp|exact Ho|exact (H7 k r Hx' Hk Hi)].
Qed.

(* dispatching ok commands keeps the invariant: new tasks are IDLE with a registered start *)
Lemma NC_clear_backlog X s ops : WkNC X s ops -> WkNC X (set_backlog s []) ops.
Proof.
  intros [H1 H2 H3 H4 H5 H6 H7 H8 H9 H10].
  constructor; cbn [set_backlog wf_created wf_state backlog tasks acts pend]; try assumption; [constructor|reflexivity].
Qed.

(* (stated from the backlog-cleared state: dispatch starts by taking the backlog, and on resume the
   workflow is RUNNING again with a non-empty backlog) *)
Lemma disp_NC X t t' cmds : disp_spec t t' cmds -> WkNC X (set_backlog (fst t) []) (snd t) -> WkNC X (fst t') (snd t').
Proof.
  intros [Dp Da Dc Dl Dob Dbl Dn Dr Dq] [H1 H2 H3 H4 H5 H6 H7 H8 H9 H10].
  cbn [set_backlog wf_created wf_state backlog tasks acts pend] in H1, H2, H3, H4, H5, H6, H7, H8, H9.
  destruct Dn as [nt [more [T1 [T2 [T3 [T4 [T5 _]]]]]]].
  assert (Hp : forall i, In i (pend (fst t)) -> In i (pend (fst t))) by auto.
  assert (Ho : forall o, In o (snd t) -> op_avail (pend (fst t)) (snd t ++ more) o) by (intros o Ho; left; apply in_or_app; left; exact Ho).
  assert (Hnew : forall k r, nth_error (tasks (fst t) ++ nt) k = Some r ->
             nth_error (tasks (fst t)) k = Some r \/
             (t_state r = IDLE /\ In (OStartTask k true false false) more)).
  { intros k r Hk. destruct (Nat.lt_ge_cases k (length (tasks (fst t)))) as [Hl|Hl].
    - left. rewrite nth_error_app1 in Hk by exact Hl. exact Hk.
    - right. rewrite nth_error_app2 in Hk by exact Hl. split.
      + rewrite Forall_forall in T2. apply T2. eapply nth_error_In; exact Hk.
      + assert (Hlt : k - length (tasks (fst t)) < length nt) by (apply nth_error_Some; congruence).
        specialize (T5 _ Hlt). replace (length (tasks (fst t)) + (k - length (tasks (fst t)))) with k in T5 by lia. exact T5. }
  constructor; try assumption; rewrite ?Dp, ?Da, ?Dc, ?T1, ?T3; try assumption.
  - intros k r Hk. destruct (Hnew k r Hk) as [Hold|[Hi _]]; [eapply H5; exact Hold|right; left; exact Hi].
  - intros k r Hx Hk Hi. destruct (Hnew k r Hk) as [Hold|[_ Hin]].
    + eapply start_pending_mono; [exact Hp|exact Ho|exact (H6 k r Hx Hold Hi)].
    + exists true, false, false. split; [reflexivity|]. right. left. apply in_or_app. right. exact Hin.
  - intros k r Hx Hk Hi. destruct (Hnew k r Hk) as [Hold|[Hidle _]]; [|congruence].
    eapply run_witness_mono; [intros aid a Ha; exact Ha|exact Hp|exact Ho|exact (H7 k r Hx Hold Hi)].
  - intros aid a Ha. rewrite app_length. specialize (H8 aid a Ha). lia.
  - rewrite forallb_app, H10, T4. reflexivity.
Qed.

(* ------------------------------------------------------------ Task.complete up to the dispatch *)
Lemma eval_clause_len l e : forall r, eval_clause l e = Some r -> length r <= length l.
Proof.
  induction l as [|[tg g] rest IH]; intros r H; simpl in H; [inversion H; simpl; lia|].
  destruct g.
  - destruct (eval_clause rest e) as [r0|]; [|discriminate]. inversion H; subst. simpl. specialize (IH r0 eq_refl). lia.
  - specialize (IH r H). simpl. lia.
  - discriminate.
Qed.

Definition ts_size (t : tspec) : nat := length (ts_succ t) + length (ts_err t) + length (ts_compl t) + length (ts_skip t).

Lemma ts_size_le sp n : ts_size (get_ts sp n) <= spec_size sp.
Proof.
  unfold get_ts. revert n. induction sp as [|t sp IH]; intros n; [destruct n; simpl; unfold ts_size; simpl; lia|].
  destruct n as [|n]; unfold spec_size; simpl; fold (spec_size sp); [unfold ts_size; lia|]. specialize (IH n). lia.
Qed.

Lemma opt_if_len (b : bool) l e r : (if b then eval_clause l e else Some []) = Some r -> length r <= length l.
Proof. destruct b; [apply eval_clause_len|intros H; inversion H; simpl; lia]. Qed.

Lemma find_next_len sp r nx : find_next_tasks sp r = Some nx -> length nx <= spec_size sp.
Proof.
  unfold find_next_tasks. pose proof (ts_size_le sp (t_name r)) as Hsz. unfold ts_size in Hsz.
  set (t := get_ts sp (t_name r)) in *.
  destruct (if state_eqb (t_state r) ERROR then _ else _) as [l1|] eqn:E1; [|discriminate]. cbn [obind].
  destruct (if state_eqb (t_state r) SKIPPED then _ else _) as [l2|] eqn:E2; [|discriminate]. cbn [obind].
  destruct (if state_eqb (t_state r) SUCCESS || _ then _ else _) as [l3|] eqn:E3; [|discriminate]. cbn [obind].
  destruct (if is_completed (t_state r) && _ then _ else _) as [l4|] eqn:E4; [|discriminate]. cbn [obind].
  intros H. inversion H; subst. rewrite !app_length.
  apply opt_if_len in E1, E2, E3, E4. lia.
Qed.

Definition next_names (nx : list (target * evkind)) : list (nat * evkind) :=
  flat_map (fun p => match fst p with TTask n => [(n, snd p)] | _ => [] end) nx.

Lemma run_iff_names sp tid nx :
  existsb is_run (map (to_cmd sp tid) nx) = match next_names nx with [] => false | _ => true end.
Proof.
  induction nx as [|[tg e] nx IH]; [reflexivity|]. simpl. unfold to_cmd at 1. simpl.
  destruct tg; simpl; try exact IH. reflexivity.
Qed.

Lemma state_eqb_PAUSED y : state_eqb y PAUSED = true -> y = PAUSED.
Proof. destruct y; simpl; intros H; try discriminate; reflexivity. Qed.

Lemma map_to_cmd_in_range sp by_tid nx n : in_range n (map (to_cmd sp by_tid) nx).
Proof.
  intros tid a b Hin. apply in_map_iff in Hin. destruct Hin as [p [Hp _]]. unfold to_cmd in Hp. destruct (fst p); discriminate.
Qed.

Section Complete.
Variable sp : spec.
Hypothesis Hnj : nojoin sp.

Lemma complete_pre_shape t tid x :
  match complete_pre sp t tid x with
  | PreIgnored t1 => (t1 = t /\ is_completed (t_state (get_task (fst t) tid)) = true /\ is_skipped x = false) \/
                     (wf_state (fst t) = PAUSED /\ same_but tid x (fst t) (fst t1) /\ snd t1 = snd t)
  | PreRaised t1 => same_but tid x (fst t) (fst t1) /\ snd t1 = snd t
  | PreCmds t1 cmds =>
      same_but tid x (fst t) (fst t1) /\ okcs cmds /\ in_range 0 cmds /\ length cmds <= spec_size sp /\
      wf_state (fst t) <> PAUSED /\
      ((existsb is_run cmds = false /\ snd t1 = snd t ++ [OCheck]) \/ (existsb is_run cmds = true /\ snd t1 = snd t))
  end.
Proof.
  unfold complete_pre.
  destruct (is_completed (t_state (get_task (fst t) tid)) && negb (is_skipped x)) eqn:Ec;
    [left; apply andb_true_iff in Ec; destruct Ec as [E1 E2]; apply negb_true_iff in E2; split; [reflexivity|split; assumption]|].
  set (s1 := task_set_state (fst t) tid x).
  assert (S1 : same_but tid x (fst t) s1).
  { unfold s1, task_set_state. apply same_but_upd; [right; reflexivity|reflexivity]. }
  assert (Hw1 : wf_state s1 = wf_state (fst t)) by reflexivity.
  destruct (if is_completed (wf_state s1) then Some [] else find_next_tasks sp (get_task s1 tid)) as [nx|] eqn:En;
    [|split; [exact S1|reflexivity]].
  cbv zeta.
  assert (Hlen : length nx <= spec_size sp).
  { destruct (is_completed (wf_state s1)); [inversion En; simpl; lia|eapply find_next_len; exact En]. }
  fold (next_names nx).
  match goal with |- context [upd_task s1 tid ?rr] => set (r2 := rr) end.
  assert (Hr2 : t_state r2 = x) by reflexivity.
  assert (S2 : same_but tid x (fst t) (upd_task s1 tid r2)) by (apply same_but_upd; [left; exists x; exact S1|exact Hr2]).
  change (wf_state (upd_task s1 tid r2)) with (wf_state (fst t)).
  destruct (is_paused (wf_state (fst t))) eqn:Ep.
  - right. split; [apply state_eqb_PAUSED; exact Ep|]. split; [exact S2|reflexivity].
  - split; [apply same_but_upd; [left; exists x; exact S2|reflexivity]|].
    split; [apply Forall_okc_map, Hnj|]. split; [apply map_to_cmd_in_range|]. split; [rewrite map_length; exact Hlen|].
    split; [intros E; rewrite E in Ep; discriminate|].
    rewrite run_iff_names. destruct (next_names nx); [left|right]; split; reflexivity.
Qed.


Lemma hdr_NC X s s2 ops : WkNC X s ops -> hdr_only s s2 -> live_wf_state (wf_state s2) = true ->
  (wf_state s2 = RUNNING -> wf_state s = RUNNING) -> WkNC X s2 ops.
Proof.
  intros [H1 H2 H3 H4 H5 H6 H7 H8 H9 H10] Hh Hl Hr.
  assert (Hf : tasks s2 = tasks s /\ acts s2 = acts s /\ pend s2 = pend s /\ backlog s2 = backlog s /\
               wf_created s2 = wf_created s) by (destruct Hh as [->|[y ->]]; repeat split; reflexivity).
  destruct Hf as [F1 [F2 [F3 [F4 F5]]]].
  constructor; rewrite ?F1, ?F2, ?F3, ?F4, ?F5; try assumption. intros Hw. apply H4, Hr, Hw.
Qed.

Lemma fail_live s : live_wf_state (wf_state s) = true ->
  exists s2, fail_workflow s = Some s2 /\ hdr_only s s2 /\ live_wf_state (wf_state s2) = true /\ wf_state s2 <> RUNNING.
Proof.
  intros Hl. unfold fail_workflow, wf_set_state.
  destruct (wf_state s) eqn:Ew; try discriminate Hl; cbn.
  - exists (set_wf_state s ERROR). repeat split; [right; exists ERROR; reflexivity|discriminate].
  - exists (set_wf_state s ERROR). repeat split; [right; exists ERROR; reflexivity|discriminate].
  - exists s. repeat split; [left; reflexivity|rewrite Ew; reflexivity|rewrite Ew; discriminate].
  - exists s. repeat split; [left; reflexivity|rewrite Ew; reflexivity|rewrite Ew; discriminate].
  - exists s. repeat split; [left; reflexivity|rewrite Ew; reflexivity|rewrite Ew; discriminate].
Qed.

Lemma same_but_refl s tid : same_but tid (t_state (get_task s tid)) s s.
Proof.
  unfold same_but. repeat split; auto. intros r' Hr. unfold get_task. rewrite (nth_error_nth' _ _ dummy_trow _ Hr). reflexivity.
Qed.

Lemma force_fail_W s0 s ops tid y :
  WkNC (Some tid) s0 ops -> same_but tid y s0 s -> Wk None (force_fail s tid) ops.
Proof.
  intros Hw Hs. unfold force_fail.
  set (s1 := upd_task s tid _).
  assert (S1 : same_but tid ERROR s0 s1) by (apply same_but_upd; [left; exists y; exact Hs|reflexivity]).
  assert (N1 : WkNC None s1 ops).
  { eapply same_but_NC; [exact Hw|exact S1|reflexivity|auto|apply Hw]. }
  destruct (fail_live s1 (N_live _ _ _ N1)) as [s2 [E2 [Hh [Hl Hnr]]]]. rewrite E2.
  split; [eapply hdr_NC; [exact N1|exact Hh|exact Hl|intros; contradiction]|intros; contradiction].
Qed.

Lemma complete_task_W f s ops tid x :
  WkNC (Some tid) s ops -> (is_skipped x = false -> wf_state s = RUNNING -> chk s (pend s) ops) -> is_completed x = true ->
  spec_size sp + length (backlog s) + 3 < f ->
  match complete_task sp f (s, ops) tid x with
  | (t1, FOk) => Wk None (fst t1) (snd t1)
  | (t1, FForce) => Wk None (force_fail (fst t1) tid) (snd t1)
  end.
Proof.
  intros Hn Hchk Hx Hf. rewrite complete_task_eq. destruct f as [|f]; [lia|].
  pose proof (complete_pre_shape (s, ops) tid x) as Hsh.
  destruct (complete_pre sp (s, ops) tid x) as [t1|t1|t1 cmds].
  - destruct Hsh as [[-> [Hc Hsk]]|[Hp [Hs Ho]]]; cbn [fst snd] in *.
    + split; [eapply same_but_NC; [exact Hn|apply same_but_refl|exact Hc|auto|apply Hn]|exact (Hchk Hsk)].
    + rewrite Ho. split; [eapply same_but_NC; [exact Hn|exact Hs|exact Hx|auto|apply Hn]|].
      destruct Hs as [_ [B _]]. intros Hw. congruence.
  - destruct Hsh as [Hs Ho]. cbn [fst snd] in *. rewrite Ho. eapply force_fail_W; [exact Hn|exact Hs].
  - destruct Hsh as [Hs [Hok [Hrg [Hlen [Hnp Hcase]]]]]. cbn [fst snd] in *.
    assert (Hsame := Hs). destruct Hsame as [A [B [C [D [E [F [G G']]]]]]].
    assert (Hops : (forall o, In o ops -> In o (snd t1)) /\ forallb plain_op (snd t1) = true).
    { pose proof (N_ops _ _ _ Hn) as Hp.
      destruct Hcase as [[_ ->]|[_ ->]]; split; auto.
      - intros o Ho. apply in_or_app. left. exact Ho.
      - rewrite forallb_app, Hp. reflexivity. }
    destruct Hops as [Hsub Hpl].
    assert (N1 : WkNC None (fst t1) (snd t1)) by (eapply same_but_NC; [exact Hn|exact Hs|exact Hx|exact Hsub|exact Hpl]).
    destruct (dispatch_ok sp f t1 cmds Hok) as [Hfl Hd].
    { intros k a b Hin. specialize (Hrg k a b Hin). lia. }
    { apply (N_live _ _ _ N1). }
    { apply (N_okb _ _ _ N1). }
    { rewrite C. lia. }
    destruct (dispatch sp f t1 cmds) as [t' fl] eqn:Ed. cbn [fst snd] in Hfl, Hd. subst fl.
    split; [eapply disp_NC; [exact Hd|apply NC_clear_backlog; exact N1]|].
    intros Hr. pose proof (ds_running _ _ _ Hd Hr) as Hr1.
    destruct (ds_new _ _ _ Hd) as [nt [more [T1 [T2 [T3 [T4 [T5 [T6 T7]]]]]]]].
    assert (Hw0 : wf_state s = RUNNING) by congruence.
    destruct Hcase as [[_ Ho]|[Hrun _]].
    + right. left. left. rewrite T3, Ho. apply in_or_app. left. apply in_or_app. right. left. reflexivity.
    + left. specialize (T6 Hr Hrun). destruct nt as [|r0 nt]; [contradiction|].
      exists (length (tasks (fst t1))), r0. split.
      * rewrite T1, nth_error_app2 by lia. rewrite Nat.sub_diag. reflexivity.
      * inversion T2; subst. unfold idle_row in *. match goal with H : t_state r0 = IDLE |- _ => rewrite H end. reflexivity.
Qed.
End Complete.

(* ================================================================= the events *)
Lemma NC_ops_mono X s ops : WkNC X s [] -> forallb plain_op ops = true -> WkNC X s ops.
Proof.
  intros [H1 H2 H3 H4 H5 H6 H7 H8 H9 H10] Hp.
  constructor; try assumption.
  - intros tid r Hx Hn Hi. eapply start_pending_mono; [| |exact (H6 tid r Hx Hn Hi)]; [auto|intros y []].
  - intros tid r Hx Hn Hi. eapply run_witness_mono; [intros aid a Ha; exact Ha| | |exact (H7 tid r Hx Hn Hi)]; [auto|intros y []].
Qed.

(* ------------------------------------------------------------ start_task for a rerun request *)
Lemma run_witness_map al extra (g : arow -> arow) p ops tid :
  (forall a, a_task (g a) = a_task a /\ a_state (g a) = a_state a) ->
  run_witness al p ops tid -> run_witness (map g al ++ extra) p ops tid.
Proof.
  intros Hg [[aid [a [A1 [A2 [A3 A4]]]]]|H]; [|right; exact H].
  left. exists aid, (g a). destruct (Hg a) as [G1 G2]. split.
  - rewrite nth_error_app1 by (rewrite map_length; apply nth_error_Some; congruence). rewrite nth_error_map, A1. reflexivity.
  - rewrite G1, G2. repeat split; assumption.
Qed.

Lemma start_rerun_W sp s tid r reset : nojoin sp -> WkNC (Some tid) s [] -> nth_error (tasks s) tid = Some r ->
  Wk None (commit (check_affected sp (schedule_action
     (reset_actions (upd_task s tid (t_set_processed (t_set_state r RUNNING) (if state_eqb (t_state r) RUNNING then t_processed r else false)))
                    tid reset, []) tid) tid)) [].
Proof.
  intros Hnj [H1 H2 H3 H4 H5 H6 H7 H8 H9 H10] Hn.
  rewrite nojoin_check_affected by exact Hnj.
  assert (Hlt : tid < length (tasks s)) by (apply nth_error_Some; congruence).
  set (r' := t_set_processed (t_set_state r RUNNING) (if state_eqb (t_state r) RUNNING then t_processed r else false)).
  set (g := fun a : arow => if Nat.eqb (a_task a) tid &&
                         (reset || (a_accepted a && (state_eqb (a_state a) ERROR || state_eqb (a_state a) CANCELLED)))
                      then mkArow (a_task a) (a_state a) false else a).
  assert (Hg : forall a, a_task (g a) = a_task a /\ a_state (g a) = a_state a).
  { intros a. unfold g. destruct (_ && _); split; reflexivity. }
  unfold schedule_action, reset_actions. cbn [fst snd app upd_task acts tasks wf_created wf_state backlog calls pend uids].
  fold g. rewrite map_length. set (a := mkArow tid RUNNING false). set (aid := length (acts s)).
  match goal with |- Wk None (commit (?s2, ?o)) [] => change (Wk None (commit (s2, o)) []); apply commit_W end.
  assert (Hnew : nth_error (map g (acts s) ++ [a]) aid = Some a).
  { unfold aid. rewrite nth_error_app2 by (rewrite map_length; lia). rewrite map_length, Nat.sub_diag. reflexivity. }
  split.
  - constructor; cbn [add_act wf_created wf_state backlog tasks acts pend]; rewrite ?set_nth_length; try assumption.
    + intros k x Hk. destruct (Nat.eq_dec k tid) as [->|Hne].
      * rewrite nth_error_set_nth_same in Hk by exact Hlt. inversion Hk; subst. right. right. reflexivity.
      * rewrite nth_error_set_nth_other in Hk by exact Hne. eapply H5; exact Hk.
    + intros k x _ Hk Hxi. destruct (Nat.eq_dec k tid) as [->|Hne].
      * rewrite nth_error_set_nth_same in Hk by exact Hlt. inversion Hk; subst. discriminate Hxi.
      * rewrite nth_error_set_nth_other in Hk by exact Hne.
        assert (Hx : Some tid <> Some k) by congruence.
        eapply start_pending_mono; [intros y Hy; exact Hy| |exact (H6 k x Hx Hk Hxi)]. intros y [].
    + intros k x _ Hk Hxr. destruct (Nat.eq_dec k tid) as [->|Hne].
      * left. exists aid, a. repeat split; auto. right. right. left. left. reflexivity.
      * rewrite nth_error_set_nth_other in Hk by exact Hne.
        assert (Hx : Some tid <> Some k) by congruence.
        eapply run_witness_mono; [intros aid0 a0 Ha0; exact Ha0|intros y Hy; exact Hy| |apply (run_witness_map _ [a] g _ _ _ Hg (H7 k x Hx Hk Hxr))].
        intros y [].
    + intros k b Hk.
      destruct (Nat.lt_ge_cases k (length (acts s))) as [Hl|Hl].
      * rewrite nth_error_app1 in Hk by (rewrite map_length; exact Hl). rewrite nth_error_map in Hk.
        destruct (nth_error (acts s) k) as [b0|] eqn:Eb; [|discriminate]. cbn in Hk. injection Hk as <-.
        destruct (Hg b0) as [G1 _]. rewrite G1. eapply H8; exact Eb.
      * rewrite nth_error_app2 in Hk by (rewrite map_length; exact Hl). rewrite map_length in Hk.
        destruct (k - length (acts s)) as [|m]; simpl in Hk.
        -- inversion Hk; subst. exact Hlt.
        -- destruct m; discriminate.
  - intros _. left. exists tid, r'. split; [apply nth_error_set_nth_same; exact Hlt|reflexivity].
Qed.

Section Events.
Variable sp : spec.
Hypothesis Hnj : nojoin sp.

Lemma fire_start_W s tid f r x rest :
  sflag f r x = true ->
  Wk None s [] -> (forall y, In y (pend s) -> y = IStartTask tid f r x \/ In y rest) ->
  (forall y, In y rest -> In y (pend s)) ->
  Wk None (fst (do_start_task sp (set_pend s rest) tid f r x)) [].
Proof.
  intros Hfl [Hn Hchk] Hsplit Hsub. set (it := IStartTask tid f r x) in *.
  assert (Hne : forall q, it <> IPtq q) by (intros; discriminate).
  assert (Hact : forall X' aid a, nth_error (acts s) aid = Some a -> X' <> Some (a_task a) -> is_completed (a_state a) = false ->
            it <> IExec aid /\ forall r, it <> IResult aid r) by (intros; split; intros; discriminate).
  (* dropping the request keeps the invariant for every task but tid ... *)
  assert (Hexc : WkNC (Some tid) (set_pend s rest) []).
  { apply (drop_item_NC (Some tid) s it rest Hne Hsplit Hsub); [|apply Hact| |exact Hn].
    - intros k r1 f' r' x' Hx _ _ E. injection E as E1. congruence.
    - intros k r1 reset Hx _ _ E. injection E as E1. congruence. }
  (* ... and for tid too when the request was not what tid was waiting for *)
  assert (Hall : (forall r0, nth_error (tasks s) tid = Some r0 -> t_state r0 <> IDLE /\ (t_state r0 = RUNNING -> f = false -> r = true -> False)) ->
                 WkNC None (set_pend s rest) []).
  { intros Hq. apply (drop_item_NC None s it rest Hne Hsplit Hsub); [|apply Hact| |exact Hn].
    - intros k r1 f' r' x' _ Hk Hi E. injection E as E1. subst k. destruct (Hq r1 Hk) as [Q _]. contradiction.
    - intros k r1 reset _ Hk Hi E. injection E as E1 E2 E3. subst k. destruct (Hq r1 Hk) as [_ Q]. apply (Q Hi); congruence. }
  unfold do_start_task. cbn [set_pend tasks].
  destruct (Nat.leb (length (tasks s)) tid) eqn:El.
  - cbn [fst]. apply Nat.leb_le in El. split.
    + apply Hall. intros r0 Hk. assert (tid < length (tasks s)) by (apply nth_error_Some; congruence). lia.
    + cbn [set_pend wf_state pend]. intros Hw. apply (chk_drop s it rest Hne Hsplit); [|exact (Hchk Hw)].
      intros k Hk E. injection E as E1. lia.
  - apply Nat.leb_gt in El.
    destruct (nth_error (tasks s) tid) as [r0|] eqn:En; [|apply nth_error_None in En; lia].
    unfold get_task. cbn [set_pend tasks]. rewrite (nth_error_nth' _ _ dummy_trow _ En).
    assert (Hstart : t_state r0 = IDLE ->
      Wk None (commit (check_affected sp (schedule_action (task_set_state (set_pend s rest) tid RUNNING, []) tid) tid)) []).
    { intros Hidle. apply (start_new_W sp _ tid r0 Hnj); [exact Hexc|exact En|exact Hidle]. }
    assert (Hidle_eq : is_idle (t_state r0) = true -> t_state r0 = IDLE)
      by (destruct (t_state r0); intros E; try discriminate E; reflexivity).
    assert (Hchk0 : (forall k, it <> IStartTask k false false true) -> wf_state (set_pend s rest) = RUNNING -> chk (set_pend s rest) rest []).
    { intros Hd Hw. apply (chk_drop s it rest Hne Hsplit); [intros k _; apply Hd|exact (Hchk Hw)]. }
    destruct f, r, x; try discriminate Hfl; cbn [negb andb].
    + (* the original request *)
      destruct (is_idle (t_state r0)) eqn:Ei; cbn [fst]; [apply Hstart, Hidle_eq; reflexivity|].
      rewrite nojoin_check_affected by exact Hnj. unfold commit. cbn [fst snd].
      split; [|apply Hchk0; intros k E; discriminate E].
      apply Hall. intros r1 Hk. injection Hk as <-. split; [intros E; rewrite E in Ei; discriminate|intros _ E; discriminate E].
    + (* a rerun request, reset on *)
      destruct (state_eqb (t_state r0) SUCCESS) eqn:Es; cbn [fst].
      * split; [|apply Hchk0; intros k E; discriminate E].
        apply Hall. intros r1 Hk. injection Hk as <-.
        split; intros E; try intros _ _; rewrite E in Es; discriminate.
      * apply (start_rerun_W sp _ tid r0 true Hnj Hexc En).
    + (* a rerun request, reset off *)
      destruct (state_eqb (t_state r0) SUCCESS) eqn:Es; cbn [fst].
      * split; [|apply Hchk0; intros k E; discriminate E].
        apply Hall. intros r1 Hk. injection Hk as <-.
        split; intros E; try intros _ _; rewrite E in Es; discriminate.
      * apply (start_rerun_W sp _ tid r0 false Hnj Hexc En).
    + (* a request issued by resume *)
      destruct (is_idle (t_state r0)) eqn:Ei; cbn [negb fst]; [apply Hstart, Hidle_eq; reflexivity|].
      change (Wk None (commit (set_pend s rest, [OCheck])) []). apply commit_W.
      split; [apply NC_ops_mono; [|reflexivity]|intros _; right; left; left; left; reflexivity].
      apply Hall. intros r1 Hk. injection Hk as <-. split; [intros E; rewrite E in Ei; discriminate|intros _ _ E; discriminate E].
Qed.

Lemma fire_exec_W s aid rest c res :
  Wk None s [] -> (forall x, In x (pend s) -> x = IExec aid \/ In x rest) -> (forall x, In x rest -> In x (pend s)) ->
  Wk None (add_pend (set_calls (set_pend s rest) c) (IResult aid res)) [].
Proof.
  intros [[H1 H2 H3 H4 H5 H6 H7 H8 H9 H10] H11] Hsplit Hsub. set (it := IExec aid) in *.
  assert (Hne : forall q, it <> IPtq q) by (intros; discriminate).
  assert (Hoa : forall o, op_avail (pend s) [] o -> op_avail (rest ++ [IResult aid res]) [] o).
  { intros o Ho. apply (op_avail_rest s it rest o Hne Hsplit) in Ho.
    eapply op_avail_pend_mono; [|exact Ho]. intros i Hi. apply in_or_app. left. exact Hi. }
  assert (Hit : forall i, i <> it -> In i (pend s) -> In i (rest ++ [IResult aid res])).
  { intros i Hi Hin. apply in_or_app. left. destruct (Hsplit _ Hin) as [E|E]; [contradiction|exact E]. }
  split.
  - constructor; cbn [add_pend set_calls set_pend wf_created wf_state backlog tasks acts pend]; try assumption.
    + intros tid r Hx Hn Hi. destruct (H6 tid r Hx Hn Hi) as [f' [r'' [x' [Hs [H|H]]]]]; exists f', r'', x'; (split; [exact Hs|]);
        [left; apply Hit; [discriminate|exact H]|right; apply Hoa, H].
    + intros tid r Hx Hn Hi. destruct (H7 tid r Hx Hn Hi) as [[aid' [a [A1 [A2 [A3 A4]]]]]|[reset [A|A]]].
      * left. exists aid', a. repeat split; auto. destruct A4 as [A|[[q A]|A]].
        -- destruct (Nat.eq_dec aid' aid) as [->|Hd].
           ++ right. left. exists res. apply in_or_app. right. left. reflexivity.
           ++ left. apply Hit; [intros E; inversion E; contradiction|exact A].
        -- right. left. exists q. apply Hit; [discriminate|exact A].
        -- right. right. apply Hoa, A.
      * right. exists reset. left. apply Hit; [discriminate|exact A].
      * right. exists reset. right. apply Hoa, A.
    + rewrite forallb_app. rewrite (forallb_sub _ _ _ Hsub H9). reflexivity.
  - cbn [add_pend set_calls set_pend wf_state pend tasks]. intros Hw. destruct (H11 Hw) as [H|[H|[tid [Ht H]]]].
    + left. exact H.
    + right. left. apply Hoa, H.
    + right. right. exists tid. split; [exact Ht|]. destruct H as [H|H]; [left; apply Hit; [discriminate|exact H]|right; apply Hoa, H].
Qed.

Lemma upd_act_NC tid s aid a x :
  WkNC (Some tid) s [] -> nth_error (acts s) aid = Some a -> a_task a = tid ->
  WkNC (Some tid) (upd_act s aid (mkArow tid x true)) [].
Proof.
  intros [H1 H2 H3 H4 H5 H6 H7 H8 H9 H10] Ha Ht.
  constructor; cbn [upd_act wf_created wf_state backlog tasks acts pend]; try assumption.
  - intros k r Hx Hk Hi. destruct (H7 k r Hx Hk Hi) as [[aid' [b [A1 [A2 [A3 A4]]]]]|Hre]; [|right; exact Hre].
    left. exists aid', b. repeat split; auto. rewrite nth_error_set_nth_other; [exact A1|].
    intros ->. rewrite Ha in A1. inversion A1; subst. congruence.
  - intros k b Hk. destruct (Nat.eq_dec k aid) as [->|Hd].
    + apply nth_error_set_nth_eq in Hk. subst b. cbn. rewrite <- Ht. eapply H8; exact Ha.
    + rewrite nth_error_set_nth_other in Hk by exact Hd. eapply H8; exact Hk.
Qed.

Lemma state_of_outcome_ok res : is_completed (state_of_outcome res) = true /\ is_skipped (state_of_outcome res) = false.
Proof. destruct res; split; reflexivity. Qed.

Lemma fire_result_W s aid res rest :
  Wk None s [] -> (forall x, In x (pend s) -> x = IResult aid res \/ In x rest) -> (forall x, In x rest -> In x (pend s)) ->
  Wk None (match do_result sp (set_pend s rest) aid res with (s1, Ok) => s1 | (_, _) => set_pend s rest end) [].
Proof.
  intros [Hn Hchk] Hsplit Hsub. set (it := IResult aid res) in *. set (s0 := set_pend s rest).
  assert (Hne : forall q, it <> IPtq q) by (intros; discriminate).
  assert (Hst : forall X' tid r f r' x, X' <> Some tid -> nth_error (tasks s) tid = Some r -> t_state r = IDLE ->
            it <> IStartTask tid f r' x) by (intros; discriminate).
  assert (Hrr : forall X' tid r reset, X' <> Some tid -> nth_error (tasks s) tid = Some r -> t_state r = RUNNING ->
            it <> IStartTask tid false true reset) by (intros; discriminate).
  assert (Hchk0 : wf_state s0 = RUNNING -> chk s0 (pend s0) []).
  { intros Hw. apply (chk_drop s it rest Hne Hsplit); [intros; discriminate|exact (Hchk Hw)]. }
  unfold do_result. change (acts s0) with (acts s).
  destruct (Nat.leb (length (acts s)) aid) eqn:El.
  - apply Nat.leb_le in El. split; [|exact Hchk0].
    apply (drop_item_NC None s it rest Hne Hsplit Hsub); [apply Hst| |apply Hrr|exact Hn].
    intros k a Hk _ _. split; [discriminate|]. intros r E. injection E as E1 E2.
    assert (k < length (acts s)) by (apply nth_error_Some; congruence). lia.
  - apply Nat.leb_gt in El.
    destruct (nth_error (acts s) aid) as [a|] eqn:Ea; [|apply nth_error_None in Ea; lia].
    unfold get_act. change (acts s0) with (acts s). rewrite (nth_error_nth' _ _ dummy_arow _ Ea).
    destruct (is_completed (a_state a)) eqn:Ec.
    + split; [|exact Hchk0]. apply (drop_item_NC None s it rest Hne Hsplit Hsub); [apply Hst| |apply Hrr|exact Hn].
      intros k b Hk _ Hb. split; [discriminate|]. intros r E. injection E as E1 E2. rewrite <- E1 in Hk. rewrite Ea in Hk. injection Hk as Hk. congruence.
    + cbv zeta. set (x := state_of_outcome res). set (tid := a_task a).
      destruct (state_of_outcome_ok res) as [Hx Hsk]. fold x in Hx, Hsk.
      assert (W0 : WkNC (Some tid) s0 []).
      { apply (drop_item_NC (Some tid) s it rest Hne Hsplit Hsub); [apply Hst| |apply Hrr|exact Hn].
        intros k b Hk Hxk Hb. split; [discriminate|]. intros r E. injection E as E1 E2. rewrite <- E1 in Hk. rewrite Ea in Hk.
        injection Hk as Hk. apply Hxk. unfold tid. rewrite Hk. reflexivity. }
      assert (W1 : WkNC (Some tid) (upd_act s0 aid (mkArow tid x true)) []) by (apply (upd_act_NC tid s0 aid a x W0 Ea eq_refl)).
      set (s1 := upd_act s0 aid (mkArow tid x true)) in *.
      pose proof (complete_task_W sp Hnj (FUEL sp s1) s1 [] tid x W1 (fun _ => Hchk0) Hx) as Hc.
      assert (Hfuel : spec_size sp + length (backlog s1) + 3 < FUEL sp s1) by (unfold FUEL; lia).
      specialize (Hc Hfuel).
      destruct (complete_task sp (FUEL sp s1) (s1, []) tid x) as [t1 fl]. destruct fl.
      * rewrite nojoin_check_affected by exact Hnj. destruct t1 as [sa oa]. apply commit_W. exact Hc.
      * apply commit_W. exact Hc.
Qed.
End Events.

(* ================================================================= operator events: pause, stop, resume *)
Lemma hdr_quiet_W s y : Wk None s [] -> live_wf_state y = true -> y <> RUNNING -> Wk None (set_wf_state s y) [].
Proof.
  intros [Hn _] Hl Hy. split.
  - eapply hdr_NC; [exact Hn|right; exists y; reflexivity|exact Hl|intros; contradiction].
  - intros; contradiction.
Qed.

Lemma pause_W s s1 : Wk None s [] -> pause_workflow s = Some s1 -> Wk None s1 [].
Proof.
  intros Hw. unfold pause_workflow. destruct (is_paused (wf_state s)); [intros H; injection H as <-; exact Hw|].
  intros H. apply wf_set_state_inv in H. subst s1. apply hdr_quiet_W; [exact Hw|reflexivity|discriminate].
Qed.

Lemma stop_W s x s1 : Wk None s [] -> stop_workflow s x = Some s1 -> Wk None s1 [].
Proof.
  intros Hw. unfold stop_workflow, succeed_workflow, fail_workflow, cancel_workflow.
  destruct x; try (intros H; injection H as <-; exact Hw).
  - destruct (state_eqb (wf_state s) SUCCESS); [intros H; injection H as <-; exact Hw|].
    intros H. apply wf_set_state_inv in H. subst s1. apply hdr_quiet_W; [exact Hw|reflexivity|discriminate].
  - destruct (is_completed (wf_state s)); [intros H; injection H as <-; exact Hw|].
    intros H. apply wf_set_state_inv in H. subst s1. apply hdr_quiet_W; [exact Hw|reflexivity|discriminate].
  - destruct (is_completed (wf_state s)); [intros H; injection H as <-; exact Hw|].
    intros H. apply wf_set_state_inv in H. subst s1. apply hdr_quiet_W; [exact Hw|reflexivity|discriminate].
Qed.

(* --- resume *)
Lemma NC_frame X s s' ops : WkNC X s ops ->
  wf_created s' = true -> live_wf_state (wf_state s') = true -> bks (length (tasks s')) (backlog s') ->
  (wf_state s' = RUNNING -> backlog s' = []) -> acts s' = acts s -> pend s' = pend s ->
  length (tasks s') = length (tasks s) ->
  (forall k r', nth_error (tasks s') k = Some r' -> exists r, nth_error (tasks s) k = Some r /\ t_state r = t_state r') ->
  WkNC X s' ops.
Proof.
  intros [H1 H2 H3 H4 H5 H6 H7 H8 H9 H10] C L B BL A P LT T.
  constructor; try assumption; rewrite ?A, ?P, ?LT; try assumption.
  - intros k r' Hk. destruct (T k r' Hk) as [r [Hr <-]]. eapply H5; exact Hr.
  - intros k r' Hx Hk Hi. destruct (T k r' Hk) as [r [Hr E]]. rewrite <- E in Hi. exact (H6 k r Hx Hr Hi).
  - intros k r' Hx Hk Hi. destruct (T k r' Hk) as [r [Hr E]]. rewrite <- E in Hi. exact (H7 k r Hx Hr Hi).
Qed.

Lemma mark_processed_tasks s k r' : nth_error (tasks (mark_processed s)) k = Some r' ->
  exists r, nth_error (tasks s) k = Some r /\ t_state r = t_state r'.
Proof.
  cbn [mark_processed tasks]. rewrite nth_error_map. destruct (nth_error (tasks s) k) as [r|]; [|discriminate].
  cbn. intros H. injection H as <-. exists r. split; [reflexivity|]. destruct (_ && _); reflexivity.
Qed.

Lemma incomplete_mark_processed s : incomplete_task (mark_processed s) -> incomplete_task s.
Proof. intros [k [r' [Hk Hc]]]. destruct (mark_processed_tasks s k r' Hk) as [r [Hr E]]. exists k, r. split; [exact Hr|congruence]. Qed.

Lemma no_waiting_refresh s :
  (forall tid r, nth_error (tasks s) tid = Some r -> is_completed (t_state r) = true \/ t_state r = IDLE \/ t_state r = RUNNING) ->
  schedule_waiting_refresh s = s.
Proof.
  intros H. unfold schedule_waiting_refresh.
  assert (G : forall l acc, (forall p, In p l -> state_eqb (t_state (snd p)) WAITING = false) ->
             fold_left (fun acc p => if state_eqb (t_state (snd p)) WAITING && negb (has_refresh_job acc (fst p))
                                     then add_pend acc (IRefresh (fst p)) else acc) l acc = acc).
  { induction l as [|p l IH]; intros acc Hl; [reflexivity|]. simpl. rewrite (Hl p (or_introl eq_refl)). simpl. apply IH.
    intros q Hq. apply Hl. right. exact Hq. }
  apply G. intros [k r] Hin. simpl. apply in_combine_r in Hin. apply In_nth_error in Hin. destruct Hin as [n Hn].
  destruct (H n r Hn) as [Hc|[Hi|Hr]]; [destruct (t_state r); try discriminate Hc; reflexivity|rewrite Hi; reflexivity|rewrite Hr; reflexivity].
Qed.

Lemma filter_length_le {A} (f : A -> bool) l : length (filter f l) <= length l.
Proof. induction l as [|a l IH]; simpl; [lia|]. destruct (f a); simpl; lia. Qed.

Lemma flat_map_le1 {A B} (f : A -> list B) l : (forall x, length (f x) <= 1) -> length (flat_map f l) <= length l.
Proof. intros H. induction l as [|a l IH]; simpl; [lia|]. rewrite app_length. specialize (H a). lia. Qed.

Section Resume.
Variable sp : spec.
Hypothesis Hnj : nojoin sp.

Lemma more_props : forall (unproc : list (nat * trow)) more,
  fold_right (fun p acc => match acc, find_next_tasks sp (snd p) with
                           | Some l, Some m => Some (map (to_cmd sp (fst p)) m ++ l)
                           | _, _ => None end) (Some []) unproc = Some more ->
  okcs more /\ in_range 0 more /\ length more <= length unproc * spec_size sp.
Proof.
  induction unproc as [|p l IH]; intros more H; simpl in H.
  - injection H as <-. split; [constructor|]. split; [intros ? ? ? []|simpl; lia].
  - destruct (fold_right _ _ l) as [l0|] eqn:E; [|discriminate].
    destruct (find_next_tasks sp (snd p)) as [m|] eqn:Em; [|discriminate]. injection H as <-.
    destruct (IH l0 eq_refl) as [I1 [I2 I3]]. split; [|split].
    + apply Forall_app. split; [apply Forall_okc_map, Hnj|exact I1].
    + intros tid a b Hin. apply in_app_or in Hin. destruct Hin as [Hin|Hin]; [eapply map_to_cmd_in_range; exact Hin|eapply I2; exact Hin].
    + rewrite app_length, map_length. apply find_next_len in Em. simpl. lia.
Qed.

Lemma resume_W s : Wk None s [] -> Wk None (fst (step sp s EResume)) [].
Proof.
  intros Hw. pose proof Hw as [Hn Hchk]. unfold step. rewrite (N_created _ _ _ Hn). cbn [negb].
  pose proof (N_live _ _ _ Hn) as Hl.
  destruct (wf_state s) eqn:Ew; try discriminate Hl; try exact Hw.
  (* PAUSED *)
  change (negb (is_paused_or_idle PAUSED)) with false. cbv iota.
  assert (Es1 : wf_set_state s RUNNING = Some (set_wf_state s RUNNING)) by (unfold wf_set_state; rewrite Ew; reflexivity).
  rewrite Es1. set (s1 := set_wf_state s RUNNING). cbv zeta.
  set (idle := flat_map (fun p : nat * trow => if is_idle (t_state (snd p)) then [CRunExisting (fst p) true false] else [])
                        (combine (seq 0 (length (tasks s1))) (tasks s1))).
  set (unproc := filter (fun p : nat * trow => is_completed (t_state (snd p)) && negb (t_processed (snd p)))
                        (combine (seq 0 (length (tasks s1))) (tasks s1))).
  destruct (fold_right _ (Some []) unproc) as [more|] eqn:Emore; [|exact Hw].
  destruct (more_props unproc more Emore) as [M1 [M2 M3]].
  set (n := length (tasks s)) in *.
  assert (Hcomb : length (combine (seq 0 (length (tasks s1))) (tasks s1)) = n).
  { rewrite combine_length, seq_length. cbn. apply Nat.min_id. }
  assert (Hidle_ok : okcs idle).
  { apply Forall_forall. intros c Hc. apply in_flat_map in Hc. destruct Hc as [p [_ Hc]].
    destruct (is_idle _); [destruct Hc as [<-|[]]; reflexivity|destruct Hc]. }
  assert (Hidle_rg : in_range n idle).
  { intros tid a b Hin. apply in_flat_map in Hin. destruct Hin as [[k r] [Hp Hc]]. cbn [fst snd] in Hc.
    destruct (is_idle _); [|destruct Hc]. destruct Hc as [Hc|[]]. injection Hc as <- _ _.
    apply in_combine_l in Hp. apply in_seq in Hp. cbn in Hp. unfold n. lia. }
  assert (Hidle_len : length idle <= n).
  { rewrite <- Hcomb. apply flat_map_le1. intros p. destruct (is_idle _); simpl; lia. }
  assert (Hun_len : length unproc <= n) by (rewrite <- Hcomb; apply filter_length_le).
  unfold continue_workflow, continue_workflow_cmds.
  set (cmds' := filter (fun c => match c with CSetState PAUSED => false | CNoop => false | _ => true end) (idle ++ more)).
  cbn [fst snd].
  set (s' := mark_processed s1).
  assert (Hok' : okcs cmds').
  { apply Forall_forall. intros c Hc. apply filter_In in Hc. destruct Hc as [Hc _]. apply in_app_or in Hc.
    unfold okcs in Hidle_ok, M1. rewrite Forall_forall in Hidle_ok, M1. destruct Hc as [Hc|Hc]; [apply Hidle_ok, Hc|apply M1, Hc]. }
  assert (Hrg' : in_range n cmds').
  { intros tid a b Hin. apply filter_In in Hin. destruct Hin as [Hin _]. apply in_app_or in Hin.
    destruct Hin as [Hin|Hin]; [eapply Hidle_rg; exact Hin|]. specialize (M2 tid a b Hin). lia. }
  assert (Hnn' : forall c, In c cmds' -> nonnoop c = true).
  { intros c Hc. apply filter_In in Hc. destruct Hc as [_ Hc]. destruct c; try reflexivity. discriminate. }
  assert (Hlen' : length cmds' <= n + n * spec_size sp).
  { unfold cmds'. etransitivity; [apply filter_length_le|]. rewrite app_length.
    assert (length unproc * spec_size sp <= n * spec_size sp) by (apply Nat.mul_le_mono_r; exact Hun_len). lia. }
  assert (Hts' : length (tasks s') = n) by (cbn; rewrite map_length; reflexivity).
  (* the invariant at the state where the dispatch starts (backlog taken) *)
  assert (N' : WkNC None (set_backlog s' []) []).
  { eapply (NC_frame None s); [exact Hn|exact (N_created _ _ _ Hn)|reflexivity|constructor|reflexivity|reflexivity|reflexivity| |].
    - cbn. rewrite map_length. reflexivity.
    - intros k r' Hk. apply (mark_processed_tasks s1 k r'). exact Hk. }
  destruct cmds' as [|c0 cs] eqn:Ecm.
  - destruct (backlog s') as [|b0 bl] eqn:Ebl.
    + (* nothing to dispatch: completion check *)
      assert (Ns : WkNC None s' []).
      { replace s' with (set_backlog s' []) by (apply set_backlog_nil; exact Ebl). exact N'. }
      destruct (cac_spec s' (N_live _ _ _ Ns)) as [s2 [E2 [Hh [Hl2 [Hr2 Hq2]]]]]. rewrite E2. cbn [fst snd].
      assert (N2 : WkNC None s2 []) by (eapply hdr_NC; [exact Ns|exact Hh|exact Hl2|intros H; apply (Hr2 H)]).
      rewrite (no_waiting_refresh s2 (N_states _ _ _ N2)).
      change (Wk None (commit (s2, [])) []). apply commit_W. split; [exact N2|].
      intros H. left. destruct (Hr2 H) as [_ Hi]. eapply incomplete_task_frame; [|exact Hi].
      destruct Hh as [->|[y ->]]; reflexivity.
    + (* backlog only *)
      destruct (dispatch_ok sp (FUEL sp s') (s', []) []) as [Hfl Hd].
      { constructor. } { intros ? ? ? []. } { reflexivity. }
      { cbn [fst]. rewrite Hts'. apply (N_okb _ _ _ Hn). }
      { cbn [fst]. unfold FUEL. change (backlog s') with (backlog s). simpl. lia. }
      destruct (dispatch sp (FUEL sp s') (s', []) []) as [t1 fl]. cbn [fst snd] in Hfl, Hd. subst fl. cbn [fst snd].
      pose proof (disp_NC None _ _ _ Hd N') as N1.
      rewrite (no_waiting_refresh (fst t1) (N_states _ _ _ N1)).
      destruct t1 as [sa oa]. cbn [fst snd] in *. apply commit_W. split; [exact N1|].
      intros H. destruct (ds_new _ _ _ Hd) as [nt [more' [T1 [T2 [T3 [_ [_ [_ T7]]]]]]]]. cbn [fst snd] in T1, T2, T3, T7.
      assert (Hne : filter nonnoop (backlog s') ++ filter nonnoop [] <> []).
      { rewrite Ebl. pose proof (N_okb _ _ _ Hn) as Hb. change (backlog s) with (backlog s') in Hb. rewrite Ebl in Hb.
        inversion Hb as [|? ? Hb0 _]; subst. unfold bk_ok in Hb0. apply andb_true_iff in Hb0. destruct Hb0 as [Hb0 _].
        apply andb_true_iff in Hb0. destruct Hb0 as [_ Hb0]. simpl. rewrite Hb0. discriminate. }
      destruct (T7 H Hne) as [Hnt|[tid [Ht Hin]]].
      * left. destruct nt as [|r0 nt]; [contradiction|]. exists (length (tasks s')), r0. split.
        -- rewrite T1, nth_error_app2 by lia. rewrite Nat.sub_diag. reflexivity.
        -- inversion T2; subst. unfold idle_row in *. match goal with Hq : t_state r0 = IDLE |- _ => rewrite Hq end. reflexivity.
      * right. right. exists tid. split; [exact Ht|]. right. left. rewrite T3. exact Hin.
  - (* commands (and possibly a backlog) *)
    destruct (dispatch_ok sp (FUEL sp s') (s', []) (c0 :: cs) Hok') as [Hfl Hd].
    { cbn [fst]. rewrite Hts'. exact Hrg'. } { reflexivity. }
    { cbn [fst]. rewrite Hts'. apply (N_okb _ _ _ Hn). }
    { cbn [fst]. unfold FUEL. change (backlog s') with (backlog s). rewrite Hts'. change (length (c0 :: cs)) with (length (c0 :: cs)).
      lia. }
    destruct (dispatch sp (FUEL sp s') (s', []) (c0 :: cs)) as [t1 fl]. cbn [fst snd] in Hfl, Hd. subst fl. cbn [fst snd].
    pose proof (disp_NC None _ _ _ Hd N') as N1.
    rewrite (no_waiting_refresh (fst t1) (N_states _ _ _ N1)).
    destruct t1 as [sa oa]. cbn [fst snd] in *. apply commit_W. split; [exact N1|].
    intros H. destruct (ds_new _ _ _ Hd) as [nt [more' [T1 [T2 [T3 [_ [_ [_ T7]]]]]]]]. cbn [fst snd] in T1, T2, T3, T7.
    assert (Hne : filter nonnoop (backlog s') ++ filter nonnoop (c0 :: cs) <> []).
    { simpl. rewrite (Hnn' c0 (or_introl eq_refl)). intros E. apply app_eq_nil in E. destruct E as [_ E]. discriminate. }
    destruct (T7 H Hne) as [Hnt|[tid [Ht Hin]]].
    + left. destruct nt as [|r0 nt]; [contradiction|]. exists (length (tasks s')), r0. split.
      * rewrite T1, nth_error_app2 by lia. rewrite Nat.sub_diag. reflexivity.
      * inversion T2; subst. unfold idle_row in *. match goal with Hq : t_state r0 = IDLE |- _ => rewrite Hq end. reflexivity.
    + right. right. exists tid. split; [exact Ht|]. right. left. rewrite T3. exact Hin.
Qed.
End Resume.

(* ================================================================= operator events: rerun, skip *)
Lemma rerun_task_NC s tid r r' reset :
  WkNC None s [] -> nth_error (tasks s) tid = Some r -> is_completed (t_state r) = true -> t_state r' = RUNNING ->
  WkNC None (upd_task s tid r') [OStartTask tid false true reset].
Proof.
  intros [H1 H2 H3 H4 H5 H6 H7 H8 H9 H10] Hn Hc Hr.
  assert (Hlt : tid < length (tasks s)) by (apply nth_error_Some; congruence).
  assert (Hnone : forall n : nat, None <> Some n) by (intros; discriminate).
  constructor; cbn [upd_task wf_created wf_state backlog tasks acts pend]; rewrite ?set_nth_length; try assumption.
  - intros k x Hk. destruct (Nat.eq_dec k tid) as [->|Hne].
    + rewrite nth_error_set_nth_same in Hk by exact Hlt. injection Hk as <-. right. right. exact Hr.
    + rewrite nth_error_set_nth_other in Hk by exact Hne. eapply H5; exact Hk.
  - intros k x Hx Hk Hi. destruct (Nat.eq_dec k tid) as [->|Hne].
    + rewrite nth_error_set_nth_same in Hk by exact Hlt. injection Hk as <-. rewrite Hr in Hi. discriminate.
    + rewrite nth_error_set_nth_other in Hk by exact Hne.
      eapply start_pending_mono; [intros y Hy; exact Hy| |exact (H6 k x Hx Hk Hi)]. intros y [].
  - intros k x Hx Hk Hi. destruct (Nat.eq_dec k tid) as [->|Hne].
    + right. exists reset. right. left. left. reflexivity.
    + rewrite nth_error_set_nth_other in Hk by exact Hne.
      eapply run_witness_mono; [intros a0 b0 Hb; exact Hb|intros y Hy; exact Hy| |exact (H7 k x Hx Hk Hi)]. intros y [].
Qed.

Lemma rearrange_single_existing tid a b : rearrange [CRunExisting tid a b] = [CRunExisting tid a b].
Proof. reflexivity. Qed.
Lemma rearrange_single_skip tid : rearrange [CSkip tid] = [CSkip tid].
Proof. reflexivity. Qed.

Section Rerun.
Variable sp : spec.
Hypothesis Hnj : nojoin sp.

(* the state in which continue_workflow dispatches: RUNNING again, triggers of the task forgotten, completed
   tasks marked processed *)
Lemma restart_frame s tid : Wk None s [] -> backlog s = [] ->
  WkNC None (mark_processed (upd_task (set_wf_state s RUNNING) tid (t_set_trig (get_task (set_wf_state s RUNNING) tid) []))) [].
Proof.
  intros [Hn _] Hb.
  eapply (NC_frame None s); [exact Hn|exact (N_created _ _ _ Hn)|reflexivity| |intros _; exact Hb|reflexivity|reflexivity| |].
  - cbn. rewrite Hb. constructor.
  - cbn. rewrite map_length, set_nth_length. reflexivity.
  - intros k r' Hk. destruct (mark_processed_tasks _ k r' Hk) as [r1 [Hr1 E1]]. cbn [upd_task set_wf_state tasks] in Hr1.
    destruct (Nat.eq_dec k tid) as [->|Hne].
    + destruct (nth_error (tasks s) tid) as [r0|] eqn:E0.
      * exists r0. split; [reflexivity|]. rewrite <- E1.
        apply nth_error_set_nth_eq in Hr1. subst r1. unfold get_task. cbn [set_wf_state tasks].
        rewrite (nth_error_nth' _ _ dummy_trow _ E0). reflexivity.
      * exfalso. assert (Hlen : tid < length (set_nth tid (t_set_trig (get_task (set_wf_state s RUNNING) tid) []) (tasks s)))
          by (apply nth_error_Some; congruence). rewrite set_nth_length in Hlen. apply nth_error_None in E0. lia.
    + rewrite nth_error_set_nth_other in Hr1 by exact Hne. exists r1. split; [exact Hr1|exact E1].
Qed.

Lemma rerun_W s tid reset : Wk None s [] ->
  tid < length (tasks s) -> t_state (get_task s tid) = ERROR -> backlog s = [] ->
  Wk None (fst (step sp s (ERerun tid reset))) [].
Proof.
  intros Hw Hlt Herr Hb. pose proof Hw as [Hn Hchk]. unfold step. rewrite (N_created _ _ _ Hn). cbn [negb].
  assert (El : Nat.leb (length (tasks s)) tid = false) by (apply Nat.leb_gt; exact Hlt). rewrite El.
  pose proof (N_live _ _ _ Hn) as Hl.
  destruct (state_eqb (wf_state s) PAUSED) eqn:Ep; [exact Hw|].
  destruct (wf_set_state s RUNNING) as [s1|] eqn:Es; [|exact Hw].
  apply wf_set_state_inv in Es. subst s1.
  pose proof (restart_frame s tid Hw Hb) as N'.
  set (s' := mark_processed (upd_task (set_wf_state s RUNNING) tid (t_set_trig (get_task (set_wf_state s RUNNING) tid) []))) in *.
  unfold continue_workflow, continue_workflow_cmds. cbn [filter fst snd]. fold s'.
  assert (Hbl : backlog s' = []) by exact Hb.
  destruct (nth_error (tasks s') tid) as [r|] eqn:Er.
  2:{ exfalso. apply nth_error_None in Er. unfold s' in Er. cbn in Er. rewrite map_length, set_nth_length in Er. lia. }
  assert (Hre : t_state r = ERROR).
  { destruct (mark_processed_tasks _ tid r Er) as [r1 [Hr1 E1]]. cbn [upd_task set_wf_state tasks] in Hr1.
    apply nth_error_set_nth_eq in Hr1. subst r1. rewrite <- E1. exact Herr. }
  assert (Ed : dispatch sp (FUEL sp s') (s', []) [CRunExisting tid reset true] =
               ((upd_task s' tid (t_set_processed (t_set_state r RUNNING) false), [OStartTask tid false true reset]), FOk)).
  { rewrite dispatch_eq. assert (Hf : exists f, FUEL sp s' = S (S (S f))).
    { exists (4 * (length sp + spec_size sp + length (tasks s') + length (backlog s')) + 13 + length (tasks s') * spec_size sp). unfold FUEL. lia. }
    destruct Hf as [f ->]. cbv zeta. cbn [fst]. rewrite Hbl, rearrange_single_existing.
    rewrite process_cmds_eq. cbn [fst]. change (wf_state s') with RUNNING.
    change (is_completed RUNNING) with false. change (state_eqb RUNNING PAUSED) with false. cbv iota.
    rewrite process_cmds_eq. unfold run_existing_cmd. cbn [fst snd]. unfold get_task. rewrite (nth_error_nth' _ _ dummy_trow _ Er), Hre.
    reflexivity. }
  destruct (backlog s'); rewrite Ed; cbn [fst snd].
  - rewrite no_waiting_refresh.
    + apply commit_W. split; [eapply rerun_task_NC; [exact N'|exact Er|rewrite Hre; reflexivity|reflexivity]|].
      intros _. left. exists tid, (t_set_processed (t_set_state r RUNNING) false). split; [|reflexivity].
      cbn [upd_task tasks]. apply nth_error_set_nth_same. apply nth_error_Some. congruence.
    + apply (N_states _ _ _ (rerun_task_NC s' tid r (t_set_processed (t_set_state r RUNNING) false) reset N' Er ltac:(rewrite Hre; reflexivity) eq_refl)).
  - rewrite no_waiting_refresh.
    + apply commit_W. split; [eapply rerun_task_NC; [exact N'|exact Er|rewrite Hre; reflexivity|reflexivity]|].
      intros _. left. exists tid, (t_set_processed (t_set_state r RUNNING) false). split; [|reflexivity].
      cbn [upd_task tasks]. apply nth_error_set_nth_same. apply nth_error_Some. congruence.
    + apply (N_states _ _ _ (rerun_task_NC s' tid r (t_set_processed (t_set_state r RUNNING) false) reset N' Er ltac:(rewrite Hre; reflexivity) eq_refl)).
Qed.

Lemma skip_W s tid : Wk None s [] -> tid < length (tasks s) -> backlog s = [] ->
  Wk None (fst (step sp s (ESkipTask tid))) [].
Proof.
  intros Hw Hlt Hb. pose proof Hw as [Hn Hchk]. unfold step. rewrite (N_created _ _ _ Hn). cbn [negb].
  assert (El : Nat.leb (length (tasks s)) tid = false) by (apply Nat.leb_gt; exact Hlt). rewrite El.
  destruct (state_eqb (wf_state s) PAUSED) eqn:Ep; [exact Hw|].
  destruct (wf_set_state s RUNNING) as [s1|] eqn:Es; [|exact Hw].
  apply wf_set_state_inv in Es. subst s1.
  pose proof (restart_frame s tid Hw Hb) as N'.
  set (s' := mark_processed (upd_task (set_wf_state s RUNNING) tid (t_set_trig (get_task (set_wf_state s RUNNING) tid) []))) in *.
  unfold continue_workflow, continue_workflow_cmds. cbn [filter fst snd]. fold s'.
  assert (Hbl : backlog s' = []) by exact Hb.
  assert (Ed : dispatch sp (FUEL sp s') (s', []) [CSkip tid] =
               match complete_task sp (FUEL sp s' - 2) (s', []) tid SKIPPED with (t2, FOk) => (t2, FOk) | r => r end).
  { rewrite dispatch_eq. assert (Hf : exists f, FUEL sp s' = S (S f)).
    { exists (4 * (length sp + spec_size sp + length (tasks s') + length (backlog s')) + 14 + length (tasks s') * spec_size sp). unfold FUEL. lia. }
    destruct Hf as [f Ef]. rewrite Ef. cbv zeta. cbn [fst]. rewrite Hbl, rearrange_single_skip.
    rewrite process_cmds_eq. cbn [fst]. change (wf_state s') with RUNNING.
    change (is_completed RUNNING) with false. change (state_eqb RUNNING PAUSED) with false. cbv iota.
    replace (S (S f) - 2) with f by lia.
    destruct (complete_task sp f (s', []) tid SKIPPED) as [t2 fl]. destruct fl; [|reflexivity].
    rewrite process_cmds_eq. destruct f; reflexivity. }
  assert (Hsk : is_skipped SKIPPED = false -> wf_state s' = RUNNING -> chk s' (pend s') []) by (intros E; discriminate E).
  pose proof (complete_task_W sp Hnj (FUEL sp s' - 2) s' [] tid SKIPPED (NC_weaken _ _ _ N') Hsk eq_refl) as Hc.
  assert (Hfuel : spec_size sp + length (backlog s') + 3 < FUEL sp s' - 2) by (unfold FUEL; lia).
  specialize (Hc Hfuel).
  destruct (backlog s'); rewrite Ed; destruct (complete_task sp (FUEL sp s' - 2) (s', []) tid SKIPPED) as [t2 fl]; destruct fl; cbn [fst snd];
    try exact Hw; destruct t2 as [sa oa]; cbn [fst snd] in *;
    rewrite (no_waiting_refresh sa (N_states _ _ _ (proj1 Hc))); rewrite nojoin_check_affected by exact Hnj; apply commit_W; exact Hc.
Qed.
End Rerun.

(* ================================================================= the theorem *)
(* the events of a run that is not rerun / skipped by hand: start, every delivery, duplicated deliveries,
   pause, resume, stop *)
Definition live_ev (e : ev) : bool :=
  match e with
  | EStart | EFire _ | EFirePtq _ | EEvict | EPause | EResume | EStop _ => true
  | EDup i => plain_item i          (* a message of these runs delivered once more *)
  | _ => false
  end.

Definition LInv (s : st) : Prop := (wf_created s = false /\ pend s = [] /\ tasks s = [] /\ acts s = []) \/ Wk None s [].

Lemma set_pend_same s : set_pend s (pend s) = s.
Proof. destruct s; reflexivity. Qed.

Section Step.
Variable sp : spec.
Hypothesis Hnj : nojoin sp.

Lemma start_W s : wf_created s = false -> pend s = [] -> LInv (fst (step sp s EStart)).
Proof.
  intros Hc Hp. unfold step. rewrite Hc.
  set (s0 := mkSt true RUNNING [] [] [] [] (pend s) (uids s)).
  set (cmds := map (fun n => CRunTask n OnSuccess false None) (start_tasks sp)).
  assert (N0 : WkNC None s0 []).
  { constructor; cbn; try reflexivity; try (intros [|?] ? ?; discriminate); try (intros [|?] ? ? ?; discriminate).
    - constructor.
    - rewrite Hp. reflexivity. }
  assert (Hok : okcs cmds).
  { apply Forall_forall. intros c Hin. apply in_map_iff in Hin. destruct Hin as [n [<- _]]. reflexivity. }
  assert (Hrg : in_range 0 cmds).
  { intros tid a b Hin. apply in_map_iff in Hin. destruct Hin as [n [Hn _]]. discriminate. }
  assert (Hlen : length cmds <= length sp).
  { unfold cmds, start_tasks. rewrite map_length. etransitivity; [apply filter_length_le|]. rewrite seq_length. lia. }
  destruct (dispatch_ok sp (FUEL sp s0) (s0, []) cmds Hok) as [Hfl Hd].
  { exact Hrg. } { reflexivity. } { constructor. } { unfold FUEL. cbn. lia. }
  destruct (dispatch sp (FUEL sp s0) (s0, []) cmds) as [t1 fl]. cbn [fst snd] in Hfl, Hd. subst fl.
  pose proof (disp_NC None _ _ _ Hd (NC_clear_backlog _ _ _ N0)) as N1.
  destruct (cac_spec (fst t1) (N_live _ _ _ N1)) as [s2 [E2 [Hh [Hl [Hr Hq]]]]]. rewrite E2. cbn [fst].
  right. apply commit_W. split.
  - eapply hdr_NC; [exact N1|exact Hh|exact Hl|intros Hw; apply (Hr Hw)].
  - intros Hw. left. destruct (Hr Hw) as [_ Hi].
    eapply incomplete_task_frame; [|exact Hi]. destruct Hh as [->|[y ->]]; reflexivity.
Qed.

Theorem LInv_step s e : live_ev e = true -> LInv s -> LInv (fst (step sp s e)).
Proof.
  intros He Hs. destruct e; try discriminate He.
  - (* EStart *)
    destruct Hs as [[Hc [Hp _]]|Hw]; [apply start_W; assumption|].
    unfold step. rewrite (N_created _ _ _ (proj1 Hw)). right. exact Hw.
  - (* EFire *)
    unfold step. destruct (remove_first (item_eqb i) (pend s)) as [[it rest]|] eqn:Er; [|exact Hs].
    destruct Hs as [[Hc [Hp _]]|Hw]; [rewrite Hp in Er; discriminate|].
    destruct (remove_first_spec _ _ _ _ Er) as [Hin [_ [Hsplit Hsub]]].
    pose proof (N_items _ _ _ (proj1 Hw)) as Hit. rewrite forallb_forall in Hit. specialize (Hit _ Hin).
    destruct it as [tid f r x|aid|aid res|ops|tid]; simpl in Hit.
    + right. apply fire_start_W; assumption.
    + right. cbn [fst]. apply fire_exec_W; assumption.
    + right. pose proof (fire_result_W sp Hnj s aid res rest Hw Hsplit Hsub) as H.
      destruct (do_result sp (set_pend s rest) aid res) as [s1 o]. destruct o; exact H.
    + right. exact Hw.
    + discriminate.
  - (* EFirePtq *)
    unfold step. destruct (remove_nth_ptq n (pend s)) as [[ops rest]|] eqn:Er; [|exact Hs].
    destruct Hs as [[Hc [Hp _]]|Hw]; [rewrite Hp in Er; discriminate|].
    destruct (remove_nth_ptq_spec _ _ _ _ Er) as [Hin [Hsplit Hsub]].
    right. cbn [fst]. apply run_ops_W. apply take_ptq_W; assumption.
  - (* EPause *)
    destruct Hs as [[Hc Hp]|Hw]; [unfold step; rewrite Hc; left; split; assumption|].
    unfold step. rewrite (N_created _ _ _ (proj1 Hw)). cbn [negb].
    destruct (pause_workflow s) as [s1|] eqn:E; [right; eapply pause_W; eassumption|right; exact Hw].
  - (* EResume *)
    destruct Hs as [[Hc Hp]|Hw]; [unfold step; rewrite Hc; left; split; assumption|].
    right. apply resume_W; assumption.
  - (* EStop *)
    destruct Hs as [[Hc Hp]|Hw]; [unfold step; rewrite Hc; left; split; assumption|].
    unfold step. rewrite (N_created _ _ _ (proj1 Hw)). cbn [negb].
    destruct (stop_workflow s x) as [s1|] eqn:E; [right; eapply stop_W; eassumption|right; exact Hw].
  - (* EDup *)
    unfold step. destruct i as [tid f r x|aid|aid res|ops|tid]; try exact Hs; simpl in He.
    + destruct Hs as [[Hc [Hp [Ht Ha]]]|Hw].
      * unfold do_start_task. rewrite Ht. simpl. left. repeat split; assumption.
      * right. rewrite <- (set_pend_same s) at 1.
        apply (fire_start_W sp Hnj s tid f r x (pend s) He Hw); [intros y Hy; right; exact Hy|auto].
    + destruct Hs as [[Hc [Hp [Ht Ha]]]|Hw].
      * unfold do_result. rewrite Ha. simpl. left. repeat split; assumption.
      * right. pose proof (fire_result_W sp Hnj s aid res (pend s) Hw) as H.
        rewrite set_pend_same in H. specialize (H (fun y Hy => or_intror Hy) (fun y Hy => Hy)).
        destruct (do_result sp s aid res) as [s1 o]. destruct o; exact H.
  - (* EEvict *) exact Hs.
Qed.

Lemma LInv_steps evs : forall s, forallb live_ev evs = true -> LInv s -> LInv (steps sp s evs).
Proof.
  induction evs as [|e evs IH]; intros s He Hs; [exact Hs|].
  simpl in He. apply andb_true_iff in He. destruct He as [He1 He2].
  unfold steps. simpl. apply IH; [exact He2|apply LInv_step; assumption].
Qed.

(* quiescence: nothing pending means every task execution is final and the workflow is completed or
   PAUSED (by a `pause` command of its definition or by the operator; only a resume leaves PAUSED, and a
   resumed run is covered by the same statement) *)
Theorem no_stuck_joinfree u evs :
  forallb live_ev evs = true ->
  let s := run sp u evs in
  wf_created s = true -> pend s = [] ->
  (forall tid r, nth_error (tasks s) tid = Some r -> is_completed (t_state r) = true) /\
  (is_completed (wf_state s) = true \/ wf_state s = PAUSED).
Proof.
  intros He s Hc Hp.
  assert (Hi : LInv s).
  { unfold s. rewrite run_steps. apply LInv_steps; [exact He|]. left. repeat split; reflexivity. }
  destruct Hi as [[Hc' _]|[Hn Hchk]]; [congruence|].
  assert (Hnone : forall n : nat, None <> Some n) by (intros; discriminate).
  assert (Hno : forall o, ~ op_avail (pend s) [] o).
  { intros o [[]|[q [Hq _]]]. rewrite Hp in Hq. destruct Hq. }
  assert (Htasks : forall tid r, nth_error (tasks s) tid = Some r -> is_completed (t_state r) = true).
  { intros tid r Hk. destruct (N_states _ _ _ Hn tid r Hk) as [H|[H|H]]; [exact H| |].
    - exfalso. destruct (N_idle _ _ _ Hn tid r (Hnone tid) Hk H) as [f [r' [x [_ [Hin|Ha]]]]];
        [rewrite Hp in Hin; destruct Hin|apply (Hno _ Ha)].
    - exfalso. destruct (N_running _ _ _ Hn tid r (Hnone tid) Hk H) as [[aid [a [_ [_ [_ Hap]]]]]|[reset [Hin|Ha]]].
      + destruct Hap as [Hin|[[q Hin]|Ha]]; [rewrite Hp in Hin; destruct Hin|rewrite Hp in Hin; destruct Hin|apply (Hno _ Ha)].
      + rewrite Hp in Hin. destruct Hin.
      + apply (Hno _ Ha). }
  split; [exact Htasks|].
  pose proof (N_live _ _ _ Hn) as Hl.
  destruct (wf_state s) eqn:Ew; try discriminate Hl; auto.
  exfalso. destruct (Hchk eq_refl) as [[tid [r [Hk Hnc]]]|[Hcp|[tid [_ [Hin|Ha]]]]].
  - rewrite (Htasks tid r Hk) in Hnc. discriminate.
  - apply (Hno _ Hcp).
  - rewrite Hp in Hin. destruct Hin.
  - apply (Hno _ Ha).
Qed.

(* --- with reruns and skips: the events allowed at a state *)
Definition is_nil {A} (l : list A) : bool := match l with [] => true | _ => false end.
Definition ok_ev (s : st) (e : ev) : bool :=
  match e with
  | ERerun tid _ => Nat.ltb tid (length (tasks s)) && state_eqb (t_state (get_task s tid)) ERROR && is_nil (backlog s)
  | ESkipTask tid => Nat.ltb tid (length (tasks s)) && is_nil (backlog s)
  | _ => live_ev e
  end.
Fixpoint ok_run (s : st) (evs : list ev) : bool :=
  match evs with
  | [] => true
  | e :: r => ok_ev s e && ok_run (fst (step sp s e)) r
  end.

Lemma LInv_step_ok s e : ok_ev s e = true -> LInv s -> LInv (fst (step sp s e)).
Proof.
  intros He Hs. destruct e; try (apply LInv_step; [exact He|exact Hs]).
  - (* ERerun *)
    simpl in He. apply andb_true_iff in He. destruct He as [He Hb]. apply andb_true_iff in He. destruct He as [Hlt Herr].
    apply Nat.ltb_lt in Hlt. assert (Hbl : backlog s = []) by (destruct (backlog s); [reflexivity|discriminate Hb]).
    assert (Hst : t_state (get_task s tid) = ERROR) by (destruct (t_state (get_task s tid)); try discriminate Herr; reflexivity).
    destruct Hs as [[Hc Hp]|Hw]; [unfold step; rewrite Hc; left; split; assumption|].
    right. apply rerun_W; assumption.
  - (* ESkipTask *)
    simpl in He. apply andb_true_iff in He. destruct He as [Hlt Hb]. apply Nat.ltb_lt in Hlt.
    assert (Hbl : backlog s = []) by (destruct (backlog s); [reflexivity|discriminate Hb]).
    destruct Hs as [[Hc Hp]|Hw]; [unfold step; rewrite Hc; left; split; assumption|].
    right. apply skip_W; assumption.
Qed.

Lemma LInv_ok_run evs : forall s, ok_run s evs = true -> LInv s -> LInv (steps sp s evs).
Proof.
  induction evs as [|e evs IH]; intros s He Hs; [exact Hs|].
  simpl in He. apply andb_true_iff in He. destruct He as [He1 He2].
  unfold steps. simpl. apply IH; [exact He2|apply LInv_step_ok; assumption].
Qed.

(* the same with operator reruns of failed tasks and skips (issued while the command backlog is empty):
   a rerun or skipped run goes on to completion too *)
Theorem no_stuck_joinfree_ops u evs :
  ok_run (init_with u) evs = true ->
  let s := run sp u evs in
  wf_created s = true -> pend s = [] ->
  (forall tid r, nth_error (tasks s) tid = Some r -> is_completed (t_state r) = true) /\
  (is_completed (wf_state s) = true \/ wf_state s = PAUSED).
Proof.
  intros He s Hc Hp.
  assert (Hi : LInv s).
  { unfold s. rewrite run_steps. apply LInv_ok_run; [exact He|]. left. repeat split; reflexivity. }
  destruct Hi as [[Hc' _]|[Hn Hchk]]; [congruence|].
  assert (Hnone : forall n : nat, None <> Some n) by (intros; discriminate).
  assert (Hno : forall o, ~ op_avail (pend s) [] o).
  { intros o [[]|[q [Hq _]]]. rewrite Hp in Hq. destruct Hq. }
  assert (Htasks : forall tid r, nth_error (tasks s) tid = Some r -> is_completed (t_state r) = true).
  { intros tid r Hk. destruct (N_states _ _ _ Hn tid r Hk) as [H|[H|H]]; [exact H| |].
    - exfalso. destruct (N_idle _ _ _ Hn tid r (Hnone tid) Hk H) as [f [r' [x [_ [Hin|Ha]]]]];
        [rewrite Hp in Hin; destruct Hin|apply (Hno _ Ha)].
    - exfalso. destruct (N_running _ _ _ Hn tid r (Hnone tid) Hk H) as [[aid [a [_ [_ [_ Hap]]]]]|[reset [Hin|Ha]]].
      + destruct Hap as [Hin|[[q Hin]|Ha]]; [rewrite Hp in Hin; destruct Hin|rewrite Hp in Hin; destruct Hin|apply (Hno _ Ha)].
      + rewrite Hp in Hin. destruct Hin.
      + apply (Hno _ Ha). }
  split; [exact Htasks|].
  pose proof (N_live _ _ _ Hn) as Hl.
  destruct (wf_state s) eqn:Ew; try discriminate Hl; auto.
  exfalso. destruct (Hchk eq_refl) as [[tid [r [Hk Hnc]]]|[Hcp|[tid [_ [Hin|Ha]]]]].
  - rewrite (Htasks tid r Hk) in Hnc. discriminate.
  - apply (Hno _ Hcp).
  - rewrite Hp in Hin. destruct Hin.
  - apply (Hno _ Ha).
Qed.
End Step.

(* ------------------------------------------------------------ non-vacuity *)
(* an executable scheduler: always deliver the first pending item *)
Fixpoint drain_evs (sp : spec) (s : st) (fuel : nat) : list ev :=
  match fuel with
  | O => []
  | S f =>
    match pend s with
    | [] => []
    | IPtq _ :: _ => EFirePtq 0 :: drain_evs sp (fst (step sp s (EFirePtq 0))) f
    | i :: _ => EFire i :: drain_evs sp (fst (step sp s (EFire i))) f
    end
  end.

(* fork with a guard, an on-error route and an engine command: 0 -> (1 | 2), 1 fails -> on-error 3, 2 -> noop *)
Definition demo_sp : spec :=
  [ mkTspec JNone [(TTask 1, GTrue); (TTask 2, GTrue); (TTask 3, GFalse)] [] [] [] [OOk];
    mkTspec JNone [] [(TTask 3, GTrue)] [] [] [OErr];
    mkTspec JNone [(TNoop, GTrue)] [] [] [] [OOk];
    mkTspec JNone [] [] [] [] [OOk] ].

Example no_stuck_joinfree_nonvacuous :
  let evs := EStart :: drain_evs demo_sp (fst (step demo_sp init EStart)) 100 in
  let s := run demo_sp [] evs in
  nojoin_b demo_sp = true /\ forallb live_ev evs = true /\ wf_created s = true /\ pend s = [] /\
  length (tasks s) = 4 /\ wf_state s = SUCCESS /\ 20 < length evs.
Proof. vm_compute. repeat split. apply Nat.leb_le. reflexivity. Qed.

(* the history of defects F19/F20: task 0 issues two `pause` commands, task 1 is started while the
   workflow is paused for the second time; two resumes later everything is final *)
Definition pause2_sp : spec :=
  [ mkTspec JNone [(TPause, GTrue)] [] [(TPause, GTrue)] [] [OOk];
    mkTspec JNone [] [] [] [] [OOk] ].

Example no_stuck_after_two_pauses :
  let evs := [EStart; EFirePtq 0; EFire (IStartTask 1 true false false); EFirePtq 0; EFire (IExec 0); EFire (IResult 0 OOk);
              EFirePtq 0; EResume; EFire (IStartTask 0 true false false); EFirePtq 0; EFire (IExec 1); EFire (IResult 1 OOk);
              EResume; EFirePtq 0; EFire (IStartTask 0 false false true); EFirePtq 0] in
  let s := run pause2_sp [1; 0] evs in
  forallb live_ev evs = true /\ pend s = [] /\ length (tasks s) = 2 /\ wf_state s = SUCCESS /\
  wf_state (run pause2_sp [1; 0] (firstn 8 evs)) = PAUSED /\ backlog (run pause2_sp [1; 0] (firstn 8 evs)) = [CRunExisting 0 true false].
Proof. vm_compute. repeat split. Qed.

(* a failed task is rerun (the new attempt succeeds): the run goes on to SUCCESS *)
Definition rerun_sp : spec :=
  [ mkTspec JNone [(TTask 1, GTrue)] [] [] [] [OErr; OOk];
    mkTspec JNone [] [] [] [] [OOk] ].

Example no_stuck_after_rerun :
  let evs1 := EStart :: drain_evs rerun_sp (fst (step rerun_sp init EStart)) 50 in
  let s1 := run rerun_sp [] evs1 in
  let evs2 := ERerun 0 true :: drain_evs rerun_sp (fst (step rerun_sp s1 (ERerun 0 true))) 50 in
  let s2 := run rerun_sp [] (evs1 ++ evs2) in
  wf_state s1 = ERROR /\ pend s1 = [] /\ ok_run rerun_sp init (evs1 ++ evs2) = true /\
  pend s2 = [] /\ wf_state s2 = SUCCESS /\ length (tasks s2) = 2.
Proof. vm_compute. repeat split. Qed.
