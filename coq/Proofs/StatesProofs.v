(* Facts about the state table translated from mistral/workflow/states.py
   (Gen/States.v is regenerated from the source on every run). Property C03. *)
From Coq Require Import List Bool String.
Require Import Mistral.Gen.States.
Import ListNotations.

Definition valid (a b : state) : bool :=
  match is_valid_transition a b with Some true => true | _ => false end.

(* the states a workflow execution can hold (tasks additionally use WAITING,
   DELAYED, SKIPPED) *)
Definition is_wf_state (s : state) : bool :=
  mem s [IDLE; RUNNING; PAUSED; SUCCESS; ERROR; CANCELLED].

(* the documented moves of property C03 *)
Definition documented_wf_move (a b : state) : bool :=
  match a, b with
  | IDLE, RUNNING => true
  | RUNNING, PAUSED | RUNNING, SUCCESS | RUNNING, ERROR | RUNNING, CANCELLED => true
  | PAUSED, RUNNING | PAUSED, ERROR | PAUSED, CANCELLED => true
  | ERROR, RUNNING | CANCELLED, RUNNING => true
  | _, _ => false
  end.

(* edges of the source table between workflow states that the documentation does
   not list: a workflow that fails or is cancelled before it ever ran *)
Definition undocumented_idle_move (a b : state) : bool :=
  match a, b with IDLE, ERROR | IDLE, CANCELLED => true | _, _ => false end.

Lemma success_is_terminal b : valid SUCCESS b = true -> b = SUCCESS.
Proof. destruct b; vm_compute; congruence. Qed.

Lemma wf_moves_exact a b :
  is_wf_state a = true -> is_wf_state b = true -> state_eqb a b = false ->
  valid a b = (documented_wf_move a b || undocumented_idle_move a b).
Proof. destruct a, b; vm_compute; congruence. Qed.

Lemma leave_error_only_by_rerun a b :
  (a = ERROR \/ a = CANCELLED) -> is_wf_state b = true -> valid a b = true -> b = a \/ b = RUNNING.
Proof. intros [->| ->]; destruct b; vm_compute; intros; try congruence; auto. Qed.

Lemma valid_same a : is_valid a = true -> valid a a = true.
Proof. destruct a; vm_compute; congruence. Qed.

Lemma invalid_never a b : valid Invalid b = false /\ valid a Invalid = false.
Proof. split; [destruct b|destruct a]; vm_compute; reflexivity. Qed.

(* The only pair on which the source raises KeyError instead of answering:
   leaving SKIPPED (no key in _VALID_TRANSITIONS).  Workflow executions are never
   SKIPPED; tasks are moved by compare-and-swap without consulting the table. *)
Lemma table_total_except_skipped a b :
  is_valid_transition a b = None -> a = SKIPPED /\ b <> SKIPPED.
Proof. destruct a, b; vm_compute; intros H; try discriminate H; split; congruence. Qed.

Lemma completed_states s :
  is_completed s = true <-> s = SUCCESS \/ s = ERROR \/ s = CANCELLED \/ s = SKIPPED.
Proof.
  destruct s; vm_compute; split; intros H; try congruence; auto;
    repeat (destruct H as [H|H]; try congruence).
Qed.

Lemma paused_or_completed_spec s :
  is_paused_or_completed s = (is_paused s || is_completed s).
Proof. reflexivity. Qed.
