(* Generic induction principle for the mutually recursive command dispatch of
   Model/Engine.v (process_cmds / dispatch / complete_task): any reflexive-transitive
   relation on transactions that is respected by every primitive command effect is
   respected by the whole dispatch, for every fuel, command list and state. *)
From Coq Require Import List Bool Arith Lia.
Require Import Mistral.Gen.States Mistral.Model.PySort Mistral.Model.Engine.
Import ListNotations.

(* unfolding equations of the mutual fixpoint (so that proofs never see the raw `fix`) *)
Lemma process_cmds_eq sp fuel t cmds :
  process_cmds sp fuel t cmds =
  match fuel with
  | O => (t, FOk)
  | S f =>
    match cmds with
    | [] => (t, FOk)
    | c :: rest =>
      let s := fst t in
      if is_completed (wf_state s) then (t, FOk)
      else if state_eqb (wf_state s) PAUSED then process_cmds sp f (backlog_push t c) rest
      else
        match c with
        | CRunTask name _ waiting trig => process_cmds sp f (run_task_cmd sp t name waiting trig) rest
        | CRunExisting tid reset rerun => process_cmds sp f (run_existing_cmd t tid reset rerun) rest
        | CSkip tid =>
          match complete_task sp f t tid SKIPPED with
          | (t2, FOk) => process_cmds sp f t2 rest
          | r => r
          end
        | CSetState x =>
          match set_workflow_state s x with
          | Some s1 => process_cmds sp f (s1, snd t) rest
          | None => (t, FForce)
          end
        | CNoop => process_cmds sp f t rest
        end
    end
  end.
Proof. destruct fuel; reflexivity. Qed.

Lemma dispatch_eq sp fuel t cmds :
  dispatch sp fuel t cmds =
  match fuel with
  | O => (t, FOk)
  | S f =>
    let s := fst t in
    match backlog s with
    | [] => process_cmds sp f t (rearrange cmds)
    | bl =>
      match process_cmds sp f (set_backlog s [], snd t) (rearrange bl) with
      | (t1, FOk) => process_cmds sp f t1 (rearrange cmds)
      | r => r
      end
    end
  end.
Proof. destruct fuel; reflexivity. Qed.

Lemma complete_task_eq sp fuel t tid x :
  complete_task sp fuel t tid x =
  match fuel with
  | O => (t, FOk)
  | S f =>
    match complete_pre sp t tid x with
    | PreIgnored t1 => (t1, FOk)
    | PreRaised t1 => (t1, FForce)
    | PreCmds t1 cmds => dispatch sp f t1 cmds
    end
  end.
Proof. destruct fuel; reflexivity. Qed.

Section Mutual.
Variable sp : spec.
Variable P : tx -> tx -> Prop.
Hypothesis P_refl : forall t, P t t.
Hypothesis P_trans : forall a b c, P a b -> P b c -> P a c.

(* a command saved to the backlog (only while PAUSED) *)
Hypothesis P_backlog_push : forall t c,
  is_completed (wf_state (fst t)) = false ->
  state_eqb (wf_state (fst t)) PAUSED = true -> P t (backlog_push t c).
(* the backlog taken out for re-processing *)
Hypothesis P_backlog_clear : forall t, P t (set_backlog (fst t) [], snd t).
Hypothesis P_run_task : forall t name waiting trig,
  is_completed (wf_state (fst t)) = false ->
  state_eqb (wf_state (fst t)) PAUSED = false -> P t (run_task_cmd sp t name waiting trig).
Hypothesis P_run_existing : forall t tid reset rerun,
  is_completed (wf_state (fst t)) = false ->
  state_eqb (wf_state (fst t)) PAUSED = false -> P t (run_existing_cmd t tid reset rerun).
Hypothesis P_set_state : forall t x s1,
  is_completed (wf_state (fst t)) = false ->
  state_eqb (wf_state (fst t)) PAUSED = false ->
  set_workflow_state (fst t) x = Some s1 -> P t (s1, snd t).
Hypothesis P_pre : forall t tid x,
  match complete_pre sp t tid x with
  | PreIgnored t1 => P t t1
  | PreRaised t1 => P t t1
  | PreCmds t1 _ => P t t1
  end.

Lemma mutual_P : forall fuel,
  (forall t cmds, P t (fst (process_cmds sp fuel t cmds))) /\
  (forall t cmds, P t (fst (dispatch sp fuel t cmds))) /\
  (forall t tid x, P t (fst (complete_task sp fuel t tid x))).
Proof.
  induction fuel as [|f [IHp [IHd IHc]]].
  - repeat split; intros; [rewrite process_cmds_eq|rewrite dispatch_eq|rewrite complete_task_eq]; apply P_refl.
  - assert (Hp : forall t cmds, P t (fst (process_cmds sp (S f) t cmds))).
    { intros t cmds. rewrite process_cmds_eq. destruct cmds as [|c rest]; [apply P_refl|]. cbv zeta.
      destruct (is_completed (wf_state (fst t))) eqn:Ec; [apply P_refl|].
      destruct (state_eqb (wf_state (fst t)) PAUSED) eqn:Ep.
      - eapply P_trans; [apply P_backlog_push; assumption|apply IHp].
      - destruct c as [name e waiting trig|tid reset rerun|tid|x|].
        + eapply P_trans; [apply P_run_task; assumption|apply IHp].
        + eapply P_trans; [apply P_run_existing; assumption|apply IHp].
        + specialize (IHc t tid SKIPPED).
          destruct (complete_task sp f t tid SKIPPED) as [t2 fl] eqn:Ect. simpl in IHc.
          destruct fl; [eapply P_trans; [exact IHc|apply IHp]|exact IHc].
        + destruct (set_workflow_state (fst t) x) as [s1|] eqn:Es; [|apply P_refl].
          eapply P_trans; [eapply P_set_state; eassumption|apply IHp].
        + apply IHp. }
    repeat split.
    + exact Hp.
    + intros t cmds. rewrite dispatch_eq. cbv zeta. destruct (backlog (fst t)) as [|b bl] eqn:Eb.
      * apply IHp.
      * pose proof IHp as IHp0. specialize (IHp (set_backlog (fst t) [], snd t) (rearrange (b :: bl))).
        destruct (process_cmds sp f (set_backlog (fst t) [], snd t) (rearrange (b :: bl))) as [t1 fl] eqn:E1.
        simpl in IHp.
        assert (H1 : P t t1) by (eapply P_trans; [apply P_backlog_clear|exact IHp]).
        destruct fl; [eapply P_trans; [exact H1|apply IHp0]|exact H1].
    + intros t tid x. rewrite complete_task_eq. pose proof (P_pre t tid x) as Hpre.
      destruct (complete_pre sp t tid x) as [t1|t1|t1 cmds]; simpl; try exact Hpre.
      eapply P_trans; [exact Hpre|apply IHd].
Qed.
End Mutual.
