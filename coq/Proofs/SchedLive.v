(* Proofs about Model/Sched.v: crash recovery (a committed, undeleted job becomes
   selectable again and a poll that nobody disturbs runs it), the pending-job query,
   and the witnesses showing which hypotheses are necessary. *)
From Coq Require Import List NArith Bool Arith Lia ZifyBool ZifyNat ZifyN Permutation.
Require Import Mistral.Model.Sched Mistral.Proofs.SchedLists Mistral.Proofs.SchedProofs.
Import ListNotations.
Open Scope N_scope.

(* ---- enabledness ---- *)

(* whatever happened to the threads that held it: once the clock passes
   execute_at + pickup and captured_at + timeout the row is eligible again *)
Lemma eligible_after : forall c r t,
  rexec r + pickup c < t ->
  (forall x, rcap r = Some x -> x + timeout c <= t) ->
  eligible c t r = true.
Proof. intros. apply eligible_spec. auto. Qed.

Lemma eligible_later : forall c r t t', eligible c t r = true -> t <= t' -> eligible c t' r = true.
Proof.
  intros c r t t' H Ht. apply eligible_spec in H. destruct H as [H1 H2]. apply eligible_spec. split. lia.
  intros x Hx. specialize (H2 x Hx). lia.
Qed.

Lemma not_eligible_early : forall c r t, t <= rexec r + pickup c -> eligible c t r = false.
Proof.
  intros c r t H. destruct (eligible c t r) eqn:E; auto. apply eligible_spec in E. lia.
Qed.

Lemma not_eligible_captured : forall c r t x, rcap r = Some x -> t < x + timeout c -> eligible c t r = false.
Proof.
  intros c r t x Hx H. destruct (eligible c t r) eqn:E; auto. apply eligible_spec in E. destruct E as [_ E].
  specialize (E x Hx). lia.
Qed.

(* an idle instance that polls without a batch limit selects every eligible row *)
Lemma poll_selects : forall c st i ord r,
  batch c = None ->
  existsb (fun p => Nat.eqb (pi p) i) (polls st) = false ->
  In r (store st) -> eligible c (now st) r = true ->
  exists p, nth_error (polls (step c st (PollSelect i ord))) (length (polls st)) = Some p /\
            pi p = i /\ pjobs p = [] /\ In (mkCand (rid r) (rcap r)) (psel p).
Proof.
  intros c st i ord r Hb Hidle Hr He. simpl. rewrite Hidle.
  pose proof (candidates_all c (now st) ord (store st) r Hb Hr He) as Hin.
  destruct (candidates c (now st) ord (store st)) as [|r0 cs] eqn:C. destruct Hin.
  simpl. eexists. split.
  - rewrite nth_error_app2 by lia. rewrite Nat.sub_diag. simpl. reflexivity.
  - simpl. repeat split; auto.
    change (In (mkCand (rid r) (rcap r)) (map (fun r => mkCand (rid r) (rcap r)) (r0 :: cs))).
    apply in_map_iff. exists r. auto.
Qed.

(* the compare-and-swap of a selected row succeeds as long as nobody changed it *)
Lemma capture_succeeds : forall s r t, In r s -> exists s', cas s (rid r) (rcap r) t = Some s'.
Proof.
  intros s r t Hr. unfold cas.
  assert (existsb (row_matches (rid r) (rcap r)) s = true) as X.
  { apply existsb_exists. exists r. split; auto. apply row_matches_spec. auto. }
  rewrite X. eauto.
Qed.

(* ---- one undisturbed poll round runs every selected job ---- *)

(* the steps of one _process_store_jobs call that nothing interleaves with *)
Definition round_steps (k n : nat) : list ev :=
  repeat (PollCapture k) n ++ concat (repeat [PollInvoke k; PollDelete k] n).

Definition poll_round (c : cfg) (i : iid) (ord : list jid) (st : state) : state :=
  run c (PollSelect i ord :: round_steps (length (polls st)) (length (candidates c (now st) ord (store st)))) st.

Lemma nth_set_nth_same : forall {A} k (l : list A) x y, nth_error l k = Some x -> nth_error (set_nth k y l) k = Some y.
Proof. induction k; destruct l; simpl; intros; try discriminate; eauto. Qed.

Lemma length_set_nth : forall {A} k (l : list A) y, length (set_nth k y l) = length l.
Proof. induction k; destruct l; simpl; intros; auto. Qed.

Lemma cas_row_other : forall s j e t s' r, cas s j e t = Some s' -> In r s -> rid r <> j -> In r s'.
Proof.
  intros s j e t s' r C Hr Hne. destruct (cas_In_fwd _ _ _ _ _ r C Hr) as [[_ X]|[X _]]; auto. congruence.
Qed.

Lemma cas_row_any : forall s j e t s' r, cas s j e t = Some s' -> In r s -> exists r', In r' s' /\ rid r' = rid r.
Proof.
  intros s j e t s' r C Hr. destruct (cas_In_fwd _ _ _ _ _ r C Hr) as [[_ X]|[_ [_ X]]]; eauto.
Qed.

Lemma run_app : forall c a b st, run c (a ++ b) st = run c b (run c a st).
Proof. intros. unfold run. apply fold_left_app. Qed.

Section Round.
Variable c : cfg.
Variable i : iid.
Variable k : nat.

(* capture phase: poll k still has sel to compare-and-swap and holds js *)
Definition P1 (st : state) (sel : list cand) (js : list holder) : Prop :=
  nth_error (polls st) k = Some (mkPoll i sel js) /\ length (polls st) = S k /\
  NoDup (map cj sel ++ map hj js) /\
  (forall cd, In cd sel -> exists r, In r (store st) /\ rid r = cj cd /\ rcap r = cexp cd) /\
  (forall h, In h js -> hp h = PInv /\ exists r, In r (store st) /\ rid r = hj h).

Lemma P1_step : forall st cd rest js, P1 st (cd :: rest) js ->
  let st' := step c st (PollCapture k) in
  P1 st' rest (js ++ [mkH (cj cd) (now st) PInv]) /\ now st' = now st /\ log st' = log st.
Proof.
  intros st cd rest js [E [Hlen [Hnd [Hsel Hjobs]]]]. simpl. rewrite E.
  destruct (Hsel cd (or_introl eq_refl)) as [r [Hr [Er Ec]]].
  destruct (capture_succeeds (store st) r (now st) Hr) as [s' C]. rewrite Er, Ec in C. rewrite C.
  simpl in Hnd. inversion Hnd as [|x l Hnotin Hnd']; subst.
  assert (put_poll k (mkPoll i rest (js ++ [mkH (cj cd) (now st) PInv])) (polls st) =
          set_nth k (mkPoll i rest (js ++ [mkH (cj cd) (now st) PInv])) (polls st)) as Hput.
  { unfold put_poll, finished. simpl. destruct rest; auto. destruct js; auto. }
  rewrite Hput. simpl. split; [|split; reflexivity].
  unfold P1. simpl. rewrite length_set_nth. split. eapply nth_set_nth_same; eauto. split; auto.
  split; [|split].
  - rewrite map_app. simpl. rewrite app_assoc. apply NoDup_app_intro; auto.
    + constructor; auto. constructor.
    + intros x Hx [Hy|[]]. subst x. auto.
  - intros cd0 Hcd0. destruct (Hsel cd0 (or_intror Hcd0)) as [r1 [Hr1 [E1 E2]]].
    exists r1. repeat split; auto. eapply cas_row_other; eauto.
    intro X. apply Hnotin. rewrite in_app_iff. left. rewrite <- X, E1. apply in_map. auto.
  - intros h Hh. apply in_app_iff in Hh. destruct Hh as [Hh|[Hh|[]]].
    + destruct (Hjobs h Hh) as [P [r1 [Hr1 E1]]]. split; auto.
      destruct (cas_row_any _ _ _ _ _ r1 C Hr1) as [r2 [Hr2 E2]]. exists r2. split; auto. congruence.
    + subst h. simpl. split; auto.
      destruct (cas_row_any _ _ _ _ _ r C Hr) as [r2 [Hr2 E2]]. exists r2. split; auto. congruence.
Qed.

Lemma P1_run : forall sel st js n, P1 st sel js -> n = length sel ->
  let st' := run c (repeat (PollCapture k) n) st in
  P1 st' [] (js ++ map (fun cd => mkH (cj cd) (now st) PInv) sel) /\ now st' = now st /\ log st' = log st.
Proof.
  induction sel as [|cd rest IH]; intros st js n H Hn; subst n.
  - simpl. rewrite app_nil_r. auto.
  - destruct (P1_step st cd rest js H) as [H' [Hn Hl]].
    specialize (IH _ _ _ H' eq_refl). cbv zeta in IH. destruct IH as [IH1 [IH2 IH3]].
    change (run c (repeat (PollCapture k) (length (cd :: rest))) st)
      with (run c (repeat (PollCapture k) (length rest)) (step c st (PollCapture k))).
    cbv zeta. rewrite IH2, IH3, Hn, Hl. split; auto.
    rewrite Hn in IH1. simpl. rewrite <- app_assoc in IH1. exact IH1.
Qed.

(* run phase: everything selected was captured; jobs are invoked and deleted in order *)
Definition P2 (st : state) (js : list holder) : Prop :=
  nth_error (polls st) k = Some (mkPoll i [] js) /\ length (polls st) = S k /\
  NoDup (map hj js) /\
  (forall h, In h js -> hp h = PInv /\ exists r, In r (store st) /\ rid r = hj h).

Lemma remove_last : forall {A} (l : list A) n, length l = S n -> length (remove_nth n l) = n.
Proof.
  induction l; simpl; intros n H. discriminate. destruct n; simpl. lia.
  rewrite IHl; auto.
Qed.

Lemma P2_step : forall st h rest, P2 st (h :: rest) ->
  let st' := step c (step c st (PollInvoke k)) (PollDelete k) in
  now st' = now st /\ log st' = log st ++ [mkE (hj h) (now st) i] /\
  match rest with
  | [] => length (polls st') = k
  | _ => P2 st' rest
  end.
Proof.
  intros st [j cp ph] rest [E [Hlen [Hnd Hjobs]]].
  destruct (Hjobs _ (or_introl eq_refl)) as [Hph [r [Hr Er]]]. simpl in Hph, Er. subst ph.
  simpl. rewrite E. simpl. erewrite nth_set_nth_same by eauto.
  assert (has_row (store st) j = true) as Hhas. { apply has_row_true. eauto. }
  rewrite Hhas. simpl. split; auto. split; auto.
  inversion Hnd as [|x l Hnotin Hnd']; subst.
  destruct rest as [|h1 rest1].
  - unfold put_poll, finished. simpl. apply remove_last. rewrite length_set_nth. auto.
  - unfold put_poll, finished. simpl. unfold P2. simpl.
    assert (forall {A} n (l : list A) x y, set_nth n y (set_nth n x l) = set_nth n y l) as SS.
    { intros A n. induction n; destruct l; simpl; intros; auto. rewrite IHn. auto. }
    rewrite SS. rewrite length_set_nth. split. eapply nth_set_nth_same; eauto. split; auto. split; auto.
    intros h0 H. split.
    + destruct (Hjobs h0 (or_intror H)) as [X _]. exact X.
    + destruct (Hjobs h0 (or_intror H)) as [_ [r1 [Hr1 E1]]]. exists r1. split; auto.
      apply del_row_In. split; auto. rewrite E1. intro X. apply Hnotin. rewrite <- X. apply in_map. exact H.
Qed.

Lemma P2_run : forall js st n, P2 st js -> js <> [] -> n = length js ->
  let st' := run c (concat (repeat [PollInvoke k; PollDelete k] n)) st in
  now st' = now st /\ log st' = log st ++ map (fun h => mkE (hj h) (now st) i) js /\ length (polls st') = k.
Proof.
  induction js as [|h rest IH]; intros st n H Hne Hn; subst n. congruence.
  destruct (P2_step st h rest H) as [Hn [Hl Hrest]].
  change (run c (concat (repeat [PollInvoke k; PollDelete k] (length (h :: rest)))) st)
    with (run c (concat (repeat [PollInvoke k; PollDelete k] (length rest)))
              (step c (step c st (PollInvoke k)) (PollDelete k))).
  destruct rest as [|h1 rest1].
  - cbn [length repeat concat run fold_left app map]. cbv zeta in *. rewrite Hn, Hl. auto.
  - assert (h1 :: rest1 <> []) as Hne' by discriminate.
    specialize (IH _ _ Hrest Hne' eq_refl). cbv zeta in *. destruct IH as [IH1 [IH2 IH3]].
    rewrite IH1, IH2, Hn, Hl. split; auto. split; auto. rewrite <- app_assoc. reflexivity.
Qed.

Lemma round_from_P1 : forall sel st n, P1 st sel [] -> sel <> [] -> n = length sel ->
  let st' := run c (round_steps k n) st in
  now st' = now st /\ log st' = log st ++ map (fun cd => mkE (cj cd) (now st) i) sel /\ length (polls st') = k.
Proof.
  intros sel st n H1 Hne Hn. unfold round_steps. rewrite run_app.
  destruct (P1_run sel st [] n H1 Hn) as [H2 [Hn2 Hl2]].
  remember (run c (repeat (PollCapture k) n) st) as st2.
  assert (P2 st2 (map (fun cd => mkH (cj cd) (now st) PInv) sel)) as H2'.
  { destruct H2 as [A1 [A2 [A3 [_ A5]]]]. simpl app in *. unfold P2. repeat split; auto; apply A5; auto. }
  destruct (P2_run _ st2 n H2') as [Hn3 [Hl3 Hp3]].
  { destruct sel; simpl; congruence. }
  { rewrite map_length. auto. }
  cbv zeta in *. rewrite Hn3, Hl3, Hp3, Hn2, Hl2. split; auto. split; auto. rewrite map_map. reflexivity.
Qed.

End Round.

Lemma candidates_nodup : forall c t ord s, NoDup (map rid s) -> NoDup (map rid (candidates c t ord s)).
Proof.
  intros c t ord s H. unfold candidates.
  assert (NoDup (map rid (isort (row_le ord) (filter (eligible c t) s)))) as X.
  { eapply Permutation_NoDup. apply Permutation_map. apply Permutation_sym. apply perm_isort.
    apply NoDup_map_filter. auto. }
  destruct (batch c) as [n|]; simpl; auto.
  eapply Sub_NoDup. 2: exact X. apply Sub_map.
  generalize (isort (row_le ord) (filter (eligible c t) s)). clear.
  induction n; destruct l; simpl; try constructor; auto using Sub_nil_l.
Qed.

(* A poll of an idle instance that nothing interleaves with invokes exactly the rows it
   selected, at the current time, whatever state (reachable from init) it starts in. *)
Lemma poll_round_log : forall c i ord st, good st ->
  existsb (fun p => Nat.eqb (pi p) i) (polls st) = false ->
  let st' := poll_round c i ord st in
  now st' = now st /\
  log st' = log st ++ map (fun r => mkE (rid r) (now st) i) (candidates c (now st) ord (store st)) /\
  length (polls st') = length (polls st).
Proof.
  intros c i ord st G Hidle. unfold poll_round.
  remember (candidates c (now st) ord (store st)) as cs eqn:C.
  change (run c (PollSelect i ord :: round_steps (length (polls st)) (length cs)) st)
    with (run c (round_steps (length (polls st)) (length cs)) (step c st (PollSelect i ord))).
  destruct cs as [|r0 cs].
  - assert (step c st (PollSelect i ord) = st) as Hs. { simpl. rewrite Hidle, <- C. reflexivity. }
    rewrite Hs. simpl. rewrite app_nil_r. auto.
  - set (k := length (polls st)).
    set (sel := map (fun r => mkCand (rid r) (rcap r)) (r0 :: cs)).
    set (st1 := mkSt (now st) (next st) (store st) (pend st) (mem st) (heap st) (pool st) (workers st)
                     (polls st ++ [mkPoll i sel []])
                     (log st) (obs st) (jobs st) (committed st) (rolled st)).
    assert (step c st (PollSelect i ord) = st1) as Hs. { simpl. rewrite Hidle, <- C. reflexivity. }
    rewrite Hs.
    assert (P1 i k st1 sel []) as H1.
    { unfold P1. subst st1. cbn [polls store]. split.
      - rewrite nth_error_app2 by (unfold k; lia). unfold k. rewrite Nat.sub_diag. reflexivity.
      - split. rewrite app_length. simpl. unfold k. lia. split; [|split].
        + rewrite app_nil_r. unfold sel. rewrite map_map. change (NoDup (map rid (r0 :: cs))). rewrite C.
          apply candidates_nodup. apply (g_nodup_store _ G).
        + intros cd Hcd. apply in_map_iff in Hcd. destruct Hcd as [r [Ecd Hr]]. subst cd. simpl.
          exists r. repeat split; auto. rewrite C in Hr. apply candidates_In in Hr. tauto.
        + intros h []. }
    destruct (round_from_P1 c i k sel st1 (length (r0 :: cs)) H1) as [Hn [Hl Hp]].
    { unfold sel. simpl. discriminate. }
    { unfold sel. rewrite map_length. reflexivity. }
    cbv zeta in *. rewrite Hn, Hl, Hp. subst st1. cbn [now log]. split; auto. split; auto.
    unfold sel. rewrite map_map. reflexivity.
Qed.

(* crash recovery / at least once: a committed row that is still in the store is invoked by the
   next undisturbed poll of any idle instance once it is eligible, i.e. (eligible_after) as soon as
   now > execute_at + pickup and now >= captured_at + timeout *)
Lemma recovered_by_poll : forall c i ord st r, good st -> batch c = None ->
  existsb (fun p => Nat.eqb (pi p) i) (polls st) = false ->
  In r (store st) -> eligible c (now st) r = true ->
  In (mkE (rid r) (now st) i) (log (poll_round c i ord st)).
Proof.
  intros c i ord st r G Hb Hidle Hr He.
  destruct (poll_round_log c i ord st G Hidle) as [_ [Hl _]]. rewrite Hl.
  apply in_app_iff. right. apply in_map_iff. exists r. split; auto. apply candidates_all; auto.
Qed.

(* ---- the pending-job query ---- *)

Lemma cap_is_false : forall x, cap_is false x = true <-> x = None.
Proof. destruct x; simpl; split; intros; congruence. Qed.

Lemma has_jobs_spec : forall c st i tx key p, has_jobs c st i tx key p = true <->
  (qmem c = true /\ exists m, In m (mem st) /\ mi m = i /\ mkey m = key /\ cap_is p (mcap m) = true) \/
  (exists r, In r (visible st tx) /\ rkey r = key /\ cap_is p (rcap r) = true).
Proof.
  intros. unfold has_jobs. rewrite orb_true_iff, andb_true_iff, !existsb_exists. split.
  - intros [[Hq [m [Hm H]]]|[r [Hr H]]].
    + left. split; auto. exists m. rewrite !andb_true_iff, !Nat.eqb_eq in H. tauto.
    + right. exists r. rewrite andb_true_iff, Nat.eqb_eq in H. tauto.
  - intros [[Hq [m [Hm H]]]|[r [Hr H]]].
    + left. split; auto. exists m. rewrite !andb_true_iff, !Nat.eqb_eq. tauto.
    + right. exists r. rewrite andb_true_iff, Nat.eqb_eq. tauto.
Qed.

(* exact on the rows the caller can see, provided the answer does not come from memory: either the
   code asks the store only, or the instance holds no in-memory copy of an uncaptured job with that key *)
Lemma pending_query_exact : forall c st i tx key,
  (qmem c = false \/ forall m, In m (mem st) -> mi m = i -> mkey m = key -> mcap m <> None) ->
  (has_jobs c st i tx key false = true <->
   exists r, In r (visible st tx) /\ rkey r = key /\ rcap r = None).
Proof.
  intros c st i tx key Hmem. rewrite has_jobs_spec. split.
  - intros [[Hq [m [Hm [H1 [H2 H3]]]]]|[r [Hr [H1 H2]]]].
    + exfalso. apply cap_is_false in H3. destruct Hmem as [Hmem|Hmem]. congruence. eapply Hmem; eauto.
    + exists r. apply cap_is_false in H2. auto.
  - intros [r [Hr [H1 H2]]]. right. exists r. repeat split; auto. apply cap_is_false. auto.
Qed.

(* never misses a waiting job *)
Lemma pending_query_complete : forall c st i tx key r,
  In r (visible st tx) -> rkey r = key -> rcap r = None -> has_jobs c st i tx key false = true.
Proof.
  intros. apply has_jobs_spec. right. exists r. repeat split; auto. apply cap_is_false. auto.
Qed.

(* ---- witnesses ---- *)

Definition cfg0 : cfg := mkCfg 60 30 None true.

(* the in-memory copy of a job whose transaction rolled back is still reported as pending *)
Definition phantom_steps : list ev := [Persist 0%nat 0%nat 5 1%nat; Rollback 0%nat].

Lemma pending_query_refuted : forall p t b,
  let c := mkCfg p t b true in
  let st := run c phantom_steps init in
  has_jobs c st 0%nat None 1%nat false = true /\
  (forall r, In r (visible st None) -> rkey r <> 1%nat) /\
  (exists j, In j (rolled st) /\ In (mkMem 0%nat j 1%nat None) (mem st)).
Proof.
  intros p t b. cbv zeta. split; [reflexivity|]. split.
  - simpl. tauto.
  - exists 0%nat. simpl. auto.
Qed.

(* the code as translated asks the store only: exact, no proviso. Instantiated in Properties/C13.v with the
   generated flag and eq_refl, so it stops type-checking if the in-memory shortcut comes back. *)
Lemma pending_query_exact_store_only : forall flag : bool, flag = false ->
  forall p t b st i tx key,
    has_jobs (mkCfg p t b flag) st i tx key false = true <->
    exists r, In r (visible st tx) /\ rkey r = key /\ rcap r = None.
Proof. intros flag Hf p t b st i tx key. apply pending_query_exact. left. exact Hf. Qed.

(* what holds for the variant the code was translated to (flag = Gen/SchedQuery.v query_uses_memory) *)
Lemma pending_query_status : forall flag : bool,
  (flag = false /\ forall p t b st i tx key,
     has_jobs (mkCfg p t b flag) st i tx key false = true <->
     exists r, In r (visible st tx) /\ rkey r = key /\ rcap r = None) \/
  (flag = true /\ forall p t b,
     let c := mkCfg p t b flag in
     let st := run c phantom_steps init in
     has_jobs c st 0%nat None 1%nat false = true /\
     (forall r, In r (visible st None) -> rkey r <> 1%nat) /\
     (exists j, In j (rolled st) /\ In (mkMem 0%nat j 1%nat None) (mem st))).
Proof.
  intros [|].
  - right. split; auto. exact pending_query_refuted.
  - left. split; auto. intros. apply pending_query_exact. left. reflexivity.
Qed.

(* without the timeliness hypothesis a job can run twice: the capturing process dies
   between invoking and deleting, another instance recaptures after the timeout *)
Definition twice_steps : list ev :=
  [Persist 0%nat 0%nat 0 1%nat; Commit 0%nat; Dispatch 0%nat; MemStart 0%nat; MemInvoke 0%nat; Crash 0%nat;
   Tick 61; PollSelect 1%nat []; PollCapture 0%nat; PollInvoke 0%nat; PollDelete 0%nat].

Lemma at_most_once_needs_timely :
  exists c steps j, (length (filter (fun e => Nat.eqb (ej e) j) (log (run c steps init))) = 2)%nat.
Proof.
  exists cfg0, twice_steps, 0%nat. vm_compute. reflexivity.
Qed.

(* ---- crash of the capturing instance, then recovery by any idle instance ---- *)

Lemma crash_idle : forall c st i, existsb (fun p => Nat.eqb (pi p) i) (polls (step c st (Crash i))) = false.
Proof.
  intros. simpl. destruct (existsb _ _) eqn:E; auto.
  apply existsb_exists in E. destruct E as [p [Hp Hi]]. apply filter_In in Hp. destruct Hp as [_ Hp].
  rewrite Hi in Hp. discriminate.
Qed.

Lemma crash_recovery : forall c steps i j ord d r,
  let st := run c steps init in
  let st2 := step c (step c st (Crash i)) (Tick d) in
  batch c = None ->
  In r (store st) ->
  rexec r + pickup c < now st + d ->
  (forall x, rcap r = Some x -> x + timeout c <= now st + d) ->
  existsb (fun p => Nat.eqb (pi p) j) (polls st2) = false ->
  In (mkE (rid r) (now st + d) j) (log (poll_round c j ord st2)).
Proof.
  intros c steps i j ord d r st st2 Hb Hr H1 H2 Hidle.
  assert (good st2) as G. { unfold st2. apply good_step. apply good_step. apply good_run. apply good_init. }
  change (now st + d) with (now st2).
  apply recovered_by_poll; auto.
  apply eligible_after; auto.
Qed.

Lemma crash_recovery_same_instance : forall c steps i ord d r,
  let st := run c steps init in
  let st2 := step c (step c st (Crash i)) (Tick d) in
  batch c = None ->
  In r (store st) ->
  rexec r + pickup c < now st + d ->
  (forall x, rcap r = Some x -> x + timeout c <= now st + d) ->
  In (mkE (rid r) (now st + d) i) (log (poll_round c i ord st2)).
Proof.
  intros. apply crash_recovery; auto. simpl.
  pose proof (crash_idle c (run c steps init) i) as X. simpl in X. exact X.
Qed.

Lemma not_eligible_before : forall c r t,
  (t <= rexec r + pickup c \/ exists x, rcap r = Some x /\ t < x + timeout c) -> eligible c t r = false.
Proof.
  intros c r t [H|[x [H1 H2]]]. apply not_eligible_early; auto. eapply not_eligible_captured; eauto.
Qed.

Lemma poll_round_runs_selected : forall c steps i ord,
  let st := run c steps init in
  existsb (fun p => Nat.eqb (pi p) i) (polls st) = false ->
  let st' := poll_round c i ord st in
  now st' = now st /\
  log st' = log st ++ map (fun r => mkE (rid r) (now st) i) (candidates c (now st) ord (store st)) /\
  length (polls st') = length (polls st).
Proof. intros c steps i ord st. apply poll_round_log. apply good_run. apply good_init. Qed.
