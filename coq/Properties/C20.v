(* Property C20: lost executors and stuck tasks are detected and the run moves on exactly once.
   Component level (Model/Beat.v).  Only theorem statements closed by `exact`, each followed by
   Print Assumptions.  Engine-level theorems (error path through task/workflow) are added by the
   whole-engine model separately. *)
From Coq Require Import List ZArith Bool.
Require Import Mistral.Gen.States Mistral.Gen.IntegrityShape Mistral.Model.Beat Mistral.Proofs.BeatProofs.
Import ListNotations.
Open Scope Z_scope.

(* The checker selects exactly the RUNNING, synchronous actions whose last heartbeat (or
   first-heartbeat deadline) is strictly older than now - max_missed*interval.
   All row tables, clock positions and settings. *)
Theorem C20_expired_exact : forall c now tbl r,
  In r (select c now tbl) <->
  In r tbl /\ a_state r = RUNNING /\ a_sync r = Some true /\
  exists h, a_hb r = Some h /\ h < now - max_missed c * interval c.
Proof. exact select_exact. Qed.
Print Assumptions C20_expired_exact.

(* finished, asynchronous (or unknown-mode), never-stamped and fresh actions are never selected *)
Theorem C20_never_fresh_async_finished : forall c now tbl r,
  (a_state r <> RUNNING \/ a_sync r <> Some true \/ a_hb r = None \/
   (exists h, a_hb r = Some h /\ now - max_missed c * interval c <= h)) ->
  ~ In r (select c now tbl).
Proof. exact not_selected. Qed.
Print Assumptions C20_never_fresh_async_finished.

(* One pass, row by row: every selected action with an existing parent becomes ERROR with the
   heartbeat error whatever else is in the batch (before or after it, broken or not); a broken
   one (parent missing) is skipped and left as it was; everything not selected is untouched. *)
Theorem C20_batch_isolation : forall c now l1 r l2 lg,
  NoDup (map a_id (l1 ++ r :: l2)) ->
  expired c now r = true -> a_parent_ok r = true ->
  fst (checker_pass c now (l1 ++ r :: l2) lg) =
    map (pass_row c now) l1 ++
    mkA (a_id r) ERROR (a_sync r) (a_hb r) true true (Some RHeartbeat) ::
    map (pass_row c now) l2.
Proof. exact batch_isolation. Qed.
Print Assumptions C20_batch_isolation.

Theorem C20_pass_pointwise : forall c now tbl lg,
  NoDup (map a_id tbl) ->
  fst (checker_pass c now tbl lg) = map (pass_row c now) tbl /\
  snd (checker_pass c now tbl lg) = lg ++ map (hb_event now) (filter (due c now) tbl).
Proof. exact pass_pointwise. Qed.
Print Assumptions C20_pass_pointwise.

Theorem C20_broken_or_fresh_untouched : forall c now r,
  (a_parent_ok r = false \/ expired c now r = false) -> pass_row c now r = r.
Proof. exact broken_or_fresh_untouched. Qed.
Print Assumptions C20_broken_or_fresh_untouched.

(* interval * max_missed = 0: the service never runs a pass and a pass request changes nothing *)
Theorem C20_disabled : forall c,
  interval c * max_missed c = 0 ->
  (forall now tbl lg, service_pass c now tbl lg = (tbl, lg)) /\
  (forall t0 n, first_pass_at c t0 = None /\ nth_pass_at c t0 n = None) /\
  (forall ops s, (forall e, In e (log s) -> e_kind e <> RHeartbeat) ->
                 forall e, In e (log (run c ops s)) -> e_kind e <> RHeartbeat).
Proof. exact disabled_all. Qed.
Print Assumptions C20_disabled.

(* Arbitrary sequences of create / heartbeat / genuine result / orphaning / checker pass / clock
   tick, from any consistent state: every action is completed (its task is told) at most once,
   and its row keeps the state and result of that one completion - a late genuine result after
   an expiry, or an expiry after a genuine result, does not act a second time. *)
Theorem C20_late_result_inert : forall c ops s,
  Inv s ->
  NoDup (map e_id (log (run c ops s))) /\
  forall e, In e (log (run c ops s)) ->
    exists r, In r (rows (run c ops s)) /\ a_id r = e_id e /\
              a_state r = state_of_kind (e_kind e) /\ a_result r = Some (e_kind e).
Proof. exact once_run. Qed.
Print Assumptions C20_late_result_inert.

(* a finished action keeps state and result through any sequence of operations *)
Theorem C20_finished_final : forall c ops s r,
  In r (rows s) -> is_completed (a_state r) = true ->
  exists r', In r' (rows (run c ops s)) /\ a_id r' = a_id r /\
             a_state r' = a_state r /\ a_result r' = a_result r.
Proof. exact final_run. Qed.
Print Assumptions C20_finished_final.

(* in any run a heartbeat error is recorded only by an enabled checker and only for a heartbeat
   strictly older than the threshold at that moment *)
Theorem C20_heartbeat_error_only_if_stale : forall c ops s,
  (forall e, In e (log s) -> ev_ok c e) ->
  forall e, In e (log (run c ops s)) -> e_kind e = RHeartbeat ->
  enabled c = true /\ exists h, e_hb e = Some h /\ h < e_at e - max_missed c * interval c.
Proof. exact heartbeat_error_only_if_stale. Qed.
Print Assumptions C20_heartbeat_error_only_if_stale.

(* A silent RUNNING synchronous action (last heartbeat h, parent present): through any sequence
   of operations that do not concern it, it is untouched while clock <= h + max_missed*interval,
   and the first pass after that leaves it ERROR with the heartbeat error. *)
Theorem C20_silent_not_early : forall c id h r ops s,
  NoDup (map a_id (rows s)) -> lookup id (rows s) = Some r -> a_hb r = Some h ->
  (forall o, In o ops -> touches id o = false) ->
  clock (run c ops s) <= h + max_missed c * interval c ->
  lookup id (rows (run c ops s)) = Some r.
Proof. exact silent_not_early. Qed.
Print Assumptions C20_silent_not_early.

Theorem C20_silent_detected : forall c id h r ops s,
  NoDup (map a_id (rows s)) -> silent_row id h r -> lookup id (rows s) = Some r ->
  (forall o, In o ops -> touches id o = false) ->
  enabled c = true ->
  h + max_missed c * interval c < clock (run c ops s) ->
  lookup id (rows (run c (ops ++ [OPass]) s)) =
    Some (mkA id ERROR (Some true) (Some h) true true (Some RHeartbeat)).
Proof. exact silent_detected. Qed.
Print Assumptions C20_silent_detected.

(* an action that never sends a heartbeat: the deadline is creation + first_heartbeat_timeout *)
Theorem C20_first_heartbeat_grace : forall c id ops s,
  NoDup (map a_id (rows s)) -> has_id id (rows s) = false ->
  (forall o, In o ops -> touches id o = false) ->
  let r0 := create_row c (clock s) id (Some true) true in
  let s1 := run c (OCreate id (Some true) true :: ops) s in
  let limit := clock s + first_timeout c + max_missed c * interval c in
  (clock s1 <= limit -> lookup id (rows s1) = Some r0) /\
  (enabled c = true -> limit < clock s1 ->
   lookup id (rows (step c s1 OPass)) =
     Some (mkA id ERROR (Some true) (Some (clock s + first_timeout c)) true true (Some RHeartbeat))).
Proof. exact first_heartbeat_grace. Qed.
Print Assumptions C20_first_heartbeat_grace.

(* a heartbeat at time t protects the action until t + max_missed*interval *)
Theorem C20_fresh_protected : forall c id ids r ops s,
  NoDup (map a_id (rows s)) -> lookup id (rows s) = Some r -> mem_nat id ids = true ->
  (forall o, In o ops -> touches id o = false) ->
  clock (run c (OBeat ids :: ops) s) <= clock s + max_missed c * interval c ->
  lookup id (rows (run c (OBeat ids :: ops) s)) = Some (beat_row (clock s) r).
Proof. exact fresh_protected. Qed.
Print Assumptions C20_fresh_protected.

(* ---- integrity check ---- *)

(* the per-task decision of _check_and_fix_integrity, all clock positions and delays *)
Theorem C20_stuck_exact : forall delay now t,
  stuck_decision delay now t = true <->
  delay <= now - task_ts t /\ t_children t <> [] /\
  (forall c, In c (t_children t) -> is_completed (c_state c) = true) /\
  (forall c, In c (t_children t) -> now - child_ts c > delay).
Proof. exact stuck_decision_iff. Qed.
Print Assumptions C20_stuck_exact.

(* a RUNNING task inside the batch window whose children all finished more than `delay` ago and
   which was not touched for `delay`: completion handling is re-triggered and the next check is
   scheduled *)
Theorem C20_integrity_recovers : forall delay batch now ws tasks t,
  0 <= delay -> is_completed ws = false ->
  In t (firstn batch (filter is_running_row tasks)) ->
  t_children t <> [] ->
  (forall c, In c (t_children t) -> is_completed (c_state c) = true) ->
  delay <= now - task_ts t ->
  (forall c, In c (t_children t) -> delay < now - child_ts c) ->
  fst (integrity_pass delay batch now (Some ws) tasks) = true /\
  In (t_id t) (snd (integrity_pass delay batch now (Some ws) tasks)).
Proof. exact integrity_recovers. Qed.
Print Assumptions C20_integrity_recovers.

Theorem C20_integrity_window_all : forall batch tasks t,
  In t tasks -> t_state t = RUNNING -> (length (filter is_running_row tasks) <= batch)%nat ->
  In t (firstn batch (filter is_running_row tasks)).
Proof. exact in_window. Qed.
Print Assumptions C20_integrity_window_all.

(* nothing is re-triggered for a task that is not RUNNING, has an unfinished or recently finished
   child, no child at all, or was touched less than `delay` ago *)
Theorem C20_integrity_never_premature : forall delay batch now wf tasks i,
  In i (snd (integrity_pass delay batch now wf tasks)) ->
  exists t, In t tasks /\ t_id t = i /\ t_state t = RUNNING /\ t_children t <> [] /\
    (forall c, In c (t_children t) -> is_completed (c_state c) = true /\ delay < now - child_ts c) /\
    delay <= now - task_ts t /\ 0 <= delay.
Proof. exact integrity_never_premature. Qed.
Print Assumptions C20_integrity_never_premature.

(* negative delay: never checks, never re-schedules; finished / missing workflow: the chain ends *)
Theorem C20_integrity_disabled : forall delay batch now wf tasks,
  delay < 0 -> integrity_pass delay batch now wf tasks = (false, []).
Proof. exact integrity_disabled. Qed.
Print Assumptions C20_integrity_disabled.

Theorem C20_integrity_finished_wf : forall delay batch now ws tasks,
  is_completed ws = true -> integrity_pass delay batch now (Some ws) tasks = (false, []).
Proof. exact integrity_finished_wf. Qed.
Print Assumptions C20_integrity_finished_wf.

(* the periodic re-check (every 120 s from any start) finds a stuck task from some check on *)
Theorem C20_integrity_eventually : forall delay start t,
  0 <= delay -> t_children t <> [] ->
  (forall c, In c (t_children t) -> is_completed (c_state c) = true) ->
  exists n : nat, forall m : nat, (n <= m)%nat ->
    stuck_decision delay (start + 120 * Z.of_nat m) t = true.
Proof. exact integrity_eventually. Qed.
Print Assumptions C20_integrity_eventually.

(* what the code does with the batch sizes (observations, see the suite docstring):
   the integrity check only ever looks at the first `batch` RUNNING tasks of the workflow *)
Theorem C20_integrity_batch_window : forall delay batch now wf tasks i,
  In i (snd (integrity_pass delay batch now wf tasks)) ->
  In i (map t_id (firstn batch (filter is_running_row tasks))).
Proof. exact integrity_window. Qed.
Print Assumptions C20_integrity_batch_window.

(* ---- the chain of periodic checks ---- *)

(* the only early returns in front of the re-arming call of _check_and_fix_integrity (extracted from the source on
   every run, fail closed): a check of an existing unfinished workflow with a non-negative delay always re-arms *)
Theorem C20_rearm_unconditional : forall delay wf,
  rearms delay wf = true <-> 0 <= delay /\ exists ws, wf = Some ws /\ is_completed ws = false.
Proof. exact rearms_iff. Qed.
Print Assumptions C20_rearm_unconditional.

(* Any sequence of clock ticks, checks being run by the scheduler, arbitrary changes of the task rows, pause /
   resume / completion and reruns, from the state start_workflow creates (or any state with a check pending):
   while the workflow is unfinished and the delay is non-negative an integrity check is pending, due within one
   period - the chain never ends before the workflow does. *)
Theorem C20_chain_never_ends : forall delay batch evs c,
  Alive delay c -> Alive delay (crun delay batch evs c).
Proof. exact alive_run. Qed.
Print Assumptions C20_chain_never_ends.

Theorem C20_chain_pending : forall delay batch evs c,
  Alive delay c -> 0 <= delay -> live (ch_wf (crun delay batch evs c)) = true ->
  ch_jobs (crun delay batch evs c) <> [].
Proof. exact chain_alive. Qed.
Print Assumptions C20_chain_pending.

Theorem C20_chain_start : forall delay ws t0,
  Alive delay (chain_start delay ws t0) /\ Future (chain_start delay ws t0).
Proof. exact chain_start_ok. Qed.
Print Assumptions C20_chain_start.

(* a pending check is not skipped: when the clock is past its due time it has run *)
Theorem C20_check_not_skipped : forall delay batch evs c j,
  Future c -> In j (ch_jobs c) -> j < ch_clock (crun delay batch evs c) ->
  exists ids, In (j, ids) (ch_fired (crun delay batch evs c)).
Proof. exact check_not_skipped. Qed.
Print Assumptions C20_check_not_skipped.

(* Liveness: a task RUNNING inside the batch window whose executions all finished by T0 (and which is not touched
   after T0), in a workflow that stays unfinished: whatever else happens, before the clock passes
   max(now, T0 + delay) + max(period, delay) some check has re-triggered its completion handling. *)
Theorem C20_stuck_task_repaired : forall delay batch T0 t evs c,
  0 <= delay -> live (ch_wf c) = true -> stuck_in batch T0 t (ch_tasks c) ->
  Alive delay c -> Future c -> Forall (admissible batch T0 t) evs ->
  Z.max (ch_clock c) (T0 + delay) + chain_period delay < ch_clock (crun delay batch evs c) ->
  Done t (crun delay batch evs c).
Proof. exact stuck_task_repaired. Qed.
Print Assumptions C20_stuck_task_repaired.

(* non-vacuity: concrete states meeting the hypotheses *)
Definition ex_cfg := mkCfg 20 15 3600 10.
Definition ex_ops :=
  [OCreate 1 (Some true) true; OCreate 2 (Some false) true; OCreate 3 (Some true) false;
   OCreate 4 (Some true) true; OTick 3600; OTick 300; OBeat [4%nat]; OPass; OTick 1; OPass;
   OResult 1 GSuccess; OResult 4 GSuccess; OTick 300; OPass].
Example C20_nonvacuous :
  st_view (run ex_cfg ex_ops (mkSt [] 0 [])) =
    ([1; 3; 3600; 4; 1;  2; 1; 3600; 0; 0;  3; 1; 3600; 0; 0;  4; 2; 3900; 1; 1],
     [1; 4; 3901;  4; 1; 3901]) /\
  integrity_pass 20 5 41 (Some RUNNING)
    [mkT 1 RUNNING 0 (Some 20) [mkC SUCCESS 0 (Some 20)];
     mkT 2 RUNNING 0 (Some 21) [mkC SUCCESS 0 (Some 10); mkC ERROR 0 (Some 21)];
     mkT 3 RUNNING 0 None [mkC SUCCESS 0 (Some 5); mkC RUNNING 0 None];
     mkT 4 SUCCESS 0 (Some 1) [mkC SUCCESS 0 (Some 1)]] = (true, [1%nat]) /\
  Inv (mkSt [] 0 []) /\
  (* a check at 10 finds only a DELAYED task and still re-arms; the task that gets stuck at 60 is repaired at 130 *)
  chain_view (crun 20 5 [CTasks [mkT 1 RUNNING_DELAYED 0 (Some 0) []]; CTick 10; CFire 0;
                         CTasks [mkT 1 SUCCESS 0 (Some 50) [mkC SUCCESS 50 (Some 55)];
                                 mkT 2 RUNNING 55 (Some 55) [mkC SUCCESS 55 (Some 60)]];
                         CTick 120; CFire 0] (chain_start 20 RUNNING 0))
    = ([250], [10; 0; 130; 1; 2]).
Proof.
  split; [vm_compute; reflexivity|]. split; [vm_compute; reflexivity|]. split; [apply inv_empty|].
  vm_compute; reflexivity.
Qed.
