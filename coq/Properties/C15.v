(* Property C15: tenants are isolated.
   Statements about the db-api of the CURRENT source: Gen.DbShapes.db_shapes is regenerated
   from mistral/db/v2/sqlalchemy/api.py on every run; the generic facts about exec_op hold for
   every database, context, argument and call sequence (Proofs/TenancyProofs.v).
   Only theorem statements closed by `exact`/table computation, each followed by Print Assumptions. *)
From Coq Require Import List Bool Arith String Lia.
Require Import Mistral.Model.Tenancy Mistral.Proofs.TenancyProofs Mistral.Gen.DbShapes Mistral.Gen.RestLists.
Import ListNotations.

Definition in_table (s : shape) : Prop := exists n m, In (n, m, s) db_shapes.

(* the helper code (_secure_query, _get_accepted_resources, RESOURCE_MAPPING, check_db_obj_access,
   _set_project_id and its registration, _get_criterion and the member functions) reads as the model assumes *)
Theorem C15_helpers_as_modelled : code_facts = expected_facts.
Proof. vm_compute. reflexivity. Qed.
Print Assumptions C15_helpers_as_modelled.

(* every tenant-facing db-api function on a secure model builds its queries with the tenancy filter
   (_secure_query, or model_query only for admin contexts / an explicit insecure=True of the caller) *)
Theorem C15_table_secure : forall s, in_table s -> shape_secure s = true.
Proof.
  assert (H : forallb (fun e => shape_secure (snd e)) db_shapes = true) by (vm_compute; reflexivity).
  intros s [n [m Hin]]. rewrite forallb_forall in H. exact (H (n, m, s) Hin).
Qed.
Print Assumptions C15_table_secure.

(* PRIVATE DATA IS INVISIBLE AND UNTOUCHABLE.  For every sequence of calls to functions of the table, made by
   non-admin contexts that cannot see r at the start (another project; r private; no accepted share of r names
   the caller - see C15_blind_means) and pass no insecure=True: no result ever mentions r (by id, by name,
   through filters, whatever the arguments, name collisions included) and r is still in its table, unchanged. *)
Theorem C15_private_invisible : forall ops d0 r,
  wf_db d0 -> In r (rows d0) ->
  Forall (fun k : call => let '(s, c, a) := k in
            in_table s /\ c_admin c = false /\ a_insecure a = false /\ visible d0 c r = false) ops ->
  In r (rows (snd (run ops d0))) /\ Forall (silent_about r) (fst (run ops d0)).
Proof.
  intros ops d0 r Hwf Hr Hall. apply private_isolated; try assumption.
  eapply Forall_impl; [|exact Hall]. intros [[s c] a] [Ht H]. split; [apply C15_table_secure; exact Ht|exact H].
Qed.
Print Assumptions C15_private_invisible.

Theorem C15_blind_means : forall d c r,
  visible d c r = false <->
  r_owner r <> c_project c /\ r_scope r = Private /\
  (forall t m, res_type (r_model r) = Some t -> In m (mems d) ->
     m_res m = r_id r -> m_type m = t -> m_member m = c_project c -> m_status m <> Accepted).
Proof. exact blind_characterised. Qed.
Print Assumptions C15_blind_means.

(* generic part: calls through shapes whose mutation
   is dominated by check_db_obj_access (and reads, creates), by non-admin projects other than the owner, never
   change or remove the row, whether they can see it or not. *)
Theorem C15_guarded_writes_preserve : forall ops d r,
  wf_db d -> In r (rows d) ->
  Forall (fun k : call => let '(s, c, a) := k in
            shape_guarded s = true /\ c_admin c = false /\ c_project c <> r_owner r) ops ->
  In r (rows (snd (run ops d))).
Proof. exact guarded_preserves_foreign. Qed.
Print Assumptions C15_guarded_writes_preserve.

(* after the repair of F2 every writing function of the table is guarded (check_db_obj_access, the owner test,
   or a query over the caller's own rows) ... *)
Theorem C15_table_guarded : forall s, in_table s -> shape_guarded s = true.
Proof.
  assert (H : forallb (fun e => shape_guarded (snd e)) db_shapes = true) by (vm_compute; reflexivity).
  intros s [n [m Hin]]. rewrite forallb_forall in H. exact (H (n, m, s) Hin).
Qed.
Print Assumptions C15_table_guarded.

(* ... hence PUBLIC AND SHARED RESOURCES ARE READ-ONLY FOR OTHERS, unconditionally: no sequence of calls to functions
   of the table by non-admin projects other than the owner - whatever they can see, read or address, name
   collisions included - changes or removes the row. *)
Theorem C15_public_readonly_for_others : forall ops d r,
  wf_db d -> In r (rows d) ->
  Forall (fun k : call => let '(s, c, a) := k in
            in_table s /\ c_admin c = false /\ c_project c <> r_owner r) ops ->
  In r (rows (snd (run ops d))).
Proof.
  intros ops d r Hwf Hr Hall. apply guarded_preserves_foreign; try assumption.
  eapply Forall_impl; [|exact Hall]. intros [[s c] a] [Ht H]. split; [apply C15_table_guarded; exact Ht|exact H].
Qed.
Print Assumptions C15_public_readonly_for_others.

Theorem C15_no_exposed_writer : forall s, in_table s -> shape_exposed s = false.
Proof.
  intros s Ht. destruct (shape_exposed s) eqn:E; [|reflexivity].
  destruct (exposed_not_guarded s E) as [_ Hg]. rewrite (C15_table_guarded s Ht) in Hg. discriminate.
Qed.
Print Assumptions C15_no_exposed_writer.

(* the guards the design names (db api update/delete_workflow_definition, update_workflow_execution,
   delete_cron_trigger, and the create_or_update wrappers of the first two) are present in the current source *)
Definition anchored_guarded : list string :=
  ["update_workflow_definition"; "delete_workflow_definition"; "create_or_update_workflow_definition";
   "update_workflow_execution"; "create_or_update_workflow_execution"; "delete_cron_trigger"]%string.

Theorem C15_anchored_guards : forall n, In n anchored_guarded ->
  exists m s, In (n, m, s) db_shapes /\ is_write s = true /\ shape_guarded s = true.
Proof.
  assert (H : forallb (fun n => existsb (fun e => String.eqb (fst (fst e)) n && is_write (snd e) && shape_guarded (snd e))
                                        db_shapes) anchored_guarded = true) by (vm_compute; reflexivity).
  intros n Hn. rewrite forallb_forall in H. specialize (H n Hn). apply existsb_exists in H.
  destruct H as [[[n' m] s] [Hin Hp]]. cbn [fst snd] in Hp. apply andb_true_iff in Hp. destruct Hp as [Hp Hg].
  apply andb_true_iff in Hp. destruct Hp as [Hn' Hw]. apply String.eqb_eq in Hn'. subst n'.
  exists m, s. repeat split; assumption.
Qed.
Print Assumptions C15_anchored_guards.

Definition public_overwritten (s : shape) : Prop :=
  exists d c a r, wf_db d /\ In r (rows d) /\ r_scope r = Public /\ c_admin c = false /\
                  c_project c <> r_owner r /\ find_row (r_id r) (snd (exec_op s d c a)) <> Some r.

(* ... and it is exactly the guard that matters: EVERY writing function of the table that has neither
   check_db_obj_access nor an own-rows-only query lets a foreign non-admin project change or delete another
   project's public row. *)
Theorem C15_unguarded_write_violates : forall s,
  in_table s -> shape_exposed s = true -> public_overwritten s.
Proof.
  intros s [n [m _]] Hg. destruct (wit_facts m) as [H1 [H2 [H3 [H4 [H5 H6]]]]].
  exists (wit_d m), wit_c, (wit_a m), (wit_r m). repeat split; try assumption.
  rewrite H6. apply unguarded_violates; assumption.
Qed.
Print Assumptions C15_unguarded_write_violates.

(* whatever the table is: either some function is exposed and the property is violated through it, or no
   function is exposed (harness prints which case the current source is in: coverage.table.unguarded_writes) *)
Theorem C15_public_readonly_decided :
  (exists n m s, In (n, m, s) db_shapes /\ shape_exposed s = true /\ public_overwritten s) \/
  (forall s, in_table s -> shape_exposed s = false).
Proof.
  destruct (existsb (fun e => shape_exposed (snd e)) db_shapes) eqn:E.
  - left. apply existsb_exists in E. destruct E as [[[n m] s] [Hin Hp]]. cbn [snd] in Hp.
    exists n, m, s. repeat split; try assumption. apply C15_unguarded_write_violates; [exists n, m; exact Hin|exact Hp].
  - right. intros s [n [m Hin]]. destruct (shape_exposed s) eqn:F; [|reflexivity].
    assert (existsb (fun e => shape_exposed (snd e)) db_shapes = true) as X
      by (apply existsb_exists; exists (n, m, s); split; [exact Hin|exact F]).
    rewrite X in E. discriminate.
Qed.
Print Assumptions C15_public_readonly_decided.

(* NEW RESOURCES BELONG TO THE CALLER - conditional part: through shapes of hooked model classes, over any
   call sequence, a row of the final table either kept the owner it had at the start or belongs to the
   project of one of the callers (whatever project_id the callers supplied). *)
Theorem C15_owner_forced : forall ops d x,
  Forall (fun k : call => shape_forced (fst (fst k)) = true) ops ->
  In x (rows (snd (run ops d))) ->
  (exists x0, In x0 (rows d) /\ r_id x0 = r_id x /\ r_owner x0 = r_owner x) \/
  (exists k, In k ops /\ r_owner x = c_project (snd (fst k))).
Proof. exact owner_forced_history. Qed.
Print Assumptions C15_owner_forced.

(* MEMBERSHIP: pending and rejected offers grant nothing *)
Theorem C15_only_accepted_shares_count : forall d c r, visible (accepted_only d) c r = visible d c r.
Proof. exact visible_accepted_only. Qed.
Print Assumptions C15_only_accepted_shares_count.

(* only the member can change an offer's status, only the project that made an offer can delete it,
   no member function touches a resource row *)
Theorem C15_member_rows_stable : forall o d c g m,
  In m (mems d) ->
  (o = MUpdate -> m_member m <> c_project c) ->
  (o = MDelete -> m_owner m <> c_project c) ->
  In m (mems (snd (mem_exec o d c g))) /\ rows (snd (mem_exec o d c g)) = rows d.
Proof. intros. split; [apply mem_row_stable; assumption|apply mem_exec_rows]. Qed.
Print Assumptions C15_member_rows_stable.

Theorem C15_member_reads_own : forall o d c g m,
  (o = MGet \/ o = MList) -> In m (mresult_rows (fst (mem_exec o d c g))) ->
  m_owner m = c_project c \/ m_member m = c_project c.
Proof. exact mem_reads_own. Qed.
Print Assumptions C15_member_reads_own.

(* ---- REST list layer --------------------------------------------------------------------------------- *)

(* rest_utils.get_all, the policy base rules and access_control.enforce read as the model assumes; no call inside
   mistral/api or mistral/expressions passes an `insecure` keyword to the db layer *)
Theorem C15_rest_helpers_as_modelled : rest_facts = expected_rest_facts /\ surface_insecure_sites = [].
Proof. split; vm_compute; reflexivity. Qed.
Print Assumptions C15_rest_helpers_as_modelled.

(* every list endpoint lists through a tenant-facing db-api function of the shape table *)
Theorem C15_rest_lists_in_table : forall n ep, In (n, ep) rest_lists ->
  exists q, In (le_fn ep, le_model ep, SList q) db_shapes /\ q_secure q = true.
Proof.
  assert (H : forallb (fun e : string * list_ep =>
                existsb (fun t => String.eqb (fst (fst t)) (le_fn (snd e)) && model_eqb (snd (fst t)) (le_model (snd e)) &&
                                  match snd t with SList q => q_secure q | _ => false end) db_shapes) rest_lists = true)
    by (vm_compute; reflexivity).
  intros n ep Hin. rewrite forallb_forall in H. specialize (H (n, ep) Hin). cbn [snd] in H.
  apply existsb_exists in H. destruct H as [[[fn m] s] [Ht Hp]]. cbn [fst snd] in Hp.
  apply andb_true_iff in Hp. destruct Hp as [Hp Hs]. apply andb_true_iff in Hp. destruct Hp as [Hn Hm].
  apply String.eqb_eq in Hn. subst fn. destruct s; try discriminate. exists q. split; [|exact Hs].
  assert (m = le_model ep) by (destruct m, (le_model ep); try discriminate; reflexivity). subst m. exact Ht.
Qed.
Print Assumptions C15_rest_lists_in_table.

(* LISTS ONLY SHOW WHAT THE CALLER MAY SEE.  For every list endpoint of the current source, every database, every
   non-admin caller and every request (all_projects, a project_id filter naming ANY project, a name filter): either the
   request is refused, or every listed row is the caller's own, public, or shared with the caller through an
   accepted membership.  The `insecure` decision of rest_utils.get_all and the policy gates of the controllers
   are the generated insecure_cond / rest_lists. *)
Theorem C15_rest_lists_isolated : forall n ep q d c r l x,
  In (n, ep) rest_lists -> In (le_fn ep, le_model ep, SList q) db_shapes ->
  c_admin c = false -> rest_list insecure_cond ep q d c r = LOk l -> In x l ->
  In x (rows d) /\ visible d c x = true.
Proof.
  assert (H : forallb (fun e : string * list_ep => ep_safe insecure_cond (snd e)) rest_lists = true)
    by (vm_compute; reflexivity).
  intros n ep q d c r l x Hin Ht Hc Hl Hx. rewrite forallb_forall in H. specialize (H (n, ep) Hin). cbn [snd] in H.
  assert (Hq : q_secure q = true).
  { pose proof (C15_table_secure (SList q)) as Hs. apply Hs. exists (le_fn ep), (le_model ep). exact Ht. }
  eapply rest_list_isolated; eassumption.
Qed.
Print Assumptions C15_rest_lists_isolated.

(* the gates matter: an endpoint for which some non-admin request passes the gates with insecure = True lists a
   private row of another project (generic: whatever insecure_cond and the endpoint are) *)
Theorem C15_rest_unsafe_endpoint_leaks : forall ic ep,
  ep_safe ic ep = false ->
  exists r, rest_list ic ep QAdminArg (leak_d (le_model ep)) (mkCtx 2 false) r
            = LOk [mkRes 7 (le_model ep) 1 Private 7 0 5 false].
Proof. intros ic ep H. apply rest_unsafe_leaks; [exact H|reflexivity]. Qed.
Print Assumptions C15_rest_unsafe_endpoint_leaks.

(* non-vacuity: the hypotheses of the positive theorems are met by concrete table entries and states *)
Example C15_nonvacuous :
  in_table (SUpdate (mkFetch QAdmin SelNameNsOrId) GAccess true) /\
  shape_guarded (SUpdate (mkFetch QAdmin SelNameNsOrId) GAccess true) = true /\
  (let d := mkDb [mkRes 1 Environment 1 Private 5 0 0 false; mkRes 2 Environment 2 Private 5 0 0 false] [] in
   wf_db d /\ visible d (mkCtx 2 false) (mkRes 1 Environment 1 Private 5 0 0 false) = false /\
   fst (exec_op (SGet (mkFetch QSecure SelName)) d (mkCtx 2 false)
          (mkArgs Environment 5 None false 0 None None 0 0 0 Private 0 None None None))
     = RRow (mkRes 2 Environment 2 Private 5 0 0 false)) /\
  List.length db_shapes > 80.
Proof.
  split; [exists "update_workflow_definition"%string, WorkflowDefinition; vm_compute; tauto|].
  split; [reflexivity|]. split; [|vm_compute; lia].
  split; [unfold wf_db; cbn; repeat constructor; cbn; intuition discriminate|]. split; reflexivity.
Qed.

(* ==== DEFECTS OF THE CURRENT TREE (each theorem below states that the faithful model violates the property
   text; when the defect is repaired in the source the theorem stops being provable and must be removed).
   F2 (public rows writable by other projects) was repaired in /repo by 11fed235: its refutation is gone and
   C15_table_guarded / C15_public_readonly_for_others above now hold unconditionally. ==== *)

(* DEFECT F9: a secure model class defined after mb.register_secure_model_hooks() has no hook; its create /
   update functions store a caller-supplied project_id as given. *)
Theorem C15_owner_forced_refuted :
  exists n m s, In (n, m, s) db_shapes /\ shape_forced s = false /\ stolen s m.
Proof.
  destruct (find (fun e => negb (shape_forced (snd e))) db_shapes) as [[[n m] s]|] eqn:E;
    [|vm_compute in E; discriminate].
  apply find_some in E. destruct E as [Hin Hp]. cbn [snd] in Hp. apply negb_true_iff in Hp.
  exists n, m, s. repeat split; try assumption. apply unforced_violates. exact Hp.
Qed.
Print Assumptions C15_owner_forced_refuted.

(* F7 at the DB-API LEVEL (still true after 855c3b2d): create_resource_member does not require the caller to own the
   resource and _get_accepted_resources does not require the offer to come from the owner, so at this level an
   accepted member can re-share.  The repair 855c3b2d is in the REST controller (MembersController.post refuses a
   caller who is not the owner), the only tenant-reachable caller of create_resource_member; that path is checked by
   the implementation-side oracle of suite `rest` (regression: the re-offer must be refused, signature
   reshare-by-member).  Kept as a statement about the db layer, not as an open defect. *)
Theorem C15_db_level_reshare_possible :
  exists d0 cB cC g1 g2 r,
    In r (rows d0) /\ r_scope r = Private /\ c_admin cB = false /\ c_admin cC = false /\
    c_project cB <> r_owner r /\ c_project cC <> r_owner r /\
    visible d0 cC r = false /\
    let d2 := snd (mem_exec MUpdate (snd (mem_exec MCreate d0 cB g1)) cC g2) in
    visible d2 cC r = true /\
    (forall m, In m (mems d2) -> m_member m = c_project cC -> m_owner m <> r_owner r).
Proof.
  exists rs_d0, (mkCtx 2 false), (mkCtx 3 false), (mkMargs 7 0 3 None Pending), (mkMargs 7 0 3 None Accepted), rs_r.
  destruct reshare_witness as [H1 [H2 [H3 _]]].
  repeat split; try (cbn; discriminate); try assumption. left. reflexivity.
Qed.
Print Assumptions C15_db_level_reshare_possible.

(* ---- process-wide in-memory stores (Gen/TenantCaches.v, Model/TenantCache.v) ------------------------------ *)
Require Import Mistral.Model.TenantCache Mistral.Proofs.TenantCacheProofs Mistral.Gen.TenantCaches.

(* every in-memory store of the current source that holds tenant-owned content is keyed by something unique across
   projects (a row id, or a name together with the owning project), or is a multimap whose consumer keeps
   own-or-public entries only *)
Theorem C15_tenant_stores_keyed_across_projects : forall n s, In (n, s) tenant_stores -> store_ok s = true.
Proof.
  assert (H : forallb (fun e => store_ok (snd e)) tenant_stores = true) by (vm_compute; reflexivity).
  intros n s Hin. rewrite forallb_forall in H. exact (H (n, s) Hin).
Qed.
Print Assumptions C15_tenant_stores_keyed_across_projects.

(* NAME COLLISIONS DO NOT CROSS PROJECTS THROUGH A SHARED STORE.  For every slot store of the current source and every
   sequence of creates / updates (version bumps) / deletes and re-creates under a fresh id / uses by any projects,
   a project using its resource by name through the store is served content written by that project. *)
Theorem C15_shared_stores_isolated : forall n kind ops k p nm a d,
  In (n, SlotStore kind) tenant_stores ->
  nth_error ops k = Some (TUse p nm) ->
  nth_error (fst (trun kind ops empty_state)) k = Some (Some (a, d)) -> a = p.
Proof.
  intros n kind ops k p nm a d Hin. apply shared_store_isolated_from_empty.
  exact (C15_tenant_stores_keyed_across_projects n (SlotStore kind) Hin).
Qed.
Print Assumptions C15_shared_stores_isolated.

(* a key that is not unique across projects leaks: two projects, same name, the second is served the first one's content *)
Theorem C15_name_keyed_store_leaks : forall kind, key_cross_unique kind = false ->
  nth_error (fst (trun kind collide_ops empty_state)) 3 = Some (Some (1, 100)).
Proof. exact name_key_leaks. Qed.
Print Assumptions C15_name_keyed_store_leaks.

Theorem C15_filtered_multimap_own_or_public : forall p entries e,
  In e (multi_lookup p entries) -> In e entries /\ (fst (fst e) = p \/ snd (fst e) = true).
Proof. exact multi_lookup_own_or_public. Qed.
Print Assumptions C15_filtered_multimap_own_or_public.

(* the action providers and the spec parser read tenant content only through the filtered db-api functions *)
Theorem C15_providers_read_through_filtered_queries : provider_insecure_lookups = [].
Proof. reflexivity. Qed.
Print Assumptions C15_providers_read_through_filtered_queries.
