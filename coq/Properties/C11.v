(* Property C11: stop and cancel end the execution; late results change nothing.
   Proved (control-flow core model, one workflow execution): stop holds the requested state,
   no task is created in a stopped workflow, late results / timers / duplicates do not change
   its state.  NOT in the model: the sub-workflow tree clauses ("every unfinished sub-workflow
   below a cancelled workflow becomes CANCELLED together with its parent task", "reported to
   its parent exactly once") - decided by the C09/C11 trace oracles only. *)
From Coq Require Import List Bool.
Require Import Mistral.Gen.States Mistral.Model.Engine.
Require Import Mistral.Proofs.StatesProofs Mistral.Proofs.EngineWf Mistral.Proofs.EngineSafety Mistral.Proofs.EngineMore.
Require Import Mistral.Gen.WfGuards Mistral.Proofs.WfGuardProofs.
Import ListNotations.

Theorem C11_stop_holds_requested_state : forall sp s x,
  wf_created s = true -> (x = SUCCESS \/ x = ERROR \/ x = CANCELLED) ->
  let r := step sp s (EStop x) in
  (snd r = Ok /\ (wf_state (fst r) = x \/ (is_completed (wf_state s) = true /\ wf_state (fst r) = wf_state s)))
  \/ (snd r = Declared /\ fst r = s).
Proof. exact stop_holds_state. Qed.
Print Assumptions C11_stop_holds_requested_state.

Theorem C11_no_creation_after_stop : forall sp s e,
  wf_created s = true -> is_completed (wf_state s) = true -> is_rerun e = false ->
  ntasks (fst (step sp s e)) = ntasks s.
Proof. exact completed_no_task_creation. Qed.
Print Assumptions C11_no_creation_after_stop.

Theorem C11_no_creation_after_stop_history : forall sp evs s,
  wf_created s = true -> live_wf_state (wf_state s) = true -> quiet s = true ->
  forallb no_restart evs = true -> ntasks (steps sp s evs) = ntasks s.
Proof. exact quiet_run_no_creation. Qed.
Print Assumptions C11_no_creation_after_stop_history.

Theorem C11_late_results_inert : forall sp s e,
  wf_created s = true -> is_completed (wf_state s) = true -> is_rerun e = false ->
  live_wf_state (wf_state s) = true ->
  wf_state (fst (step sp s e)) = wf_state s.
Proof. exact completed_state_frozen. Qed.
Print Assumptions C11_late_results_inert.

Theorem C11_final_state_held_over_history : forall sp s evs,
  wf_created s = true -> (wf_state s = ERROR \/ wf_state s = CANCELLED) ->
  forallb (fun e => negb (is_rerun e)) evs = true ->
  wf_state (steps sp s evs) = wf_state s.
Proof. exact failed_stays. Qed.
Print Assumptions C11_final_state_held_over_history.

Example C11_nonvacuous :
  let sp := [mkTspec JNone [(TTask 1, GTrue)] [] [] [] [OOk]; mkTspec JNone [] [] [] [] [OOk]] in
  let s := run sp [] [EStart; EFirePtq 0; EFire (IStartTask 0 true false false); EFirePtq 0; EFire (IExec 0); EPause; EStop ERROR] in
  wf_created s = true /\ wf_state s = ERROR /\
  wf_state (steps sp s [EFire (IResult 0 OOk); EFirePtq 0; EResume; EPause]) = ERROR /\
  ntasks (steps sp s [EFire (IResult 0 OOk); EFirePtq 0]) = ntasks s.
Proof. vm_compute. repeat split. Qed.

(* a finished workflow is never completed again: the completion methods of the source (their guards
   translated on every run, Gen/WfGuards.v) return before set_state or are refused - state info,
   output, completion triggers and the result for the parent are produced at most once *)
Theorem C11_finished_never_completed_again : forall s,
  is_completed (wf_state s) = true ->
  fail_workflow_src s = Some s /\ cancel_workflow_src s = Some s /\
  (succeed_workflow_src s = Some s \/ succeed_workflow_src s = None).
Proof. exact finished_never_completed_again. Qed.
Print Assumptions C11_finished_never_completed_again.

Theorem C11_completion_methods_as_modelled : forall s,
  fail_workflow_src s = fail_workflow s /\ cancel_workflow_src s = cancel_workflow s /\
  succeed_workflow_src s = succeed_workflow s.
Proof. exact completion_methods_as_modelled. Qed.
Print Assumptions C11_completion_methods_as_modelled.

Theorem C11_stop_on_finished_changes_nothing : forall s x s1,
  is_completed (wf_state s) = true -> stop_workflow s x = Some s1 -> s1 = s.
Proof. exact stop_on_finished_changes_nothing. Qed.
Print Assumptions C11_stop_on_finished_changes_nothing.
