(* Property C11: stop and cancel end the execution; late results change nothing.
   Proved (control-flow core model, one workflow execution): stop holds the requested state,
   no task is created in a stopped workflow, late results / timers / duplicates do not change
   its state.  The sub-workflow tree clauses ("every unfinished sub-workflow below a cancelled
   workflow becomes CANCELLED together with its parent task", "reported to its parent exactly
   once") are proved over the execution-tree model Model/StopTree.v (module Tree below): for every
   tree, every execution, every state, by induction over the tree; the model is tied to the engine
   by harness/engine_stoptree.py. *)
From Coq Require Import List Bool.
Require Import Mistral.Gen.States Mistral.Model.Engine.
Require Import Mistral.Proofs.StatesProofs Mistral.Proofs.EngineWf Mistral.Proofs.EngineSafety Mistral.Proofs.EngineMore.
Require Import Mistral.Gen.WfGuards Mistral.Proofs.WfGuardProofs.
Require Mistral.Model.StopTree Mistral.Proofs.StopTreeProofs.
Import ListNotations.

Theorem C11_stop_holds_requested_state : forall sp s x,
  wf_created s = true -> (x = SUCCESS \/ x = ERROR \/ x = CANCELLED) ->
  let r := step sp s (EStop x) in
  (snd r = Ok /\ (wf_state (fst r) = x \/ (is_completed (wf_state s) = true /\ wf_state (fst r) = wf_state s)))
  \/ (snd r = Declared /\ fst r = s).
Proof. exact stop_holds_state. Qed.
Print Assumptions C11_stop_holds_requested_state.

Theorem C11_no_creation_after_stop : forall sp s e,
  wf_created s = true -> is_completed (wf_state s) = true -> is_rerun e = false ->
  ntasks (fst (step sp s e)) = ntasks s.
Proof. exact completed_no_task_creation. Qed.
Print Assumptions C11_no_creation_after_stop.

Theorem C11_no_creation_after_stop_history : forall sp evs s,
  wf_created s = true -> live_wf_state (wf_state s) = true -> quiet s = true ->
  forallb no_restart evs = true -> ntasks (steps sp s evs) = ntasks s.
Proof. exact quiet_run_no_creation. Qed.
Print Assumptions C11_no_creation_after_stop_history.

Theorem C11_late_results_inert : forall sp s e,
  wf_created s = true -> is_completed (wf_state s) = true -> is_rerun e = false ->
  live_wf_state (wf_state s) = true ->
  wf_state (fst (step sp s e)) = wf_state s.
Proof. exact completed_state_frozen. Qed.
Print Assumptions C11_late_results_inert.

Theorem C11_final_state_held_over_history : forall sp s evs,
  wf_created s = true -> (wf_state s = ERROR \/ wf_state s = CANCELLED) ->
  forallb (fun e => negb (is_rerun e)) evs = true ->
  wf_state (steps sp s evs) = wf_state s.
Proof. exact failed_stays. Qed.
Print Assumptions C11_final_state_held_over_history.

Example C11_nonvacuous :
  let sp := [mkTspec JNone [(TTask 1, GTrue)] [] [] [] [OOk]; mkTspec JNone [] [] [] [] [OOk]] in
  let s := run sp [] [EStart; EFirePtq 0; EFire (IStartTask 0 true false false); EFirePtq 0; EFire (IExec 0); EPause; EStop ERROR] in
  wf_created s = true /\ wf_state s = ERROR /\
  wf_state (steps sp s [EFire (IResult 0 OOk); EFirePtq 0; EResume; EPause]) = ERROR /\
  ntasks (steps sp s [EFire (IResult 0 OOk); EFirePtq 0]) = ntasks s.
Proof. vm_compute. repeat split. Qed.

(* a finished workflow is never completed again: the completion methods of the source (their guards
   translated on every run, Gen/WfGuards.v) return before set_state or are refused - state info,
   output, completion triggers and the result for the parent are produced at most once *)
Theorem C11_finished_never_completed_again : forall s,
  is_completed (wf_state s) = true ->
  fail_workflow_src s = Some s /\ cancel_workflow_src s = Some s /\
  (succeed_workflow_src s = Some s \/ succeed_workflow_src s = None).
Proof. exact finished_never_completed_again. Qed.
Print Assumptions C11_finished_never_completed_again.

Theorem C11_completion_methods_as_modelled : forall s,
  fail_workflow_src s = fail_workflow s /\ cancel_workflow_src s = cancel_workflow s /\
  succeed_workflow_src s = succeed_workflow s.
Proof. exact completion_methods_as_modelled. Qed.
Print Assumptions C11_completion_methods_as_modelled.

Theorem C11_stop_on_finished_changes_nothing : forall s x s1,
  is_completed (wf_state s) = true -> stop_workflow s x = Some s1 -> s1 = s.
Proof. exact stop_on_finished_changes_nothing. Qed.
Print Assumptions C11_stop_on_finished_changes_nothing.

(* ====================================================================== *)
(* stop / cancel over the execution tree (Model/StopTree.v)                 *)
Module Tree.
Import Mistral.Model.StopTree Mistral.Proofs.StopTreeProofs.

(* closed form of the cancel walk for EVERY tree (any depth, any shape, any states): every unfinished execution of
   the subtree becomes (CANCELLED, message) and - being a sub-workflow - sends one result; finished ones keep their row *)
Theorem C11_cancel_closed_form : forall m n c, rows c (cancel c m n) = map (cancel_row m) (rows c n).
Proof. exact cancel_rows. Qed.
Print Assumptions C11_cancel_closed_form.

Theorem C11_cancel_reaches_every_unfinished_descendant : forall m n c,
  Forall2 (fun r r' => r_child r' = r_child r /\
                       (r_fin r = true -> r' = r) /\
                       (r_fin r = false -> r_state r' = CANCELLED /\ r_info r' = m /\
                                           r_sent r' = if r_child r then S (r_sent r) else r_sent r))
          (rows c n) (rows c (cancel c m n)).
Proof. exact cancel_unfinished_cancelled. Qed.
Print Assumptions C11_cancel_reaches_every_unfinished_descendant.

Theorem C11_after_cancel_every_execution_finished : forall m n c, forallb r_fin (rows c (cancel c m n)) = true.
Proof. exact cancel_all_finished. Qed.
Print Assumptions C11_after_cancel_every_execution_finished.

(* the cancel walk creates nothing and changes no task *)
Theorem C11_cancel_creates_nothing : forall m n c, skeleton (cancel c m n) = skeleton n.
Proof. exact cancel_skeleton. Qed.
Print Assumptions C11_cancel_creates_nothing.

(* the parent task of a sub-workflow reached by the cancel is CANCELLED once that result is processed (Plain and
   with-items parents), unless the task had finished before *)
Theorem C11_cancelled_child_cancels_parent_task : forall m s k subs c,
  is_completed s = false -> In c subs -> finished c = false -> (k = Plain -> subs = [c]) ->
  let subs' := map (cancel true m) subs in
  fst (fst (deliver_task (s, k, subs'))) = CANCELLED.
Proof. exact cancelled_child_cancels_parent_task. Qed.
Print Assumptions C11_cancelled_child_cancels_parent_task.

(* hand-offs in ANY order (any list of addresses, repetitions included) end in the same fully delivered tree *)
Theorem C11_handoffs_in_any_order : forall ps n,
  deliver_all (fold_left (fun t p => fst (deliver_at p t)) ps n) = deliver_all n.
Proof. exact deliveries_any_order. Qed.
Print Assumptions C11_handoffs_in_any_order.

(* a finished child is accepted once: a second hand-off of the same result changes nothing *)
Theorem C11_second_handoff_changes_nothing : forall p n n', deliver_path p n = Some n' -> deliver_path p n' = Some n'.
Proof. exact deliver_twice. Qed.
Print Assumptions C11_second_handoff_changes_nothing.

Theorem C11_finished_parent_task_ignores_result : forall s k subs, is_completed s = true -> deliver_task (s, k, subs) = (s, k, subs).
Proof. exact deliver_finished_task_unchanged. Qed.
Print Assumptions C11_finished_parent_task_ignores_result.

(* reported exactly once: over ANY sequence of stop / cancel / pause / resume requests on any executions and
   hand-offs, a sub-workflow has sent exactly one result iff it is finished, none otherwise *)
Theorem C11_reported_exactly_once : forall ops n,
  forallb sent_right (rows false n) = true -> forallb sent_right (rows false (fold_left apply_op ops n)) = true.
Proof. exact reported_exactly_once. Qed.
Print Assumptions C11_reported_exactly_once.

(* a finished execution never changes again (state, message, results sent), whatever requests follow *)
Theorem C11_finished_execution_never_changes : forall ops n,
  Forall2 (fun r r' => r_fin r = true -> r' = r) (rows false n) (rows false (fold_left apply_op ops n)).
Proof. exact finished_rows_never_change. Qed.
Print Assumptions C11_finished_execution_never_changes.

Theorem C11_nothing_changes_below_a_cancelled_root : forall m n ops,
  rows false (fold_left apply_op ops (cancel false m n)) = rows false (cancel false m n).
Proof. exact nothing_changes_after_cancel. Qed.
Print Assumptions C11_nothing_changes_below_a_cancelled_root.

(* a forced stop holds the requested state with the message, or is refused with a declared error changing nothing;
   SUCCESS / ERROR touch that one row only *)
Theorem C11_tree_stop_holds_requested_state : forall c s m n,
  (s = SUCCESS \/ s = ERROR \/ s = CANCELLED) ->
  let r := stop_node c s m n in
  (snd r = Ok /\ ((nstate (fst r) = s /\ (finished n = false -> ninfo (fst r) = m)) \/
                  (finished n = true /\ nstate (fst r) = nstate n /\ ninfo (fst r) = ninfo n)))
  \/ (snd r = Declared /\ fst r = n).
Proof. exact stop_holds_state. Qed.
Print Assumptions C11_tree_stop_holds_requested_state.

Theorem C11_forced_stop_touches_one_row : forall c s m st info sent ts,
  (s = SUCCESS \/ s = ERROR) -> ntasks (fst (stop_node c s m (mkN st info sent ts))) = ts.
Proof. exact forced_stop_touches_one_row. Qed.
Print Assumptions C11_forced_stop_touches_one_row.

(* no stop / cancel / pause / resume request, no upward report and no hand-off creates a task or an execution,
   anywhere in the tree, over any sequence of them *)
Theorem C11_requests_create_nothing : forall ops n, tshape (fold_left apply_op ops n) = tshape n.
Proof. exact requests_create_nothing. Qed.
Print Assumptions C11_requests_create_nothing.

(* the late start: a sub-workflow whose start request was on its way when its parent workflow was cancelled is
   CANCELLED with the parent's message, owns no task, has reported once; it never gets a task, never changes and
   never reports again whatever follows; its result cancels the parent task *)
Theorem C11_late_sub_workflow_is_cancelled_and_empty : forall parent,
  nstate parent = CANCELLED -> new_child parent = mkN CANCELLED (ninfo parent) 1 [].
Proof. exact late_child_is_cancelled_and_empty. Qed.
Print Assumptions C11_late_sub_workflow_is_cancelled_and_empty.

Theorem C11_nothing_below_a_cancelled_workflow_gets_a_task : forall parent ops,
  nstate parent = CANCELLED ->
  ntasks (fold_left apply_op ops (new_child parent)) = [] /\
  rows false (fold_left apply_op ops (new_child parent)) = rows false (new_child parent).
Proof. exact late_child_stays_empty. Qed.
Print Assumptions C11_nothing_below_a_cancelled_workflow_gets_a_task.

Theorem C11_late_sub_workflow_cancels_parent_task : forall parent s,
  nstate parent = CANCELLED -> is_completed s = false ->
  deliver_task (s, Plain, [new_child parent]) = (CANCELLED, Plain, [new_child parent]).
Proof. exact late_child_cancels_parent_task. Qed.
Print Assumptions C11_late_sub_workflow_cancels_parent_task.

(* non-vacuity: root RUNNING with a PAUSED Plain task over a PAUSED sub-workflow (the seeded case: cancel after
   pause), whose with-items task owns a finished (ERROR, stopped by force) execution with a RUNNING one below it
   and a RUNNING one; cancel reaches all of them; hand-offs in two orders give the same tree *)
Example C11_tree_nonvacuous :
  let leaf := mkN RUNNING 0 0 [(RUNNING, Plain, [])] in
  let forced := mkN ERROR 7 1 [(RUNNING, Plain, [leaf])] in
  let mid := mkN PAUSED 0 0 [(PAUSED, Items, [forced; leaf])] in
  let root := mkN RUNNING 0 0 [(PAUSED, Plain, [mid]); (SUCCESS, Plain, [])] in
  let r := stop_at CANCELLED 3 [] root in
  snd r = Ok /\
  map (fun x : row => (snd (fst (fst x)), snd x)) (rows false (fst r)) =
    [(CANCELLED, 0); (CANCELLED, 1); (ERROR, 1); (CANCELLED, 1); (CANCELLED, 1)] /\
  fst (deliver_at [(0, 0)] (fst (deliver_at [(0, 0); (0, 1)] (fst r)))) =
  fst (deliver_at [(0, 0); (0, 1)] (fst (deliver_at [(0, 0)] (fst r)))) /\
  nstate (fst (stop_at SUCCESS 4 [(0, 0)] root)) = RUNNING /\ snd (stop_at SUCCESS 4 [(0, 0)] root) = Declared /\
  snd (stop_at ERROR 4 [(0, 0)] root) = Ok /\
  (* a sub-workflow of the second task of the root starts after the cancel / while the root still runs *)
  nth_error (ntasks (fst (start_child_at [] 1 1 (fst r)))) 1 = Some (SUCCESS, Plain, [mkN CANCELLED 3 1 []]) /\
  nth_error (ntasks (fst (start_child_at [] 1 1 root))) 1 = Some (SUCCESS, Plain, [mkN RUNNING 0 0 []]).
Proof. vm_compute. repeat split. Qed.
End Tree.
