(* Property C03: execution lifecycle is respected and finished results are final.
   Only statements closed by `exact`, each followed by Print Assumptions.
   Gen.States is regenerated from mistral/workflow/states.py on every run. *)
From Coq Require Import List Bool.
Require Import Mistral.Gen.States Mistral.Model.Engine.
Require Import Mistral.Proofs.StatesProofs Mistral.Proofs.EngineWf Mistral.Proofs.EngineSafety Mistral.Proofs.EngineMore.
Require Import Mistral.Gen.WfGuards Mistral.Proofs.WfGuardProofs.
Import ListNotations.

(* --- facts about the translated transition table --- *)
Theorem C03_table_success_terminal : forall b, valid SUCCESS b = true -> b = SUCCESS.
Proof. exact success_is_terminal. Qed.
Print Assumptions C03_table_success_terminal.

Theorem C03_table_wf_moves_exact : forall a b,
  is_wf_state a = true -> is_wf_state b = true -> state_eqb a b = false ->
  valid a b = (documented_wf_move a b || undocumented_idle_move a b).
Proof. exact wf_moves_exact. Qed.
Print Assumptions C03_table_wf_moves_exact.

Theorem C03_table_failed_only_to_running : forall a b,
  (a = ERROR \/ a = CANCELLED) -> is_wf_state b = true -> valid a b = true -> b = a \/ b = RUNNING.
Proof. exact leave_error_only_by_rerun. Qed.
Print Assumptions C03_table_failed_only_to_running.

(* --- the engine model: every event, every program, every state --- *)
(* every compare-and-swap of the workflow state performed by one event is an edge of the table,
   towards ERROR/SUCCESS/CANCELLED/PAUSED, or towards RUNNING only at the start of resume
   (from PAUSED/IDLE) and of rerun/skip *)
Theorem C03_step_moves_are_table_edges : forall sp s e,
  wf_created s = true -> reach (step_move e) (wf_state s) (wf_state (fst (step sp s e))).
Proof. exact step_wf_moves. Qed.
Print Assumptions C03_step_moves_are_table_edges.

(* in every reachable state every event moves the workflow only along the DOCUMENTED edges
   (IDLE -> ERROR/CANCELLED of the table are unreachable: a created workflow is never IDLE) *)
Theorem C03_reachable_moves_documented : forall sp u evs e,
  let s := run sp u evs in
  wf_created s = true -> reach Doc (wf_state s) (wf_state (fst (step sp s e))).
Proof. exact reachable_step_documented. Qed.
Print Assumptions C03_reachable_moves_documented.

Theorem C03_success_never_left : forall sp s evs,
  wf_created s = true -> wf_state s = SUCCESS -> wf_state (steps sp s evs) = SUCCESS.
Proof. exact success_stays. Qed.
Print Assumptions C03_success_never_left.

Theorem C03_failed_left_only_by_rerun : forall sp s evs,
  wf_created s = true -> (wf_state s = ERROR \/ wf_state s = CANCELLED) ->
  forallb (fun e => negb (is_rerun e)) evs = true ->
  wf_state (steps sp s evs) = wf_state s.
Proof. exact failed_stays. Qed.
Print Assumptions C03_failed_left_only_by_rerun.

(* an action result is accepted at most once: after an accepted delivery the action is
   completed+accepted, and any further delivery is rejected leaving the whole state unchanged *)
Theorem C03_action_result_accepted_once : forall sp s aid res res' s',
  do_result sp s aid res = (s', Ok) ->
  is_completed (a_state (get_act s' aid)) = true /\ a_accepted (get_act s' aid) = true /\
  step sp s' (EDup (IResult aid res')) = (s', Internal).
Proof.
  intros sp s aid res res' s' H. pose proof (result_accepted_completes sp s aid res s' H) as (_ & _ & A & B).
  split; [exact A|]. split; [exact B|]. exact (duplicate_result_inert sp s aid res res' s' H).
Qed.
Print Assumptions C03_action_result_accepted_once.

(* once finished, the workflow state is not altered by late results, timers (refresh jobs),
   duplicates, pause/resume/stop: only rerun / skip may change it *)
Theorem C03_finished_wf_frozen : forall sp s e,
  wf_created s = true -> is_completed (wf_state s) = true -> is_rerun e = false ->
  live_wf_state (wf_state s) = true ->
  wf_state (fst (step sp s e)) = wf_state s.
Proof. exact completed_state_frozen. Qed.
Print Assumptions C03_finished_wf_frozen.

(* a finished workflow is never completed again: the completion methods of the source (their guards
   translated on every run, Gen/WfGuards.v) return before set_state or are refused - state info,
   output, completion triggers and the result for the parent are produced at most once *)
Theorem C03_finished_never_completed_again : forall s,
  is_completed (wf_state s) = true ->
  fail_workflow_src s = Some s /\ cancel_workflow_src s = Some s /\
  (succeed_workflow_src s = Some s \/ succeed_workflow_src s = None).
Proof. exact finished_never_completed_again. Qed.
Print Assumptions C03_finished_never_completed_again.

Theorem C03_completion_methods_as_modelled : forall s,
  fail_workflow_src s = fail_workflow s /\ cancel_workflow_src s = cancel_workflow s /\
  succeed_workflow_src s = succeed_workflow s.
Proof. exact completion_methods_as_modelled. Qed.
Print Assumptions C03_completion_methods_as_modelled.

Theorem C03_stop_on_finished_changes_nothing : forall s x s1,
  is_completed (wf_state s) = true -> stop_workflow s x = Some s1 -> s1 = s.
Proof. exact stop_on_finished_changes_nothing. Qed.
Print Assumptions C03_stop_on_finished_changes_nothing.

(* non-vacuity: a concrete run reaching SUCCESS, and a paused one *)
Example C03_nonvacuous :
  let sp := [mkTspec JNone [(TTask 1, GTrue)] [] [] [] [OOk]; mkTspec JNone [] [] [] [] [OOk]] in
  let evs := [EStart; EFirePtq 0; EFire (IStartTask 0 true false false); EFirePtq 0; EFire (IExec 0);
              EFire (IResult 0 OOk); EFirePtq 0; EFire (IStartTask 1 true false false); EFirePtq 0;
              EFire (IExec 1); EFire (IResult 1 OOk); EFirePtq 0] in
  wf_created (run sp [] evs) = true /\ wf_state (run sp [] evs) = SUCCESS /\
  wf_state (run sp [] [EStart; EPause]) = PAUSED.
Proof. vm_compute. repeat split. Qed.
