(* Property C06: duplicate or redelivered messages have the effect of a single delivery.
   COMPONENT level: the executor's decision, the accept-once rule of an action execution,
   the task-level idempotence guards and start_workflow with an execution id.
   (Engine-level theorems over Model/Engine.v are added below by the engine proofs.)
   Only theorem statements closed by `exact`, each followed by Print Assumptions. *)
From Coq Require Import List Bool String Arith.
Require Import Mistral.Gen.States Mistral.Model.Act Mistral.Proofs.ActProofs.
Import ListNotations.

(* ---- executor: DefaultExecutor._do_run_action over its whole (finite) input space ---- *)

(* the input space is the finite product redelivered x safe_rerun x has_id x
   {returns ok, returns error, returns cancel, returns plain value, raises, times out} x is_sync x
   first engine call {ok, MistralException, other} x second engine call {..}: 864 points,
   enumerated by all_exec_in; the executor theorems below hold for every point *)
Theorem C06_executor_domain : (forall i, In i all_exec_in) /\ List.length all_exec_in = 864.
Proof. exact (conj all_exec_in_complete all_exec_in_length). Qed.
Print Assumptions C06_executor_domain.

(* redelivered and not safe to re-run: not run, exactly one error reported (one engine call
   and nothing else when there is an action execution id; the returned Result otherwise) *)
Theorem C06_executor_unsafe_redelivery : forall i,
  redelivered i = true -> safe_rerun i = false ->
  let o := do_run_action i in
  runs o = 0 /\ error_reports o = 1 /\
  (has_id i = true -> calls o = [(KErr, eng1 i)] /\ returns_error o = false) /\
  (has_id i = false -> calls o = [] /\ ret o = RResult KErr).
Proof. exact exec_unsafe_redelivery. Qed.
Print Assumptions C06_executor_unsafe_redelivery.

(* the action runs at most once per request, and is skipped exactly in the case above *)
Theorem C06_executor_runs : forall i,
  let o := do_run_action i in
  runs o <= 1 /\ (runs o = 0 <-> (redelivered i = true /\ safe_rerun i = false)).
Proof. exact exec_runs. Qed.
Print Assumptions C06_executor_runs.

(* for every action it runs it reports at most one result: at most one engine call
   succeeds, at most two are attempted, the second only after the first raised a
   MistralException and then it is an error report; without an id nothing is sent *)
Theorem C06_executor_reports : forall i,
  let o := do_run_action i in
  ok_calls o <= 1 /\ List.length (calls o) <= 2 /\
  (has_id i = false -> calls o = []) /\
  (forall c1 c2 rest, calls o = c1 :: c2 :: rest ->
     snd c1 = EMistral /\ c2 = (KErr, eng2 i) /\ rest = []).
Proof. exact exec_reports. Qed.
Print Assumptions C06_executor_reports.

(* what is reported is what happened *)
Theorem C06_executor_faithful : forall i k e,
  In (k, e) (calls (do_run_action i)) ->
  (k <> KErr -> runs (do_run_action i) = 1 /\ kind_of (outcome i) = k /\ sync i = true /\
                (outcome i = RetOk \/ outcome i = RetPlain \/ outcome i = RetCancel)) /\
  (k = KErr -> (redelivered i = true /\ safe_rerun i = false) \/ outcome i = RetErr \/
               outcome i = Raises \/ outcome i = TimesOut \/ eng1 i = EMistral).
Proof. exact exec_faithful. Qed.
Print Assumptions C06_executor_faithful.

(* one request delivered any number of times (every further copy flagged redelivered):
   an action not safe to re-run runs at most once over all copies; each redelivered copy
   reports exactly one error.  Unbounded number of copies: induction. *)
Theorem C06_executor_redeliveries : forall first copies,
  safe_rerun first = false ->
  Forall (fun c => redelivered c = true /\ safe_rerun c = false) copies ->
  total_runs (first :: copies) <= 1 /\
  Forall (fun c => runs (do_run_action c) = 0 /\ error_reports (do_run_action c) = 1) copies.
Proof. exact exec_redeliveries_run_once. Qed.
Print Assumptions C06_executor_redeliveries.

(* ExecutorServer.run_action: the flag is true only when the transport context says so *)
Theorem C06_redelivered_flag : forall v, derive_redelivered v = true <-> v = Some true.
Proof. exact derive_redelivered_spec. Qed.
Print Assumptions C06_redelivered_flag.

(* ---- action execution: a result is accepted once (RegularAction.complete) ---- *)

Theorem C06_dup_result_rejected : forall r x,
  is_completed (a_state r) = true -> action_complete r x = (r, true).
Proof. exact action_complete_completed. Qed.
Print Assumptions C06_dup_result_rejected.

(* any sequence of deliveries (any length, any results) to a running action execution:
   exactly the first is accepted, the row is the one after the first delivery *)
Theorem C06_first_result_wins : forall r k p l,
  is_completed (a_state r) = false ->
  deliver_all r ((k, p) :: l) = (mkARow (state_of_kind k) true (Some p), 1).
Proof. exact deliver_all_first_wins. Qed.
Print Assumptions C06_first_result_wins.

(* a delivered result delivered again at any later point of any history: same row, same
   number of accepted results as the duplicate-free history (apply twice for two copies) *)
Theorem C06_dup_result_anywhere : forall r l1 x l2 l3,
  deliver_all r (l1 ++ x :: l2 ++ x :: l3) = deliver_all r (l1 ++ x :: l2 ++ l3).
Proof. exact deliver_dup_anywhere. Qed.
Print Assumptions C06_dup_result_anywhere.

Theorem C06_heartbeat_race : forall r genuine expiry,
  is_completed (a_state r) = false ->
  deliver_all r [genuine; expiry] = (fst (action_complete r genuine), 1) /\
  deliver_all r [expiry; genuine] = (fst (action_complete r expiry), 1).
Proof. exact heartbeat_race. Qed.
Print Assumptions C06_heartbeat_race.

(* ---- task: completion logic and action scheduling run at most once ---- *)

Theorem C06_task_complete_once : forall l cur,
  Forall (fun x => finished (fst (fst x)) = true) l ->
  snd (complete_all cur l) <= 1 /\
  (is_completed cur = true -> complete_all cur l = (cur, 0)).
Proof. exact complete_all_logic_once. Qed.
Print Assumptions C06_task_complete_once.

Theorem C06_dup_start_task : forall l cur,
  Forall (fun wp => snd wp <> Some IDLE) l ->
  snd (run_new_all cur l) <= 1 /\
  (is_idle cur = false -> run_new_all cur l = (cur, 0)).
Proof. exact run_new_all_once. Qed.
Print Assumptions C06_dup_start_task.

(* ---- start_workflow carrying an execution id ---- *)

Theorem C06_dup_start_workflow_with_id : forall t id p q,
  find_wf id t = Some q -> start_workflow t id p = (t, q, false).
Proof. exact start_existing. Qed.
Print Assumptions C06_dup_start_workflow_with_id.

Theorem C06_start_ids_unique : forall l t, unique_ids t -> unique_ids (fst (start_all t l)).
Proof. exact start_all_unique. Qed.
Print Assumptions C06_start_ids_unique.

Theorem C06_dup_start_anywhere : forall t l1 id p l2 p' l3,
  fst (start_all t (l1 ++ (id, p) :: l2 ++ (id, p') :: l3)) =
  fst (start_all t (l1 ++ (id, p) :: l2 ++ l3)) /\
  exists q, let t' := fst (start_all t (l1 ++ (id, p) :: l2)) in
            start_workflow t' id p' = (t', q, false).
Proof. exact start_dup_anywhere. Qed.
Print Assumptions C06_dup_start_anywhere.

(* non-vacuity: concrete instances meeting the hypotheses, with non-trivial outcomes *)
Example C06_nonvacuous :
  (* a redelivered unsafe request with an id: not run, one error call *)
  show_exec (do_run_action (mkExecIn true false true RetOk true EOk EOk)) = (0, "err:ok;", "None")%string /\
  (* a normal synchronous run whose report hits a MistralException: second, error, report *)
  show_exec (do_run_action (mkExecIn false false true RetOk true EMistral EOk)) = (1, "ok:mistral;err:ok;", "None")%string /\
  (* genuine result then heartbeat-expiry error then the genuine result again *)
  deliver_all (mkARow RUNNING false None) [(KOk, 7); (KErr, 8); (KOk, 7)] = (mkARow SUCCESS true (Some 7), 1) /\
  (* three start_task deliveries for an IDLE task, a wait-before policy on a fourth task *)
  run_new_all IDLE [(false, None); (false, None); (false, None)] = (RUNNING, 1) /\
  run_new_all IDLE [(false, Some RUNNING_DELAYED); (false, None)] = (RUNNING_DELAYED, 0) /\
  (* result delivered twice plus a forced completion *)
  complete_all RUNNING [(SUCCESS, false, true); (SUCCESS, false, true); (ERROR, false, true)] = (SUCCESS, 1) /\
  (* the same start request three times, another id in between *)
  start_all [] [(5, 1); (5, 2); (6, 3); (5, 1)] = ([(5, 1); (6, 3)], [(1, true); (1, false); (3, true); (1, false)]).
Proof. vm_compute. repeat split. Qed.

(* ENGINE-LEVEL THEOREMS (whole-engine model Model/Engine.v; every program, state, event) *)
Require Mistral.Model.Engine Mistral.Proofs.EngineSafety Mistral.Proofs.EngineMore.

(* an accepted action result is final: any further delivery for that action is rejected and the whole
   engine state (rows, pending items) is unchanged *)
Theorem C06_engine_duplicate_result_inert : forall sp s aid res res' s',
  Engine.do_result sp s aid res = (s', Engine.Ok) ->
  Engine.step sp s' (Engine.EDup (Engine.IResult aid res')) = (s', Engine.Internal).
Proof. exact EngineSafety.duplicate_result_inert. Qed.
Print Assumptions C06_engine_duplicate_result_inert.

Theorem C06_engine_completed_action_rejects : forall sp s aid res,
  Gen.States.is_completed (Engine.a_state (Engine.get_act s aid)) = true ->
  Engine.step sp s (Engine.EDup (Engine.IResult aid res)) = (s, Engine.Internal).
Proof. exact EngineSafety.completed_action_rejects. Qed.
Print Assumptions C06_engine_completed_action_rejects.

(* a redelivered first-run start_task for a task that already started creates nothing and changes no row *)
Theorem C06_engine_duplicate_first_start_inert : forall sp s tid rerun reset,
  Gen.States.is_idle (Engine.t_state (Engine.get_task s tid)) = false ->
  let s' := fst (Engine.do_start_task sp s tid true rerun reset) in
  Engine.tasks s' = Engine.tasks s /\ Engine.acts s' = Engine.acts s /\
  Engine.wf_state s' = Engine.wf_state s /\ Engine.backlog s' = Engine.backlog s.
Proof. exact EngineMore.duplicate_first_start_inert. Qed.
Print Assumptions C06_engine_duplicate_first_start_inert.

(* a redelivered resume-issued start request for a task that has started starts nothing: no task,
   action or workflow field changes, only a workflow completion check is registered *)
Theorem C06_engine_stale_resume_start_ignored : forall sp s tid reset,
  tid < List.length (Engine.tasks s) -> Gen.States.is_idle (Engine.t_state (Engine.get_task s tid)) = false ->
  Engine.do_start_task sp s tid false false reset = (Engine.add_pend s (Engine.IPtq [Engine.OCheck]), Engine.Ok).
Proof. exact EngineMore.stale_resume_start_ignored. Qed.
Print Assumptions C06_engine_stale_resume_start_ignored.

(* no delivery of any message ever creates a task execution while the workflow is paused or finished *)
Theorem C06_engine_no_creation_when_quiet : forall sp s e,
  Engine.wf_created s = true -> EngineSafety.quiet s = true -> EngineMore.no_restart e = true ->
  EngineSafety.ntasks (fst (Engine.step sp s e)) = EngineSafety.ntasks s.
Proof. exact EngineMore.quiet_no_creation. Qed.
Print Assumptions C06_engine_no_creation_when_quiet.

(* duplicated deliveries never hang a run: with any number of messages delivered once more at any points
   (and pause / resume / stop), a join-free run with nothing pending has only final task executions and
   a completed or PAUSED workflow *)
Require Import Mistral.Proofs.EngineLive.
Theorem C06_duplicates_never_hang_joinfree : forall sp, EngineLive.nojoin sp -> forall u evs,
  forallb EngineLive.live_ev evs = true ->
  let s := Engine.run sp u evs in
  Engine.wf_created s = true -> Engine.pend s = [] ->
  (forall tid r, nth_error (Engine.tasks s) tid = Some r -> Gen.States.is_completed (Engine.t_state r) = true) /\
  (Gen.States.is_completed (Engine.wf_state s) = true \/ Engine.wf_state s = Gen.States.PAUSED).
Proof. exact EngineLive.no_stuck_joinfree. Qed.
Print Assumptions C06_duplicates_never_hang_joinfree.

(* "the effect of a single delivery", functionally, for the class simple_b (join-free, forward,
   command-free definitions with constant guards; Proofs/EngineDen.v): a run in which start requests are
   delivered again at any time and results are delivered again to action executions that already accepted
   one - run7 checks exactly that against the state each event arrives in - mixed with operator pauses and
   resumes, ends with the same number of executions of every task, the same final task states and the same
   workflow state as a run in which every message is delivered once *)
Require Import Mistral.Proofs.EngineDen.
From Coq Require Import Permutation.
Theorem C06_duplicates_same_result_simple : forall sp u1 u2 evs1 evs2,
  EngineDen.simple_b sp = true -> EngineDen.run7 sp (Engine.init_with u1) evs1 = true -> forallb EngineDen.plain4 evs2 = true ->
  let s1 := Engine.run sp u1 evs1 in let s2 := Engine.run sp u2 evs2 in
  Engine.wf_created s1 = true -> Engine.pend s1 = [] -> Engine.wf_state s1 <> Gen.States.PAUSED ->
  Engine.wf_created s2 = true -> Engine.pend s2 = [] ->
  Engine.wf_state s1 = Engine.wf_state s2 /\
  forall n, n < List.length sp ->
    EngineDen.rows_named s1 n = EngineDen.rows_named s2 n /\
    Permutation (EngineDen.states_named s1 n) (EngineDen.states_named s2 n).
Proof. exact EngineDen.dup_same_result. Qed.
Print Assumptions C06_duplicates_same_result_simple.

(* hypotheses met: every start request delivered three times (once before the original), every result
   twice, a pause and a resume in between *)
Example C06_duplicates_same_result_nonvacuous :
  let sA := fst (Engine.step EngineDen.den_demo Engine.init Engine.EStart) in
  let evs2 := Engine.EStart :: EngineLive.drain_evs EngineDen.den_demo sA 200 in
  let evs1 := EngineDen.with_dups (firstn 12 evs2) ++ [Engine.EPause; Engine.EResume] ++ EngineDen.with_dups (skipn 12 evs2) in
  let s1 := Engine.run EngineDen.den_demo [] evs1 in let s2 := Engine.run EngineDen.den_demo [] evs2 in
  EngineDen.run7 EngineDen.den_demo Engine.init evs1 = true /\ forallb EngineDen.plain6 evs1 = false /\
  forallb EngineDen.plain4 evs2 = true /\
  Engine.wf_created s1 = true /\ Engine.pend s1 = [] /\ Engine.wf_state s1 <> Gen.States.PAUSED /\
  Engine.wf_created s2 = true /\ Engine.pend s2 = [] /\
  Engine.wf_state s1 = Gen.States.CANCELLED /\ map (EngineDen.rows_named s1) [0; 1; 2; 3] = [1; 1; 2; 2] /\
  List.length evs2 + 15 < List.length evs1.
Proof. exact EngineDen.dup_demo_ok. Qed.

(* for EVERY program (joins, cycles, commands): whatever is delivered again - start requests (first-run or
   resume-issued), results, refresh jobs fired at any time - no task execution gets a second action execution
   (a join on a cycle excepted: it is re-armed by design for the next iteration); event lists without operator
   reruns (Proofs/EngineOnce.v) *)
Require Mistral.Proofs.EngineOnce.
Theorem C06_engine_redelivery_never_runs_a_task_twice : forall sp u evs,
  forallb EngineOnce.once_ev evs = true ->
  forall tid r, nth_error (Engine.tasks (Engine.run sp u evs)) tid = Some r -> EngineOnce.guarded sp r = true ->
  EngineOnce.nacts (Engine.run sp u evs) tid <= 1.
Proof. exact EngineOnce.once_per_run. Qed.
Print Assumptions C06_engine_redelivery_never_runs_a_task_twice.
