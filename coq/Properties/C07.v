(* Property C07: with-items runs each item once, within the concurrency limit, results in order.
   Only theorem statements closed by `exact`, each followed by Print Assumptions.
   Model: Model/Items.v (state machine over events Start / Accept / Handle / RetryInvalidate / Continue / Rerun);
   `run evs` = fold_left step evs init.  `fresh evs` = no RetryInvalidate / Continue / Rerun event in evs. *)
From Coq Require Import List Arith Bool ZArith Permutation Sorted.
Require Import Mistral.Model.Items Mistral.Proofs.ItemsProofs Mistral.Gen.ItemsLock.
Require Import Mistral.Model.ItemsFixed Mistral.Proofs.ItemsFixedProofs.
Import ListNotations.

(* ---- for ALL event lists (any item count, any concurrency, retry and rerun included) ---- *)

(* never more RUNNING children than the configured concurrency *)
Theorem C07_running_le_concurrency : forall evs c,
  conc (run evs) = Some c -> running (execs (run evs)) <= c.
Proof. exact running_le_concurrency. Qed.
Print Assumptions C07_running_le_concurrency.

(* capacity accounting: capacity + RUNNING + completions not yet handled never exceeds the concurrency *)
Theorem C07_capacity_inv : forall evs c,
  conc (run evs) = Some c ->
  exists k, cap (run evs) = Some k /\ k + running (execs (run evs)) + length (jobs (run evs)) <= c.
Proof. exact capacity_bound. Qed.
Print Assumptions C07_capacity_inv.

(* every execution belongs to an item of the list *)
Theorem C07_index_lt_count : forall evs e,
  In e (execs (run evs)) -> idx e < nitems (run evs).
Proof. exact index_lt_count. Qed.
Print Assumptions C07_index_lt_count.

(* ---- for all event lists without retry / rerun ---- *)

(* exactly one execution per started index, started in item order 0,1,2,... *)
Theorem C07_index_once : forall evs, fresh evs ->
  map idx (execs (run evs)) = seq 0 (length (execs (run evs))) /\
  length (execs (run evs)) <= nitems (run evs).
Proof. exact index_once_fresh. Qed.
Print Assumptions C07_index_once.

(* while the task is RUNNING the capacity counter is exact *)
Theorem C07_capacity_exact : forall evs c, fresh evs -> tst (run evs) = TRunning -> conc (run evs) = Some c ->
  exists k, cap (run evs) = Some k /\ k + running (execs (run evs)) + length (jobs (run evs)) = c.
Proof. exact capacity_eq_fresh. Qed.
Print Assumptions C07_capacity_exact.

(* SUCCESS / ERROR only after every item has completed: one accepted, completed execution per index 0..n-1 *)
Theorem C07_all_started : forall evs, fresh evs ->
  tst (run evs) = TSuccess \/ tst (run evs) = TError ->
  map idx (execs (run evs)) = seq 0 (nitems (run evs)) /\
  Forall (fun e => acc e = true /\ e_completed (st e) = true) (execs (run evs)).
Proof. exact complete_only_after_all_fresh. Qed.
Print Assumptions C07_all_started.

(* the task cannot hang: while it is RUNNING some item is RUNNING or some completion is still to be handled
   (so a run whose items have all completed and been handled is completed) *)
Theorem C07_no_stuck : forall evs, fresh evs -> tst (run evs) = TRunning ->
  0 < running (execs (run evs)) \/ jobs (run evs) <> [].
Proof. exact no_stuck_fresh. Qed.
Print Assumptions C07_no_stuck.

(* the verdict: CANCELLED > ERROR > SUCCESS over the counted executions *)
Theorem C07_final_state : forall evs, fresh evs ->
  t_completed (tst (run evs)) = true -> tst (run evs) = final_state (execs (run evs)).
Proof. exact final_state_fresh. Qed.
Print Assumptions C07_final_state.

Theorem C07_final_state_spec : forall l,
  (final_state l = TCancelled <-> exists e, In e l /\ acc e = true /\ st e = ECancelled) /\
  (final_state l = TError <->
     (forall e, In e l -> acc e = true -> st e <> ECancelled) /\ exists e, In e l /\ acc e = true /\ st e = EError) /\
  (final_state l = TSuccess <-> forall e, In e l -> acc e = true -> st e <> ECancelled /\ st e <> EError).
Proof. exact final_state_spec. Qed.
Print Assumptions C07_final_state_spec.

Theorem C07_cancelled_only_if_cancelled_item : forall evs, fresh evs -> tst (run evs) = TCancelled ->
  exists e, In e (execs (run evs)) /\ acc e = true /\ st e = ECancelled.
Proof. exact cancelled_only_if_cancelled_item. Qed.
Print Assumptions C07_cancelled_only_if_cancelled_item.

(* an empty list succeeds at once, whatever the concurrency *)
Theorem C07_empty_succeeds : forall c,
  tst (run [Start 0 c]) = TSuccess /\ execs (run [Start 0 c]) = [] /\ result (execs (run [Start 0 c])) = [].
Proof. exact empty_succeeds. Qed.
Print Assumptions C07_empty_succeeds.

(* ---- the result (any list of executions) ---- *)

Theorem C07_result_sorted : forall l, StronglySorted idx_le (result_execs l).
Proof. exact result_sorted. Qed.
Print Assumptions C07_result_sorted.

Theorem C07_result_counts_accepted : forall l, Permutation (result_execs l) (filter acc l).
Proof. exact result_perm. Qed.
Print Assumptions C07_result_counts_accepted.

(* independent of the order in which executions are listed / complete, unless an index is counted twice *)
Theorem C07_result_order : forall l l',
  Permutation l l' -> NoDup (map idx (filter acc l)) -> result l = result l'.
Proof. exact result_order_independent. Qed.
Print Assumptions C07_result_order.

(* completed run without retry / rerun: the result has n entries, entry i is item i's output *)
Theorem C07_result_in_item_order : forall evs, fresh evs ->
  tst (run evs) = TSuccess \/ tst (run evs) = TError ->
  result_execs (execs (run evs)) = execs (run evs) /\
  map idx (result_execs (execs (run evs))) = seq 0 (nitems (run evs)) /\
  length (result (execs (run evs))) = nitems (run evs).
Proof. exact result_in_item_order_fresh. Qed.
Print Assumptions C07_result_in_item_order.

(* ---- rerun / retry ---- *)

(* conditional version: when the last item is among the failed ones, a partial rerun starts exactly the failed
   items (first batch, cut at the concurrency limit) *)
Theorem C07_partial_rerun_only_failed_if_last_failed : forall evs,
  fresh evs -> tst (run evs) = TError ->
  In (nitems (run evs) - 1) (failed_indexes (execs (run evs))) ->
  started_by (run evs) (step (run evs) (Rerun false)) =
  take_cap (conc (run evs)) (failed_indexes (execs (run evs))).
Proof. exact partial_rerun_only_failed_if_last_failed. Qed.
Print Assumptions C07_partial_rerun_only_failed_if_last_failed.

(* full strength is false for the code as it is (finding F4): witness items [ERROR, SUCCESS, SUCCESS] *)
Theorem C07_partial_rerun_only_failed_refuted : ~ partial_rerun_only_failed.
Proof. exact partial_rerun_only_failed_refuted. Qed.
Print Assumptions C07_partial_rerun_only_failed_refuted.

Theorem C07_partial_rerun_witness :
  let t := run witness_F4 in
  tst t = TError /\ failed_indexes (execs t) = [0] /\
  started_by t (step t (Rerun false)) = [0; 1; 2] /\
  let t' := fold_left step [Rerun false; Accept 3 OSuccess 103%Z; Handle 3] t in
  tst t' = TSuccess /\ running (execs t') = 2.
Proof. exact partial_rerun_witness. Qed.
Print Assumptions C07_partial_rerun_witness.

(* "one execution per index" and "every item is re-executed" are false under retry / rerun with a concurrency
   smaller than the number of items to redo (finding F7): witness 3 failed items, concurrency 2, retry *)
Theorem C07_index_once_always_refuted : ~ index_once_always.
Proof. exact index_once_always_refuted. Qed.
Print Assumptions C07_index_once_always_refuted.

Theorem C07_success_covers_all_items_refuted : ~ success_covers_all_items.
Proof. exact success_covers_all_items_refuted. Qed.
Print Assumptions C07_success_covers_all_items_refuted.

Theorem C07_retry_concurrency_witness :
  let t := run witness_F7 in
  map idx (filter (fun e => e_running (st e)) (execs t)) = [1; 1] /\
  let t' := fold_left step [Accept 4 OSuccess 104%Z; Handle 4; Accept 5 OSuccess 105%Z; Handle 5] t in
  tst t' = TSuccess /\ map idx (result_execs (execs t')) = [0; 1; 1] /\ result (execs t') = [103; 104; 105]%Z.
Proof. exact retry_concurrency_witness. Qed.
Print Assumptions C07_retry_concurrency_witness.

(* ---- the proposed fix of F4 / F7 (Model/ItemsFixed.v: _get_next_indexes = the indexes below count that have
        neither an accepted nor an unfinished execution): the refuted statements hold, for ALL event lists ---- *)

Theorem C07_fixed_index_once : forall evs, NoDup (map idx (filter p_live (execs (run_fx evs)))).
Proof. exact fx_index_once_always. Qed.
Print Assumptions C07_fixed_index_once.

Theorem C07_fixed_running_le_concurrency : forall evs c,
  conc (run_fx evs) = Some c -> running (execs (run_fx evs)) <= c.
Proof. exact fx_running_le_concurrency. Qed.
Print Assumptions C07_fixed_running_le_concurrency.

Theorem C07_fixed_index_lt_count : forall evs e, In e (execs (run_fx evs)) -> idx e < nitems (run_fx evs).
Proof. exact fx_index_lt_count. Qed.
Print Assumptions C07_fixed_index_lt_count.

(* SUCCESS / ERROR, after any history with retries and reruns: nothing RUNNING, every item has a counted
   execution, and only one *)
Theorem C07_fixed_complete_covers_all_items : forall evs,
  tst (run_fx evs) = TSuccess \/ tst (run_fx evs) = TError ->
  running (execs (run_fx evs)) = 0 /\
  (forall i, i < nitems (run_fx evs) -> exists e, In e (execs (run_fx evs)) /\ acc e = true /\ idx e = i) /\
  (forall e1 e2, In e1 (execs (run_fx evs)) -> In e2 (execs (run_fx evs)) ->
     acc e1 = true -> acc e2 = true -> idx e1 = idx e2 -> e1 = e2).
Proof. exact fx_complete_covers_all_items. Qed.
Print Assumptions C07_fixed_complete_covers_all_items.

(* a partial rerun re-executes only the failed items - unconditionally *)
Theorem C07_fixed_partial_rerun_only_failed : forall evs,
  tst (run_fx evs) = TError ->
  started_by (run_fx evs) (step_fx (run_fx evs) (Rerun false)) =
  take_cap (conc (run_fx evs)) (failed_n (nitems (run_fx evs)) (execs (run_fx evs))).
Proof. exact fx_partial_rerun_only_failed. Qed.
Print Assumptions C07_fixed_partial_rerun_only_failed.

Theorem C07_fixed_retry_restarts_all : forall evs,
  tst (run_fx evs) = TDelayed ->
  started_by (run_fx evs) (step_fx (run_fx evs) Continue) =
  take_cap (conc (run_fx evs)) (seq 0 (nitems (run_fx evs))).
Proof. exact fx_retry_restarts_all. Qed.
Print Assumptions C07_fixed_retry_restarts_all.

Theorem C07_fixed_result_in_item_order : forall evs,
  tst (run_fx evs) = TSuccess \/ tst (run_fx evs) = TError ->
  map idx (result_execs (execs (run_fx evs))) = seq 0 (nitems (run_fx evs)) /\
  length (result (execs (run_fx evs))) = nitems (run_fx evs).
Proof. exact fx_result_in_item_order. Qed.
Print Assumptions C07_fixed_result_in_item_order.

(* the fixed task cannot hang, and its capacity counter is exact, after any history of retries and reruns *)
Theorem C07_fixed_no_stuck : forall evs, tst (run_fx evs) = TRunning ->
  0 < running (execs (run_fx evs)) \/ jobs (run_fx evs) <> [].
Proof. exact fx_no_stuck. Qed.
Print Assumptions C07_fixed_no_stuck.

Theorem C07_fixed_capacity_exact : forall evs c, tst (run_fx evs) = TRunning -> conc (run_fx evs) = Some c ->
  exists k, cap (run_fx evs) = Some k /\ k + running (execs (run_fx evs)) + length (jobs (run_fx evs)) = c.
Proof. exact fx_capacity_exact. Qed.
Print Assumptions C07_fixed_capacity_exact.

(* the two witnesses behave as the property demands under the fix *)
Theorem C07_fixed_witnesses :
  started_by (run_fx witness_F4) (step_fx (run_fx witness_F4) (Rerun false)) = [0] /\
  (let t := run_fx (witness_F7 ++ [Accept 4 OSuccess 104%Z; Handle 4; Accept 5 OSuccess 105%Z; Handle 5]) in
   tst t = TSuccess /\ map idx (result_execs (execs t)) = [0; 1; 2]).
Proof. vm_compute. repeat split; reflexivity. Qed.
Print Assumptions C07_fixed_witnesses.

(* ---- the atomicity the model assumes for Handle, read off the source by translate/tr_itemslock.py ---- *)
Theorem C07_handle_atomic :
  handle_under_named_lock = true /\ handle_lock_key_per_task = true /\ handle_refreshes_first = true /\
  handle_effects_inside_lock = true /\ completion_decoupled_by_job = true /\ job_runs_in_transaction = true.
Proof. repeat split; reflexivity. Qed.
Print Assumptions C07_handle_atomic.

(* non-vacuity: a fresh run with 3 items and concurrency 2 that is RUNNING with one item RUNNING and one
   completion pending, and one that completed in ERROR - the hypotheses of the theorems above are satisfiable *)
Example C07_nonvacuous :
  let evs := [Start 3 2; Accept 0 OSuccess 7%Z; Handle 0; Accept 1 OError 8%Z] in
  fresh evs /\ tst (run evs) = TRunning /\ conc (run evs) = Some 2 /\ cap (run evs) = Some 0 /\
  running (execs (run evs)) = 1 /\ jobs (run evs) = [1] /\
  let evs' := evs ++ [Handle 1; Accept 2 OSuccess 9%Z; Handle 2] in
  fresh evs' /\ tst (run evs') = TError /\ result (execs (run evs')) = [7; 8; 9]%Z /\
  (* the premises of the conditional partial-rerun theorem: items [ERROR, SUCCESS, ERROR] *)
  let evs2 := [Start 3 0; Accept 0 OError 1%Z; Accept 1 OSuccess 2%Z; Accept 2 OError 3%Z; Handle 0; Handle 1; Handle 2] in
  fresh evs2 /\ tst (run evs2) = TError /\ failed_indexes (execs (run evs2)) = [0; 2] /\
  started_by (run evs2) (step (run evs2) (Rerun false)) = [0; 2].
Proof. vm_compute. repeat split; reflexivity. Qed.
