(* Property C01: every workflow run finishes with the outcome its definition prescribes.
   Proved (control-flow core model; every program, state, event): no entry point fails with a
   non-declared error except for stale/duplicate messages; a guard that fails to evaluate turns the
   task and the workflow into ERROR; an impossible join is ERROR exactly when its cardinality can
   no longer be reached; fail/succeed commands and completion move along table edges; completed
   workflows are final.
   "Never left RUNNING (or its tasks left waiting) with nothing pending" is PROVED for every
   join-free program (any forks, guards, engine commands, cycles), every outcome and uid oracle and
   every schedule of start / message / executor / post-commit-queue deliveries and operator
   pause / resume / stop at any point (C01_no_stuck_joinfree, the no-lost-wake-up invariant of
   Proofs/EngineLive.v; extending it to resume exposed defects F19 and F20).
   "The tasks that ran with their final states are the ones the workflow language defines" is PROVED
   for join-free, forward (acyclic), command-free programs whose guards evaluate (C01_prescribed_tasks_ran:
   at quiescence every task has run exactly den(sp) times with exactly the prescribed multiset of final
   states, den being computed from the definition alone; Proofs/EngineDen.v).
   NOT proved: the same statement for programs with joins (C01_no_stuck_statement, which needs the
   graph argument relating find_indirectly_affected_task_executions to _possible_route) and the
   equality of the final view with the denotational semantics.  Both are decided by the trace
   correspondence and the implementation-side oracle (quiescent => final state, no waiting task),
   which found and led to the repair of four hangs. *)
From Coq Require Import List Bool.
Require Import Mistral.Gen.States Mistral.Model.Engine.
Require Import Mistral.Proofs.StatesProofs Mistral.Proofs.EngineWf Mistral.Proofs.EngineSafety Mistral.Proofs.EngineMore
               Mistral.Proofs.EngineLive Mistral.Proofs.EngineDen.
Import ListNotations.

Theorem C01_internal_error_only_on_stale_message : forall sp s e,
  snd (step sp s e) = Internal ->
  exists i, (e = EFire i \/ e = EDup i) /\
    match i with
    | IResult aid _ => length (acts s) <= aid \/ is_completed (a_state (get_act s aid)) = true
    | IStartTask tid _ _ _ => length (tasks s) <= tid
    | _ => False
    end.
Proof. exact internal_only_on_stale_message. Qed.
Print Assumptions C01_internal_error_only_on_stale_message.

Theorem C01_impossible_join_is_error : forall sp s name,
  join_logical sp s name = ERROR ->
  let inds := map (fun m => induced_state sp s m name) (inbound sp name) in
  match ts_join (get_ts sp name) with
  | JAll => 0 < count_ind IndError inds
  | JOne => length inds - 1 < count_ind IndError inds
  | JNum k => length inds - k < count_ind IndError inds
  | JNone => False
  end.
Proof. exact join_error_means_unreachable. Qed.
Print Assumptions C01_impossible_join_is_error.

Theorem C01_join_runs_only_with_cardinality : forall sp s name,
  join_logical sp s name = RUNNING -> inbound sp name <> [] ->
  let inds := map (fun m => induced_state sp s m name) (inbound sp name) in
  match ts_join (get_ts sp name) with
  | JAll => count_ind IndRunning inds = length inds
  | JOne => 1 <= count_ind IndRunning inds
  | JNum k => k <= count_ind IndRunning inds
  | JNone => True
  end.
Proof. exact join_running_needs_cardinality. Qed.
Print Assumptions C01_join_runs_only_with_cardinality.

Theorem C01_workflow_moves_are_table_edges : forall sp u evs e,
  let s := run sp u evs in
  wf_created s = true -> reach Doc (wf_state s) (wf_state (fst (step sp s e))).
Proof. exact reachable_step_documented. Qed.
Print Assumptions C01_workflow_moves_are_table_edges.

Theorem C01_final_state_is_final : forall sp s evs,
  wf_created s = true -> wf_state s = SUCCESS -> wf_state (steps sp s evs) = SUCCESS.
Proof. exact success_stays. Qed.
Print Assumptions C01_final_state_is_final.

(* no lost wake-up: once nothing is pending, every task execution is final and the workflow is
   completed or PAUSED (by its own `pause` command or the operator; only resume leaves PAUSED and the
   resumed run is covered again) - all join-free programs, all schedules incl. duplicated deliveries and pause/resume/stop *)
Theorem C01_no_stuck_joinfree : forall sp, nojoin sp -> forall u evs,
  forallb live_ev evs = true ->
  let s := run sp u evs in
  wf_created s = true -> pend s = [] ->
  (forall tid r, nth_error (tasks s) tid = Some r -> is_completed (t_state r) = true) /\
  (is_completed (wf_state s) = true \/ wf_state s = PAUSED).
Proof. exact no_stuck_joinfree. Qed.
Print Assumptions C01_no_stuck_joinfree.

Example C01_no_stuck_joinfree_nonvacuous :
  let evs := EStart :: drain_evs demo_sp (fst (step demo_sp init EStart)) 100 in
  let s := run demo_sp [] evs in
  nojoin_b demo_sp = true /\ forallb live_ev evs = true /\ wf_created s = true /\ pend s = [] /\
  length (tasks s) = 4 /\ wf_state s = SUCCESS /\ 20 < length evs.
Proof. exact no_stuck_joinfree_nonvacuous. Qed.

Example C01_no_stuck_after_two_pauses :
  let evs := [EStart; EFirePtq 0; EFire (IStartTask 1 true false false); EFirePtq 0; EFire (IExec 0); EFire (IResult 0 OOk);
              EFirePtq 0; EResume; EFire (IStartTask 0 true false false); EFirePtq 0; EFire (IExec 1); EFire (IResult 1 OOk);
              EResume; EFirePtq 0; EFire (IStartTask 0 false false true); EFirePtq 0] in
  let s := run pause2_sp [1; 0] evs in
  forallb live_ev evs = true /\ pend s = [] /\ length (tasks s) = 2 /\ wf_state s = SUCCESS /\
  wf_state (run pause2_sp [1; 0] (firstn 8 evs)) = PAUSED /\ backlog (run pause2_sp [1; 0] (firstn 8 evs)) = [CRunExisting 0 true false].
Proof. exact no_stuck_after_two_pauses. Qed.

(* the functional clause for the class `simple_b` (join-free, every transition targets a later task, no
   engine commands, guards true / false): whatever the delivery order, once nothing is pending task n has
   run exactly `den sp`[n] times and the final states of its runs are the prescribed ones *)
Theorem C01_prescribed_tasks_ran : forall sp, simple_b sp = true -> forall u evs,
  forallb plain4 evs = true ->
  let s := run sp u evs in
  wf_created s = true -> pend s = [] ->
  forall n, n < length sp ->
    rows_named s n = nth n (den sp) 0 /\
    Permutation.Permutation (states_named s n) (prescribed_states sp n (nth n (den sp) 0)).
Proof. exact den_correct. Qed.
Print Assumptions C01_prescribed_tasks_ran.

(* ... and the workflow ends in the state the definition prescribes *)
Theorem C01_prescribed_final_state : forall sp, simple_b sp = true -> forall u evs,
  forallb plain4 evs = true ->
  let s := run sp u evs in
  wf_created s = true -> pend s = [] -> wf_state s = den_verdict sp.
Proof. exact den_final_state. Qed.
Print Assumptions C01_prescribed_final_state.

Example C01_prescribed_tasks_ran_nonvacuous :
  let evs := EStart :: drain_evs den_demo (fst (step den_demo init EStart)) 200 in
  let s := run den_demo [] evs in
  simple_b den_demo = true /\ forallb plain4 evs = true /\ wf_created s = true /\ pend s = [] /\
  den den_demo = [1; 1; 2; 2] /\ map (rows_named s) [0; 1; 2; 3] = [1; 1; 2; 2] /\
  states_named s 2 = [SUCCESS; ERROR] /\ wf_state s = CANCELLED /\ den_verdict den_demo = CANCELLED /\ 30 < length evs.
Proof. exact den_demo_ok. Qed.

(* the unproved part of the property, kept visible: the same for programs with joins *)
Definition quiescent (s : st) : Prop := pend s = [].
Definition C01_no_stuck_statement : Prop :=
  forall sp u evs, let s := run sp u evs in
  forallb live_ev evs = true ->
  wf_created s = true -> quiescent s -> is_completed (wf_state s) = true \/ wf_state s = PAUSED.

Example C01_nonvacuous :
  (* a guard that raises turns task and workflow into ERROR; an impossible join:all is ERROR *)
  let sp := [mkTspec JNone [(TTask 1, GRaise)] [] [] [] [OOk]; mkTspec JNone [] [] [] [] [OOk]] in
  let s := run sp [] [EStart; EFirePtq 0; EFire (IStartTask 0 true false false); EFirePtq 0; EFire (IExec 0);
                      EFire (IResult 0 OOk)] in
  wf_state s = ERROR /\ t_state (get_task s 0) = ERROR /\
  snd (step sp s (EDup (IResult 0 OOk))) = Internal.
Proof. vm_compute. repeat split. Qed.

(* REVERSE workflows (Model/Reverse.v, the model the real ReverseWorkflowController is compared with): over every
   definition, target and sequence of continue / state-change operations, the tasks that exist are tasks the
   target depends on, each has one execution, and everything an existing execution requires has succeeded ... *)
Require Mistral.Model.Reverse Mistral.Proofs.ReverseProofs.
Theorem C01_reverse_run_prescribed : forall sp target ops,
  let rows := Reverse.rrun sp target ops in
  NoDup (map Reverse.rrname rows) /\
  (forall r, In r rows -> ReverseProofs.needs sp target (Reverse.rrname r)) /\
  (forall r t q, In r rows -> Reverse.rfind sp (Reverse.rrname r) = Some t -> In q (Reverse.rreq t) ->
     Reverse.succeeded rows q = true).
Proof. exact ReverseProofs.run_invariant. Qed.
Print Assumptions C01_reverse_run_prescribed.

(* ... and no task the target depends on is forgotten: once everything it requires has succeeded it is among the
   tasks started next (acyclic requires graphs) - a reverse run cannot stop short of its target while nothing failed *)
Theorem C01_reverse_nothing_forgotten : forall sp rows target (rank : nat -> nat),
  (forall a b, ReverseProofs.requires1 sp a b -> rank b < rank a) -> rank target < length sp ->
  forall n, ReverseProofs.needs sp target n -> Reverse.satisfied sp rows n = true -> In n (Reverse.next_tasks sp rows target).
Proof. exact ReverseProofs.next_complete. Qed.
Print Assumptions C01_reverse_nothing_forgotten.
