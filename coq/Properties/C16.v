(* Property C16: every REST operation is authorised and guarded before it has any effect.
   Only theorem statements closed by `exact`, each followed by Print Assumptions.
   `methods`, `rules`, `action_supported_states` are Gen/ApiTable.v, regenerated from
   mistral/api/controllers/**, mistral/policies/*.py on every run: the table is the whole
   (finite) domain of exposed controller methods, the bound is the table itself. *)
From Coq Require Import List Bool String.
Require Import Mistral.Gen.States Mistral.Model.Rest Mistral.Gen.ApiTable Mistral.Proofs.RestProofs.
Import ListNotations.
Open Scope string_scope.

(* --- meaning of effect lists: all lists, environments, bodies, databases ------------- *)

(* An applicable denied enforcement before the first data access: the rest of the method
   never runs - database unchanged, status 403 or an earlier guard's code, and the
   result is the same whatever the rest of the method would do. *)
Theorem C16_blocked_no_effect : forall (DB : Type) effs e i (body : DB -> nat * DB) db,
  blocked effs e = true ->
  snd (run effs e i body db) = db /\
  refusal effs (fst (run effs e i body db)) /\
  forall body', run effs e i body' db = run effs e i body db.
Proof. exact (@run_blocked). Qed.
Print Assumptions C16_blocked_no_effect.

(* acl.enforce first (after logging / request-only computation only) and denied: exactly 403 *)
Theorem C16_enforce_first_403 : forall (DB : Type) effs e i (body : DB -> nat * DB) db r,
  strict_first_enforce effs = Some r -> deny e r = true -> run effs e i body db = (403, db).
Proof. exact (@strict_first_enforce_403). Qed.
Print Assumptions C16_enforce_first_403.

(* any sequence of blocked requests leaves the database as it was *)
Theorem C16_denied_sequence_no_effect : forall (DB : Type) (reqs : list (@request DB)) db,
  Forall (fun q => let '(effs, e, _) := q in blocked effs e = true) reqs ->
  fold_left serve reqs db = db.
Proof. exact (@blocked_sequence). Qed.
Print Assumptions C16_denied_sequence_no_effect.

(* --- the generated table ------------------------------------------------------------- *)

(* Every exposed method outside the explicit allow-list enforces, before anything else
   (logging / request-only computation / the auth_enable_check decorator apart), a rule
   that is registered, documented for that method's verb and resource, and named after the
   method's action; and no enforce is left until after the first data access. *)
Theorem C16_enforce_first : forall m, In m methods -> ~ In (method_id m) unguarded_allowlist ->
  exists r, first_enforce (m_effects m) = Some r /\ documented rules m r = true /\
            rule_action r = method_action (m_name m) /\ m_late m = [].
Proof. exact enforce_first_all. Qed.
Print Assumptions C16_enforce_first.

(* consequence: a caller denied that rule gets a refusal, the database is unchanged and
   nothing after the check runs; 403 exactly except for the members controller, where the
   auth_enable_check decorator can answer 400 first *)
Theorem C16_denied_no_effect : forall (DB : Type) m (e : env) (body : DB -> nat * DB) db,
  In m methods -> ~ In (method_id m) unguarded_allowlist ->
  exists r, first_enforce (m_effects m) = Some r /\ documented rules m r = true /\
   (deny e r = true ->
      snd (handle m e body db) = db /\
      (forall body', handle m e body' db = handle m e body db) /\
      (~ In (method_id m) preguarded_allowlist -> fst (handle m e body db) = 403)).
Proof. exact denied_no_effect_table. Qed.
Print Assumptions C16_denied_no_effect.

(* the exposed methods that enforce nothing are exactly the allow-list of DESIGN.md C16 *)
Theorem C16_unguarded_are_listed : forall id,
  In id (map method_id (filter unguarded methods)) <-> In id unguarded_allowlist.
Proof. exact unguarded_listed. Qed.
Print Assumptions C16_unguarded_are_listed.

Theorem C16_preguarded_are_listed : forall id,
  In id (map method_id (filter (fun m => has_preguard (m_effects m)) methods)) <-> In id preguarded_allowlist.
Proof. exact preguarded_listed. Qed.
Print Assumptions C16_preguarded_are_listed.

(* listing across projects: the method's own rule is admin-only, or the admin-only
   <resource>:list:all_projects rule is enforced under the all_projects condition before any
   data access - and then a denied caller changes nothing and reads nothing *)
Theorem C16_all_projects : forall (DB : Type) m (e : env) (body : DB -> nat * DB) db,
  In m methods -> m_all_projects m = true ->
  exists r, first_enforce (m_effects m) = Some r /\
   ( rule_kind rules r = Some AdminOnly \/
     exists c, let ap := rule_resource r ++ ":list:all_projects" in
       is_all_projects_cond c = true /\ rule_kind rules ap = Some AdminOnly /\
       cond_before_data ap c (m_effects m) = true /\
       (holds e c = true -> deny e ap = true ->
          snd (handle m e body db) = db /\ forall body', handle m e body' db = handle m e body db) ).
Proof. exact all_projects_table. Qed.
Print Assumptions C16_all_projects.

(* making a resource public *)
Theorem C16_publicize : forall (DB : Type) m (e : env) (body : DB -> nat * DB) db,
  In m methods -> ~ In (method_id m) unguarded_allowlist ->
  m_takes_scope m = true -> (m_verb m = POST \/ m_verb m = PUT) ->
  exists r, first_enforce (m_effects m) = Some r /\
    let pr := rule_resource r ++ ":publicize" in
    rule_kind rules pr = Some AdminOnly /\
    cond_before_data pr CScopePublic (m_effects m) = true /\
    (holds e CScopePublic = true -> deny e pr = true ->
       snd (handle m e body db) = db /\ forall body', handle m e body' db = handle m e body db).
Proof. exact publicize_table. Qed.
Print Assumptions C16_publicize.

(* every conditionally enforced rule is registered and documented for its method *)
Theorem C16_conditional_rules_documented : forall m r c,
  In m methods -> ~ In (method_id m) unguarded_allowlist ->
  In (r, c) (conds_before_data (m_effects m)) -> documented rules m r = true.
Proof. exact conds_documented_table. Qed.
Print Assumptions C16_conditional_rules_documented.

(* the registry: every rule documents operations on its own resource with a fitting verb;
   every documented operation of a publicize / list:all_projects rule is implemented by a
   method enforcing it under the matching condition; the only rule no method enforces is
   services:list *)
Theorem C16_registry_wellformed : forall r, In r rules -> rule_wellformed r = true.
Proof. exact registry_wellformed. Qed.
Print Assumptions C16_registry_wellformed.

Theorem C16_registry_implemented : forall r, In r rules -> rule_implemented methods r = true.
Proof. exact registry_implemented. Qed.
Print Assumptions C16_registry_implemented.

Theorem C16_unused_rules_are_listed : forall n,
  In n (unused_rules rules methods) <-> In n unused_rules_allowlist.
Proof. exact registry_unused. Qed.
Print Assumptions C16_unused_rules_are_listed.

(* --- the policy decision: every caller (administrators included), every rule assignment --- *)
(* `policy_env pol c ..` : a method's acl.enforce(r, ctx) raises iff the rule expression assigned
   to r in the loaded policy `pol` evaluates to false for caller `c` on the target made of the
   caller's own project / user (shape of access_control.enforce, extracted fail-closed). *)

(* denied by policy => refusal, database unchanged, nothing after the check runs - for every
   policy (operator overrides such as "!" or role-specific rules included) and every caller *)
Theorem C16_policy_denied_no_effect : forall (DB : Type) m pol c holds fires (body : DB -> nat * DB) db,
  In m methods -> ~ In (method_id m) unguarded_allowlist ->
  exists r, first_enforce (m_effects m) = Some r /\ documented rules m r = true /\
   (enforce_allows pol c r = false ->
      snd (handle m (policy_env pol c holds fires) body db) = db /\
      (forall body', handle m (policy_env pol c holds fires) body' db =
                     handle m (policy_env pol c holds fires) body db) /\
      (~ In (method_id m) preguarded_allowlist ->
       fst (handle m (policy_env pol c holds fires) body db) = 403)).
Proof. exact policy_denied_no_effect. Qed.
Print Assumptions C16_policy_denied_no_effect.

(* "!" denies every caller and "@" allows every caller: no case for administrators *)
Theorem C16_bang_denies_everyone : forall pol c t r,
  plookup pol r = Some CFalse -> authorize pol c t r = false.
Proof. exact bang_denies_everyone. Qed.
Print Assumptions C16_bang_denies_everyone.

Theorem C16_admin_no_bypass : forall (DB : Type) m pol c holds fires (body : DB -> nat * DB) db,
  In m methods -> ~ In (method_id m) unguarded_allowlist -> c_is_admin c = true ->
  exists r, first_enforce (m_effects m) = Some r /\
    let pol' := override pol r CFalse in
    snd (handle m (policy_env pol' c holds fires) body db) = db /\
    (~ In (method_id m) preguarded_allowlist ->
     fst (handle m (policy_env pol' c holds fires) body db) = 403).
Proof. exact admin_no_bypass. Qed.
Print Assumptions C16_admin_no_bypass.

(* a role-specific rule denies every caller without the role, whatever is_admin says *)
Theorem C16_role_rule_denies : forall pol c t r role,
  plookup pol r = Some (CRole role) ->
  (forall x, In x (c_roles c) -> lower x <> lower role) ->
  authorize pol c t r = false.
Proof. exact role_rule_denies. Qed.
Print Assumptions C16_role_rule_denies.

(* how expressions are evaluated (one step; fuel bounds nesting and rule references) *)
Theorem C16_policy_evaluation : forall f pol c t,
  eval (S f) pol c t CTrue = true /\
  eval (S f) pol c t CFalse = false /\
  (forall a b, eval (S f) pol c t (CAnd a b) = eval f pol c t a && eval f pol c t b) /\
  (forall a b, eval (S f) pol c t (COr a b) = eval f pol c t a || eval f pol c t b) /\
  (forall a, eval (S f) pol c t (CNot a) = negb (eval f pol c t a)) /\
  (forall r, eval (S f) pol c t (CRole r) = existsb (fun x => String.eqb (lower x) (lower r)) (c_roles c)) /\
  (forall n, eval (S f) pol c t (CRule n) =
             match plookup pol n with Some k => eval f pol c t k | None => false end) /\
  (forall k m, eval (S f) pol c t (CCred k m) = String.eqb (match_text t m) (cred_text c k)).
Proof. exact eval_equations. Qed.
Print Assumptions C16_policy_evaluation.

(* all_projects / publicize: their own rule, for every caller and policy *)
Theorem C16_policy_conditional_denied : forall (DB : Type) m pol c holds fires (body : DB -> nat * DB) db r cd,
  In (r, cd) (conds_before_data (m_effects m)) -> holds cd = true -> enforce_allows pol c r = false ->
  snd (handle m (policy_env pol c holds fires) body db) = db /\
  (forall body', handle m (policy_env pol c holds fires) body' db =
                 handle m (policy_env pol c holds fires) body db).
Proof. exact policy_conditional_denied. Qed.
Print Assumptions C16_policy_conditional_denied.

(* the registered defaults (generated): admin-only rules allow exactly is_admin callers,
   admin_or_owner allows every caller on his own target *)
Theorem C16_default_admin_only : forall c t n,
  rule_kind rules n = Some AdminOnly -> authorize default_policy c t n = c_is_admin c.
Proof. exact default_admin_only_rule. Qed.
Print Assumptions C16_default_admin_only.

Theorem C16_default_admin_or_owner : forall c, enforce_allows default_policy c "admin_or_owner" = true.
Proof. exact default_admin_or_owner. Qed.
Print Assumptions C16_default_admin_or_owner.

(* default policy, any non-admin caller: listing across projects and scope=public change nothing *)
Theorem C16_default_policy_all_projects : forall (DB : Type) m c holds fires (body : DB -> nat * DB) db,
  In m methods -> m_all_projects m = true -> c_is_admin c = false ->
  (forall cd, is_all_projects_cond cd = true -> holds cd = true) ->
  snd (handle m (policy_env default_policy c holds fires) body db) = db /\
  (forall body', handle m (policy_env default_policy c holds fires) body' db =
                 handle m (policy_env default_policy c holds fires) body db).
Proof. exact default_policy_all_projects. Qed.
Print Assumptions C16_default_policy_all_projects.

Theorem C16_default_policy_publicize : forall (DB : Type) m c holds fires (body : DB -> nat * DB) db,
  In m methods -> ~ In (method_id m) unguarded_allowlist ->
  m_takes_scope m = true -> (m_verb m = POST \/ m_verb m = PUT) ->
  c_is_admin c = false -> holds CScopePublic = true ->
  snd (handle m (policy_env default_policy c holds fires) body db) = db /\
  (forall body', handle m (policy_env default_policy c holds fires) body' db =
                 handle m (policy_env default_policy c holds fires) body db).
Proof. exact default_policy_publicize. Qed.
Print Assumptions C16_default_policy_publicize.

(* --- state-changing requests: every request text, every field combination ----------- *)

(* execution PUT: an engine call is issued only for PAUSED (pause), RUNNING (resume) or a
   completed state (stop), never together with a description, and then the controller
   writes nothing itself *)
Theorem C16_execution_put : forall present cur st desc env,
  o_call (exec_put present cur st desc env) <> NoCall ->
  present = true /\ desc = false /\ st <> "" /\
  o_upd_desc (exec_put present cur st desc env) = false /\
  o_upd_env (exec_put present cur st desc env) = false /\
  o_status (exec_put present cur st desc env) = 200 /\
  ( (parse_state st = PAUSED /\ o_call (exec_put present cur st desc env) = PauseWf) \/
    (parse_state st = RUNNING /\ o_call (exec_put present cur st desc env) = ResumeWf env) \/
    (is_completed (parse_state st) = true /\ env = false /\
     o_call (exec_put present cur st desc env) = StopWf (parse_state st)) ).
Proof. exact exec_put_call. Qed.
Print Assumptions C16_execution_put.

(* description (or env) is written only when no state is requested; env only on an
   IDLE / PAUSED / ERROR execution *)
Theorem C16_execution_put_description_alone : forall present cur st desc env,
  o_upd_desc (exec_put present cur st desc env) = true \/ o_upd_env (exec_put present cur st desc env) = true ->
  st = "" /\ o_call (exec_put present cur st desc env) = NoCall /\ present = true /\
  (env = true -> env_updatable cur = true).
Proof. exact exec_put_description_alone. Qed.
Print Assumptions C16_execution_put_description_alone.

(* any other requested state (IDLE, WAITING, DELAYED, unknown text): 400, nothing happens *)
Theorem C16_execution_put_other_state : forall cur st desc env,
  st <> "" -> parse_state st <> PAUSED -> parse_state st <> RUNNING -> is_completed (parse_state st) = false ->
  exec_put true cur st desc env = reject 400.
Proof. exact exec_put_other_state_rejected. Qed.
Print Assumptions C16_execution_put_other_state.

(* the completed states of states.py (translated on every run) *)
Theorem C16_completed_states : forall s,
  is_completed s = true <-> s = SUCCESS \/ s = ERROR \/ s = CANCELLED \/ s = SKIPPED.
Proof. exact completed_states. Qed.
Print Assumptions C16_completed_states.

(* execution DELETE: deleted iff present and (the force parameter converts to True, or completed);
   cv = how the source turns the parameter text into a boolean (Gen: exec_delete_force_conv) *)
Theorem C16_execution_delete : forall cv present force cur,
  o_deleted (exec_delete cv present force cur) = true <->
  present = true /\ (forced cv force = true \/ is_completed cur = true).
Proof. exact exec_delete_guard. Qed.
Print Assumptions C16_execution_delete.

Theorem C16_execution_delete_unfinished : forall cv cur force,
  is_completed cur = false -> forced cv force = false -> exec_delete cv true force cur = reject 403.
Proof. exact exec_delete_unfinished. Qed.
Print Assumptions C16_execution_delete_unfinished.

(* "unfinished executions are not deletable without force", with force as the client means it:
   holds for every parameter text that the conversion reads as meant ... *)
Theorem C16_execution_delete_without_force_conditional : forall cv present force cur,
  forced cv force = intended_force force ->
  is_completed cur = false -> intended_force force = false ->
  o_deleted (exec_delete cv present force cur) = false.
Proof. exact exec_delete_without_force_conditional. Qed.
Print Assumptions C16_execution_delete_without_force_conditional.

(* ... is refuted at full strength for wsme's bool(text) conversion of a parameter declared
   `bool`: ?force=false on a RUNNING execution deletes it ... *)
Theorem C16_execution_delete_without_force_refuted : exists force cur,
  intended_force force = false /\ is_completed cur = false /\
  o_deleted (exec_delete ConvPyBool true force cur) = true /\
  o_status (exec_delete ConvPyBool true force cur) = 204.
Proof. exact exec_delete_without_force_refuted. Qed.
Print Assumptions C16_execution_delete_without_force_refuted.

(* ... and for the conversion the extractor found in the source exactly one of the two holds
   (the implementation-side oracle reports the witness while it is the second) *)
Theorem C16_execution_delete_in_source :
  (exec_delete_force_conv = ConvStrutils /\
     forall present force cur, is_completed cur = false -> intended_force force = false ->
       o_deleted (exec_delete exec_delete_force_conv present force cur) = false) \/
  (exec_delete_force_conv = ConvPyBool /\
     exists force cur, intended_force force = false /\ is_completed cur = false /\
       o_deleted (exec_delete exec_delete_force_conv true force cur) = true).
Proof. exact exec_delete_source. Qed.
Print Assumptions C16_execution_delete_in_source.

(* task PUT: the engine is called only for a task in ERROR, towards RUNNING or SKIPPED;
   RUNNING needs the reset field, and reset=false only for with-items tasks *)
Theorem C16_task_put : forall present name_ok wf_ok st cur reset wi,
  o_call (task_put present name_ok wf_ok st cur reset wi) <> NoCall ->
  present = true /\ name_ok = true /\ wf_ok = true /\ cur = ERROR /\
  (parse_state st = RUNNING \/ parse_state st = SKIPPED) /\
  (parse_state st = RUNNING -> reset <> None /\ (wi = true \/ reset = Some true)) /\
  o_call (task_put present name_ok wf_ok st cur reset wi) =
    Rerun (match reset with Some true => true | _ => false end) (state_eqb (parse_state st) SKIPPED) /\
  o_status (task_put present name_ok wf_ok st cur reset wi) = 200.
Proof. exact task_put_call. Qed.
Print Assumptions C16_task_put.

Theorem C16_task_put_not_error : forall present name_ok wf_ok st cur reset wi,
  cur <> ERROR ->
  o_call (task_put present name_ok wf_ok st cur reset wi) = NoCall /\
  (o_status (task_put present name_ok wf_ok st cur reset wi) = 400 \/
   o_status (task_put present name_ok wf_ok st cur reset wi) = 404).
Proof. exact task_put_not_error. Qed.
Print Assumptions C16_task_put_not_error.

(* action execution PUT: the engine is called iff the requested state is one of
   SUPPORTED_TRANSITION_STATES (extracted), which are SUCCESS, ERROR, CANCELLED, PAUSED, RUNNING *)
Theorem C16_action_put : forall st,
  o_call (action_put action_supported_states st) <> NoCall <->
  mem (parse_state st) action_supported_states = true.
Proof. exact action_put_call. Qed.
Print Assumptions C16_action_put.

Theorem C16_action_supported_states : forall s,
  mem s action_supported_states = true <->
  s = SUCCESS \/ s = ERROR \/ s = CANCELLED \/ s = PAUSED \/ s = RUNNING.
Proof. exact supported_states. Qed.
Print Assumptions C16_action_supported_states.

Theorem C16_action_put_unsupported : forall st,
  mem (parse_state st) action_supported_states = false ->
  action_put action_supported_states st = reject 400.
Proof. exact action_put_unsupported. Qed.
Print Assumptions C16_action_put_unsupported.

(* action execution DELETE *)
Theorem C16_action_delete : forall cfg present adhoc cur,
  o_deleted (action_delete cfg present adhoc cur) = true <->
  cfg = true /\ present = true /\ adhoc = true /\ is_completed cur = true.
Proof. exact action_delete_guard. Qed.
Print Assumptions C16_action_delete.

(* a refusing decision writes nothing and calls nothing *)
Theorem C16_refusals_write_nothing :
  (forall p cu st d e, o_status (exec_put p cu st d e) <> 200 ->
     exec_put p cu st d e = reject (o_status (exec_put p cu st d e))) /\
  (forall cv p f c, o_status (exec_delete cv p f c) <> 204 ->
     exec_delete cv p f c = reject (o_status (exec_delete cv p f c))) /\
  (forall p n w st c r wi, o_status (task_put p n w st c r wi) <> 200 ->
     task_put p n w st c r wi = reject (o_status (task_put p n w st c r wi))).
Proof. exact refusals_write_nothing. Qed.
Print Assumptions C16_refusals_write_nothing.

(* non-vacuity: the table is not empty, guarded methods exist, a denied and an allowed run
   differ, conditional rules exist, and the decision functions accept something *)
Example C16_nonvacuous :
  List.length methods >= 60 /\ List.length rules >= 60 /\
  List.length (filter (fun m => negb (unguarded m)) methods) >= 55 /\
  List.length (filter m_all_projects methods) >= 4 /\
  List.length (filter (fun m => m_takes_scope m && (verb_eqb (m_verb m) POST || verb_eqb (m_verb m) PUT)) methods) >= 10 /\
  (let effs := [Log; Enforce "executions:update"; Pure; Data Db "x"] in
   let body := fun db : nat => (200, S db) in
   run effs (mkEnv (fun _ => true) (fun _ => false) (fun _ => false)) 0 body 7 = (403, 7) /\
   run effs (mkEnv (fun _ => false) (fun _ => false) (fun _ => false)) 0 body 7 = (200, 8) /\
   blocked effs (mkEnv (fun _ => true) (fun _ => false) (fun _ => false)) = true) /\
  (let admin := mkCaller true ["admin"] "p1" "u1" in
   let member := mkCaller false ["Member"] "p1" "u1" in
   enforce_allows (override default_policy "executions:delete" CFalse) admin "executions:delete" = false /\
   enforce_allows default_policy admin "executions:list:all_projects" = true /\
   enforce_allows default_policy member "executions:list:all_projects" = false /\
   enforce_allows default_policy member "executions:delete" = true /\
   enforce_allows (override default_policy "tasks:get" (CRole "member")) member "tasks:get" = true /\
   enforce_allows (override default_policy "tasks:get" (CRole "member")) admin "tasks:get" = false) /\
  o_call (exec_put true RUNNING "PAUSED" false false) = PauseWf /\
  o_call (exec_put true PAUSED "RUNNING" false true) = ResumeWf true /\
  o_call (exec_put true RUNNING "ERROR" false false) = StopWf ERROR /\
  exec_put true RUNNING "IDLE" false false = reject 400 /\
  exec_put true RUNNING "PAUSED" true false = reject 400 /\
  o_upd_desc (exec_put true RUNNING "" true false) = true /\
  exec_put true RUNNING "" false true = reject 403 /\ o_upd_env (exec_put true PAUSED "" false true) = true /\
  o_call (task_put true true true "RUNNING" ERROR (Some true) false) = Rerun true false /\
  o_call (task_put true true true "SKIPPED" ERROR None false) = Rerun false true /\
  task_put true true true "RUNNING" RUNNING (Some true) false = reject 400 /\
  o_call (action_put action_supported_states "SUCCESS") = ActionComplete "data" /\
  action_put action_supported_states "IDLE" = reject 400 /\
  (forall cv, o_deleted (exec_delete cv true None RUNNING) = false /\
              o_deleted (exec_delete cv true (Some "true") RUNNING) = true /\
              forced cv (Some "true") = intended_force (Some "true") /\ forced cv None = intended_force None).
Proof. vm_compute. repeat split; repeat constructor; try (match goal with x : force_conv |- _ => destruct x; reflexivity end). Qed.
