(* Property C19: outbound HTTP cannot reach denied networks.
   Only theorem statements closed by `exact`, each followed by Print Assumptions. *)
From Coq Require Import List NArith Bool String.
Require Import Mistral.Model.Egress Mistral.Proofs.EgressProofs Mistral.Proofs.EgressDefault Mistral.Gen.EgressCfg.
Import ListNotations.
Open Scope N_scope.

(* The decision: a URL is allowed exactly when scheme is http/https, a host is
   present, the allow-list (if any) lists it, and every resolved address - and its
   IPv4-mapped form - is outside every denied network. *)
Theorem C19_allow_iff : forall denied allowed scheme host resolved,
  validate denied allowed scheme host resolved = Allow <->
  (scheme = "http" \/ scheme = "https")%string /\
  host <> ""%string /\
  (allowed = [] \/ In host allowed) /\
  (forall l, resolved = Some l -> forall a, In a l -> safe_addr denied a).
Proof. exact validate_allow_iff. Qed.
Print Assumptions C19_allow_iff.

Theorem C19_scheme : forall denied allowed scheme host r,
  scheme <> "http"%string -> scheme <> "https"%string ->
  validate denied allowed scheme host r = DenyScheme.
Proof. exact validate_scheme. Qed.
Print Assumptions C19_scheme.

Theorem C19_allowlist : forall denied allowed scheme host r,
  allowed <> [] -> ~ In host allowed -> validate denied allowed scheme host r <> Allow.
Proof. exact validate_allowlist. Qed.
Print Assumptions C19_allowlist.

(* `address in network` of the model is the inclusive range test. *)
Theorem C19_in_net_range : forall a n,
  in_net a n = true <-> afam a = nfam n /\ net_lo n <= aval a < net_lo n + net_size n.
Proof. exact in_net_range. Qed.
Print Assumptions C19_in_net_range.

(* any one resolved address in a denied network, among any others: refused *)
Theorem C19_any_resolved_address : forall denied allowed scheme host l a n,
  In a l -> In n denied ->
  (in_net a n = true \/ exists m, ipv4_mapped a = Some m /\ in_net m n = true) ->
  validate denied allowed scheme host (Some l) <> Allow.
Proof. exact validate_denies_denied. Qed.
Print Assumptions C19_any_resolved_address.

(* every textual form of every IPv4 address (4/3/2/1-part inet_aton forms in any
   radix, and both spellings of the IPv4-mapped IPv6 address) denotes it *)
Theorem C19_roundtrip_v4 : forall v h, v < 4294967296 -> In h (forms4 v) ->
  denote h = Some (mkAddr V4 v) \/ denote h = Some (mkAddr V6 (mapped_val v)).
Proof. exact forms4_denote. Qed.
Print Assumptions C19_roundtrip_v4.

Theorem C19_roundtrip_v6 : forall v, v < 2 ^ 128 -> denote (enc6 v) = Some (mkAddr V6 v).
Proof. exact enc6_roundtrip. Qed.
Print Assumptions C19_roundtrip_v6.

Theorem C19_denied_all_forms_v4 :
  forall denied allowed scheme host v n h a others1 others2,
  v < 4294967296 -> In h (forms4 v) -> denote h = Some a ->
  In n denied -> in_net (mkAddr V4 v) n = true ->
  validate denied allowed scheme host (Some (others1 ++ a :: others2)) <> Allow.
Proof. exact denied_v4_all_forms. Qed.
Print Assumptions C19_denied_all_forms_v4.

Theorem C19_denied_all_forms_v6 : forall denied allowed scheme host v n others1 others2,
  v < 2 ^ 128 -> In n denied -> in_net (mkAddr V6 v) n = true ->
  exists a, denote (enc6 v) = Some a /\
  validate denied allowed scheme host (Some (others1 ++ a :: others2)) <> Allow.
Proof. exact denied_v6_all_forms. Qed.
Print Assumptions C19_denied_all_forms_v6.

(* the default deny list generated from mistral/config.py *)
Theorem C19_default_covers_loopback4 : forall v,
  2130706432 <= v < 2147483648 -> addr_denied default_denied (mkAddr V4 v) = true.
Proof. exact default_covers_loopback4. Qed.
Print Assumptions C19_default_covers_loopback4.

Theorem C19_default_covers_linklocal4 : forall v,
  2851995648 <= v < 2852061184 -> addr_denied default_denied (mkAddr V4 v) = true.
Proof. exact default_covers_linklocal4. Qed.
Print Assumptions C19_default_covers_linklocal4.

Theorem C19_default_covers_metadata : addr_denied default_denied (mkAddr V4 2852039166) = true.
Proof. exact default_covers_metadata. Qed.
Print Assumptions C19_default_covers_metadata.

Theorem C19_default_covers_loopback6 : addr_denied default_denied (mkAddr V6 1) = true.
Proof. exact default_covers_loopback6. Qed.
Print Assumptions C19_default_covers_loopback6.

Theorem C19_default_covers_linklocal6 : forall v,
  338288524927261089654018896841347694592 <= v < 338620831926207318622244848606417780736 ->
  addr_denied default_denied (mkAddr V6 v) = true.
Proof. exact default_covers_linklocal6. Qed.
Print Assumptions C19_default_covers_linklocal6.

Theorem C19_default_covers_mapped : forall v,
  (2130706432 <= v < 2147483648 \/ 2851995648 <= v < 2852061184) ->
  addr_denied default_denied (mkAddr V6 (mapped_val v)) = true.
Proof. exact default_covers_mapped. Qed.
Print Assumptions C19_default_covers_mapped.

Theorem C19_default_refuses : forall scheme host l a,
  In a l -> addr_denied default_denied a = true ->
  validate default_denied default_allowed_hosts scheme host (Some l) <> Allow.
Proof. exact default_refuses. Qed.
Print Assumptions C19_default_refuses.

(* non-vacuity: a concrete URL state meeting the hypotheses *)
Example C19_nonvacuous :
  validate default_denied [] "http" "2130706433" (Some [mkAddr V4 2130706433]) = DenyAddress /\
  validate default_denied [] "https" "example.org" (Some [mkAddr V4 1572395042]) = Allow /\
  denote (enc_mapped 2852039166) = Some (mkAddr V6 (mapped_val 2852039166)) /\
  validate default_denied [] "http" "::ffff:169.254.169.254" (Some [mkAddr V6 (mapped_val 2852039166)]) = DenyAddress.
Proof. vm_compute. repeat split. Qed.
