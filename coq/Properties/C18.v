(* Property C18: the expiration policy deletes only what it is configured to delete.
   Only theorem statements closed by `exact`, each followed by Print Assumptions.

   All theorems quantify over every virtual time `now`, every configuration `c`
   (older_than / max_finished / batch_size each possibly unset, zero or negative, any
   ignored_states list) and every well-formed population `pop` of workflow / task /
   action execution rows of any size, states, ages (incl. NULL), projects and nesting.
   wf_pop: row ids are unique and a row's parent key refers to a row created earlier
   (what the foreign keys guarantee).  `res` is the population after one evaluation.
     Desc pop r x     x is r or a (transitive) sub-execution / task / action of r
     aged now c r     updated_at < now - older_than minutes
     beyond c pop r   r ranks after the max_finished most recent finished roots *)
From Coq Require Import List ZArith Bool String.
Require Import Mistral.Gen.States Mistral.Model.Expire Mistral.Proofs.ExpireProofs.
Import ListNotations.
Open Scope Z_scope.

(* Exact result: an evaluation (two batch loops, any batch size) returns normally and
   leaves exactly the population minus the trees of the victims, where the victims are
   the eligible roots older than the age, plus - among what then remains - the eligible
   roots after the first max_finished in updated_at-descending order (ties kept in
   creation order; the tie-break is the stable insertion sort `sort_desc`). *)
Theorem C18_exact : forall now c pop ot,
  wf_pop pop -> older_than c = Some ot ->
  evaluate now c pop =
  Done (cascade_delete pop (ids (
    filter (expired c (now - 60 * ot)) pop ++
    victims_count c (cascade_delete pop (ids (filter (expired c (now - 60 * ot)) pop)))))).
Proof. exact evaluate_exact. Qed.
Print Assumptions C18_exact.

Theorem C18_only_eligible : forall now c pop res,
  wf_pop pop -> evaluate now c pop = Done res ->
  forall x, In x pop -> ~ In x res ->
  exists r, In r pop /\ Desc pop r x /\
            rkind r = KWf /\ rparent r = None /\
            (rstate r = SUCCESS \/ rstate r = ERROR \/ rstate r = CANCELLED) /\
            mem (rstate r) (ignored c) = false /\
            (aged now c r \/ beyond c pop r).
Proof. exact ev_only_eligible. Qed.
Print Assumptions C18_only_eligible.

(* a deleted row that has no parent is a finished root workflow execution: never a
   running / paused / idle / waiting / delayed one, never a parentless task or action *)
Theorem C18_never_active : forall now c pop res,
  wf_pop pop -> evaluate now c pop = Done res ->
  forall x, In x pop -> ~ In x res -> rparent x = None ->
  rkind x = KWf /\
  (rstate x = SUCCESS \/ rstate x = ERROR \/ rstate x = CANCELLED) /\
  mem (rstate x) (ignored c) = false /\
  (aged now c x \/ beyond c pop x) /\
  rstate x <> RUNNING /\ rstate x <> PAUSED /\ rstate x <> IDLE /\
  rstate x <> WAITING /\ rstate x <> RUNNING_DELAYED.
Proof. exact ev_never_active. Qed.
Print Assumptions C18_never_active.

(* a sub-execution (task, action) is never deleted on its own *)
Theorem C18_no_sub_execution_alone : forall now c pop res,
  wf_pop pop -> evaluate now c pop = Done res ->
  forall x p, In x pop -> ~ In x res -> rparent x = Some p ->
  exists px, find_row p pop = Some px /\ In px pop /\ ~ In px res.
Proof. exact ev_no_orphan_delete. Qed.
Print Assumptions C18_no_sub_execution_alone.

(* the remaining rows are exactly the rows outside the trees of the victims *)
Theorem C18_cascade_exact : forall now c pop res,
  wf_pop pop -> evaluate now c pop = Done res ->
  exists ot, older_than c = Some ot /\
  forall x, In x res <->
    In x pop /\ ~ exists r, In r (victims c (now - 60 * ot) pop) /\ Desc pop r x.
Proof. exact ev_cascade_exact. Qed.
Print Assumptions C18_cascade_exact.

Theorem C18_cascade_complete : forall now c pop res,
  wf_pop pop -> evaluate now c pop = Done res ->
  forall r x, In r pop -> In x pop -> ~ In r res -> Desc pop r x -> ~ In x res.
Proof. exact ev_cascade_complete. Qed.
Print Assumptions C18_cascade_complete.

(* never a newer eligible root deleted while an older eligible one is kept *)
Theorem C18_keep_newest : forall now c pop res,
  wf_pop pop -> evaluate now c pop = Done res ->
  forall x y ux uy, In x pop -> In y pop ->
  completed_root c x = true -> completed_root c y = true ->
  rupd x = Some ux -> rupd y = Some uy ->
  ~ In x res -> In y res -> ux <= uy.
Proof. exact ev_keep_newest. Qed.
Print Assumptions C18_keep_newest.

(* every evaluation terminates: the loops' fuel (population size + 1) is never exhausted;
   it either returns normally or - exactly when older_than is unset - raises before any query *)
Theorem C18_terminates : forall now c pop,
  wf_pop pop -> (exists res, evaluate now c pop = Done res) \/ evaluate now c pop = Crash pop.
Proof. exact evaluate_terminates. Qed.
Print Assumptions C18_terminates.

(* remaining trees are complete: a row and its parent row stay or go together,
   and remaining rows are rows of the original population *)
Theorem C18_trees_complete : forall now c pop res,
  wf_pop pop -> evaluate now c pop = Done res ->
  (forall x, In x res -> In x pop) /\
  (forall x y, In x pop -> In y pop -> rparent y = Some (rid x) -> (In x res <-> In y res)).
Proof. intros now c pop res W EV. split; [exact (ev_sub now c pop res W EV) | exact (ev_trees_complete now c pop res W EV)]. Qed.
Print Assumptions C18_trees_complete.

Theorem C18_batch_independent : forall now c pop b,
  wf_pop pop ->
  evaluate now (mkCfg (older_than c) (max_finished c) b (ignored c)) pop = evaluate now c pop.
Proof. exact evaluate_batch_independent. Qed.
Print Assumptions C18_batch_independent.

(* what is configured is enforced when the evaluation returns *)
Theorem C18_limits_enforced : forall now c pop res,
  wf_pop pop -> evaluate now c pop = Done res ->
  (forall x ot, older_than c = Some ot -> In x res -> expired c (now - 60 * ot) x = false) /\
  (forall m, max_finished c = Some m -> m <> 0 ->
     (List.length (filter (completed_root c) res) <= Z.to_nat m)%nat).
Proof. intros now c pop res W EV. split; [exact (ev_age_enforced now c pop res W EV) | exact (ev_count_enforced now c pop res W EV)]. Qed.
Print Assumptions C18_limits_enforced.

Theorem C18_disabled_noop : forall interval now c pop,
  enabled interval c = false -> tick interval now c pop = Done pop.
Proof. exact tick_disabled. Qed.
Print Assumptions C18_disabled_noop.

(* Observation F6 (not a violation of the "deletes only" clauses): with older_than unset
   every evaluation raises before any query, whatever max_finished says, although
   __init__ registers the task for such a configuration; the count limit is dead. *)
Theorem C18_unset_age_never_deletes : forall now c pop,
  older_than c = None -> evaluate now c pop = Crash pop.
Proof. exact evaluate_unset. Qed.
Print Assumptions C18_unset_age_never_deletes.

Theorem C18_unset_age_count_limit_dead :
  exists interval c pop now,
    enabled interval c = true /\ max_finished c = Some 1 /\ wf_pop pop /\
    (List.length (filter (completed_root c) pop) = 3)%nat /\
    tick interval now c pop = Crash pop.
Proof.
  exists (Some 1), (mkCfg None (Some 1) (Some 0) []),
    [mkRow 0 KWf None SUCCESS (Some 10) 1; mkRow 1 KWf None ERROR (Some 20) 1; mkRow 2 KWf None CANCELLED (Some 30) 2],
    1000000.
  repeat split; try reflexivity.
  - repeat constructor; simpl; intuition discriminate.
  - simpl. intros x p [H|[H|[H|[]]]] P; subst x; discriminate.
Qed.
Print Assumptions C18_unset_age_count_limit_dead.

(* non-vacuity: a well-formed population with nesting, a running sub-execution, a
   parentless action, two projects, a NULL updated_at; age and count both set, batch 1 *)
Definition ex_pop : list row :=
  [ mkRow 0 KWf None SUCCESS (Some 100) 1;          (* old finished root *)
    mkRow 1 KTask (Some 0%nat) SUCCESS (Some 90) 1;
    mkRow 2 KAct (Some 1%nat) SUCCESS (Some 80) 1;
    mkRow 3 KWf (Some 1%nat) RUNNING (Some 70) 1;   (* its running sub-execution *)
    mkRow 4 KWf None RUNNING (Some 50) 2;           (* old running root *)
    mkRow 5 KAct None SUCCESS (Some 10) 1;          (* ad-hoc action *)
    mkRow 6 KWf None ERROR (Some 999000) 2;         (* recent finished roots *)
    mkRow 7 KWf None CANCELLED (Some 999500) 1;
    mkRow 8 KWf None SUCCESS (Some 999500) 1;
    mkRow 9 KWf None SUCCESS None 1 ].

Example C18_nonvacuous :
  wf_pop ex_pop /\
  evaluate 1000000 (mkCfg (Some 10) (Some 2) (Some 1) []) ex_pop =
  Done [ mkRow 4 KWf None RUNNING (Some 50) 2; mkRow 5 KAct None SUCCESS (Some 10) 1;
         mkRow 7 KWf None CANCELLED (Some 999500) 1; mkRow 8 KWf None SUCCESS (Some 999500) 1 ].
Proof.
  split.
  - split.
    + repeat constructor; simpl; intuition discriminate.
    + unfold ex_pop. simpl. intros x p H P.
      repeat (destruct H as [H|H]; [subst x; simpl in P; try discriminate; inversion P; subst; repeat constructor|]).
      contradiction.
  - vm_compute. reflexivity.
Qed.
