(* Property C05: a task sees exactly the data published by the tasks that causally
   precede it (component level: context algebra, publishing, expression contexts).
   Only theorem statements closed by `exact`, each followed by Print Assumptions.
   Engine-level theorems (C05_causal_latest ...) are added by the engine model. *)
From Coq Require Import List ZArith NArith Bool String Permutation.
Require Import Mistral.Model.Ctx Mistral.Model.Publish Mistral.Proofs.CtxProofs Mistral.Proofs.PublishProofs.
Require Import Mistral.Gen.CtxFacts Mistral.Proofs.CtxFactsProofs.
Import ListNotations.
Open Scope string_scope.

(* ---- outbound context = inbound data overlaid with the published variables;
        versions bumped exactly on the published paths (leaves and dict nodes) ---- *)
Theorem C05_outbound_values : forall c pub k,
  NoDup (map fst pub) ->
  lookup k (cdata (outbound c pub)) =
  match lookup k pub with Some v => Some v | None => lookup k (cdata c) end.
Proof. exact outbound_data. Qed.
Print Assumptions C05_outbound_values.

Theorem C05_outbound_versions : forall c pub q,
  getv q (cvers (outbound c pub)) = (getv q (cvers c) + occ q (pub_paths pub))%N.
Proof. exact outbound_vers. Qed.
Print Assumptions C05_outbound_versions.

Theorem C05_outbound_versions_exact : forall c pub q,
  NoDup (pub_paths pub) ->
  (In q (pub_paths pub) -> getv q (cvers (outbound c pub)) = (getv q (cvers c) + 1)%N) /\
  (~ In q (pub_paths pub) -> getv q (cvers (outbound c pub)) = getv q (cvers c)).
Proof. exact outbound_vers_exact_both. Qed.
Print Assumptions C05_outbound_versions_exact.

(* every published position (leaf or dict node, at any depth) gets a strictly higher version *)
Theorem C05_published_position_bumped : forall c pub k t x,
  at_path (k :: t) (VDict pub) = Some x ->
  (getv (path_str "" (k :: t)) (cvers c) < getv (path_str "" (k :: t)) (cvers (outbound c pub)))%N.
Proof. exact published_position_bumped. Qed.
Print Assumptions C05_published_position_bumped.

(* ---- merge by version ---- *)
(* one level of the recursion, any prefix: keys of one side only are kept/added, common
   keys are merged recursively (dict/dict) or decided by the version at the dotted path *)
Theorem C05_merge_one_level : forall vl vr p rd ld k,
  NoDup (map fst rd) ->
  lookup k (merge_items vl vr p ld rd) =
  match lookup k ld, lookup k rd with
  | None, r => r
  | Some l, None => Some l
  | Some l, Some r => Some (merge_val vl vr (join_path p k) l r)
  end.
Proof. exact lookup_merge_items. Qed.
Print Assumptions C05_merge_one_level.

Theorem C05_merge_prefers_newer : forall vl vr ks p l r a b,
  wf_value r ->
  at_path ks l = Some a -> at_path ks r = Some b -> is_dict a && is_dict b = false ->
  at_path ks (merge_val vl vr p l r) =
  Some (if N.ltb (getv (path_str p ks) vl) (getv (path_str p ks) vr) then b else a).
Proof. exact merge_prefers_newer_path. Qed.
Print Assumptions C05_merge_prefers_newer.

Theorem C05_merge_versions_max : forall r l q,
  NoDup (map fst r) -> getv q (merge_vers l r) = N.max (getv q l) (getv q r).
Proof. exact getv_merge_vers. Qed.
Print Assumptions C05_merge_versions_max.

(* ---- a value published inside a branch is not replaced by an inherited copy: any depth, any
        previous shape of the variable, both argument orders (unconditional since fix 883c1b22) ---- *)
Theorem C05_no_stale_overwrite : forall c pub o k t x,
  wf_ctx c -> wf_value (VDict pub) -> wf_ctx o ->
  k <> TASK_EXECUTION_KEY ->
  at_path (k :: t) (VDict pub) = Some x -> is_dict x = false ->
  not_newer_along (cvers o) (cvers c) (join_path "" k) t ->
  at_path (k :: t) (VDict (cdata (merge_ctx (outbound c pub) o))) = Some x /\
  at_path (k :: t) (VDict (cdata (merge_ctx o (outbound c pub)))) = Some x.
Proof. exact no_stale_overwrite. Qed.
Print Assumptions C05_no_stale_overwrite.

Theorem C05_no_stale_overwrite_inherited : forall c pub o k t x,
  wf_ctx c -> wf_value (VDict pub) -> wf_ctx o ->
  k <> TASK_EXECUTION_KEY ->
  at_path (k :: t) (VDict pub) = Some x -> is_dict x = false ->
  (forall q, (getv q (cvers o) <= getv q (cvers c))%N) ->
  at_path (k :: t) (VDict (cdata (merge_ctx (outbound c pub) o))) = Some x /\
  at_path (k :: t) (VDict (cdata (merge_ctx o (outbound c pub)))) = Some x.
Proof. exact no_stale_overwrite_inherited. Qed.
Print Assumptions C05_no_stale_overwrite_inherited.

Theorem C05_no_stale_overwrite_flat : forall c pub o k x,
  wf_ctx c -> wf_value (VDict pub) -> wf_ctx o ->
  k <> TASK_EXECUTION_KEY ->
  lookup k pub = Some x -> is_dict x = false ->
  (getv k (cvers o) <= getv k (cvers c))%N ->
  lookup k (cdata (merge_ctx (outbound c pub) o)) = Some x /\
  lookup k (cdata (merge_ctx o (outbound c pub))) = Some x.
Proof. exact no_stale_overwrite_flat. Qed.
Print Assumptions C05_no_stale_overwrite_flat.

(* regression: the witness that refuted the statement before the fix (`a: 1` upstream,
   re-published as `a: {b: 2}` in one branch) is clean in both merge orders *)
Theorem C05_former_stale_witness_clean :
  at_path ["a"; "b"] (VDict (cdata (merge_ctx stale_c (outbound stale_c stale_pub)))) = Some (VNum 2) /\
  at_path ["a"; "b"] (VDict (cdata (merge_ctx (outbound stale_c stale_pub) stale_c))) = Some (VNum 2).
Proof. exact former_stale_witness_clean. Qed.
Print Assumptions C05_former_stale_witness_clean.

(* ---- algebra of the merge on conflict-free contexts (also used by C02) ---- *)
Theorem C05_merge_comm : forall l r, wf_ctx l -> wf_ctx r -> cf_ctx l r ->
  ceq (merge_ctx l r) (merge_ctx r l).
Proof. exact merge_ctx_comm. Qed.
Print Assumptions C05_merge_comm.

Theorem C05_merge_idem : forall c, wf_ctx c -> ceq (merge_ctx c c) (strip c).
Proof. exact merge_ctx_idem. Qed.
Print Assumptions C05_merge_idem.

Theorem C05_merge_assoc_flat : forall a b c k, good a -> good b -> good c ->
  cell_ok (den a k) -> cell_ok (den b k) -> cell_ok (den c k) ->
  cfc (den a k) (den b k) -> cfc (den b k) (den c k) -> cfc (den a k) (den c k) ->
  den (merge_ctx (merge_ctx a b) c) k = den (merge_ctx a (merge_ctx b c)) k.
Proof. exact merge_ctx_assoc_flat. Qed.
Print Assumptions C05_merge_assoc_flat.

(* the inbound context of a join does not depend on the order in which the upstream
   rows are listed (nor on which one is last and becomes the base): flat contexts *)
Theorem C05_upstream_perm_flat : forall ups ups' k,
  Permutation ups ups' ->
  Forall good (map out_of ups) ->
  pairwise_cf (cells ups k) -> all_ok (cells ups k) ->
  den_up ups k = den_up ups' k.
Proof. exact upstream_perm_flat. Qed.
Print Assumptions C05_upstream_perm_flat.

(* the upstream row holding the strictly highest version of a variable decides its value
   at the join, at whatever position it is listed, whatever the other rows hold *)
Theorem C05_upstream_latest_wins_flat : forall u1 t u2 k v,
  Forall good (map out_of (u1 ++ t :: u2)) ->
  lookup k (cdata (out_of t)) = Some v ->
  (forall t', In t' (u1 ++ u2) -> (getv k (cvers (out_of t')) < getv k (cvers (out_of t)))%N) ->
  den_up (u1 ++ t :: u2) k = Some (Some v, getv k (cvers (out_of t))).
Proof. exact upstream_latest_wins_flat. Qed.
Print Assumptions C05_upstream_latest_wins_flat.

(* ---- nested values: wherever no dict meets a non-dict (shape compatibility) the merge
        is the same cell-wise merge at EVERY key path, and so is the whole upstream fold ---- *)
Theorem C05_merge_pointwise_nested : forall l r ks,
  goodn l -> goodn r -> shape_compat_ctx l r ->
  den_path (merge_ctx l r) ks = dmerge (den_path l ks) (den_path r ks).
Proof. exact den_path_merge_ctx. Qed.
Print Assumptions C05_merge_pointwise_nested.

Theorem C05_upstream_perm_nested : forall ups ups' ks,
  Permutation ups ups' ->
  Forall goodn (map out_of ups) -> pairwise_sc (map out_of ups) ->
  pairwise_cf (cells_path ups ks) -> all_ok (cells_path ups ks) ->
  den_up_path ups ks = den_up_path ups' ks.
Proof. exact upstream_perm_nested. Qed.
Print Assumptions C05_upstream_perm_nested.

Theorem C05_upstream_latest_wins_nested : forall u1 t u2 ks o,
  Forall goodn (map out_of (u1 ++ t :: u2)) -> pairwise_sc (map out_of (u1 ++ t :: u2)) ->
  obs ks (VDict (cdata (out_of t))) = Some o ->
  (forall t', In t' (u1 ++ u2) ->
     (getv (path_str "" ks) (cvers (out_of t')) < getv (path_str "" ks) (cvers (out_of t)))%N) ->
  den_up_path (u1 ++ t :: u2) ks = Some (Some o, getv (path_str "" ks) (cvers (out_of t))).
Proof. exact upstream_latest_wins_nested. Qed.
Print Assumptions C05_upstream_latest_wins_nested.

(* ---- the source forms the model mirrors (regenerated from /repo on every run) ---- *)
Theorem C05_source_facts : source_facts_statement.
Proof. exact source_facts. Qed.
Print Assumptions C05_source_facts.

(* side conditions of the two theorems above are kept by the operations *)
Theorem C05_good_preserved : forall c pub l r,
  (good c -> wf_value (VDict pub) -> flat_dict pub -> lookup TASK_EXECUTION_KEY pub = None -> good (outbound c pub)) /\
  (good l -> good r -> good (merge_ctx l r)) /\
  (supported c -> wf_value (VDict pub) -> flat_dict pub -> supported (outbound c pub)) /\
  (good l -> good r -> supported l -> supported r -> supported (merge_ctx l r)).
Proof. exact good_preserved. Qed.
Print Assumptions C05_good_preserved.

(* ---- ContextView: the first dictionary holding the key decides ---- *)
Theorem C05_view_first : forall ds1 d ds2 k v,
  (forall d', In d' ds1 -> lookup k d' = None) -> lookup k d = Some v ->
  view_lookup k (ds1 ++ d :: ds2) = Some v.
Proof. exact view_lookup_first. Qed.
Print Assumptions C05_view_first.

Theorem C05_publish_view_priority : forall tid tname in_ctx env wctx input k,
  k <> TASK_EXECUTION_KEY -> k <> "__env" ->
  view_lookup k (publish_view tid tname in_ctx env wctx input) =
  match lookup k in_ctx with
  | Some v => Some v
  | None => match lookup k wctx with Some v => Some v | None => lookup k input end
  end.
Proof. exact publish_view_priority. Qed.
Print Assumptions C05_publish_view_priority.

Theorem C05_output_view_priority : forall final env wctx input k,
  k <> "__env" ->
  view_lookup k (output_view final env wctx input) =
  match lookup k final with
  | Some v => Some v
  | None => match lookup k wctx with Some v => Some v | None => lookup k input end
  end.
Proof. exact output_view_priority. Qed.
Print Assumptions C05_output_view_priority.

Theorem C05_expr_view_priority : forall tid tname env extra in_ctx wctx input k,
  k <> TASK_EXECUTION_KEY -> k <> "__env" ->
  view_lookup k (expr_view tid tname env extra in_ctx wctx input) =
  match lookup k extra with
  | Some v => Some v
  | None => match lookup k in_ctx with
            | Some v => Some v
            | None => match lookup k wctx with Some v => Some v | None => lookup k input end
            end
  end.
Proof. exact expr_view_priority. Qed.
Print Assumptions C05_expr_view_priority.

(* what a task published is what its successor's expressions read; what it only
   inherited is read otherwise; an unpublished name falls back to vars/global, then input *)
Theorem C05_published_value_visible : forall c pub tid tname env wctx input k v,
  NoDup (map fst pub) -> k <> TASK_EXECUTION_KEY -> k <> "__env" ->
  lookup k pub = Some v ->
  eval (publish_view tid tname (cdata (outbound c pub)) env wctx input) (PPath [k]) = Some v.
Proof. exact published_value_visible. Qed.
Print Assumptions C05_published_value_visible.

Theorem C05_inherited_value_visible : forall c pub tid tname env wctx input k v,
  NoDup (map fst pub) -> k <> TASK_EXECUTION_KEY -> k <> "__env" ->
  lookup k pub = None -> lookup k (cdata c) = Some v ->
  eval (publish_view tid tname (cdata (outbound c pub)) env wctx input) (PPath [k]) = Some v.
Proof. exact inherited_value_visible. Qed.
Print Assumptions C05_inherited_value_visible.

Theorem C05_unpublished_falls_back : forall c pub tid tname env wctx input k,
  NoDup (map fst pub) -> k <> TASK_EXECUTION_KEY -> k <> "__env" ->
  lookup k pub = None -> lookup k (cdata c) = None ->
  view_lookup k (publish_view tid tname (cdata (outbound c pub)) env wctx input) =
  match lookup k wctx with Some v => Some v | None => lookup k input end.
Proof. exact unpublished_falls_back. Qed.
Print Assumptions C05_unpublished_falls_back.

(* ---- which variables a task publishes for its final state: exactly the declared ones
        (unconditional since fix f28ee2d0) ---- *)
Theorem C05_get_publish_branch_exact : forall tl oc oncl k,
  nodup_spec oc -> nodup_spec oncl -> NoDup (map fst tl) ->
  result_branch (get_publish tl oc oncl) k = declared_branch tl oc oncl k.
Proof. exact get_publish_branch_exact. Qed.
Print Assumptions C05_get_publish_branch_exact.

Theorem C05_get_publish_global_exact : forall tl oc oncl k,
  nodup_spec oc -> nodup_spec oncl -> NoDup (map fst tl) ->
  result_global (get_publish tl oc oncl) k = declared_global oc oncl k.
Proof. exact get_publish_global_exact. Qed.
Print Assumptions C05_get_publish_global_exact.

(* regression: the three witnesses of the former defect F5 *)
Theorem C05_former_f5_witnesses_clean :
  result_global (get_publish [("x", PLit (VNum 1))]
                   (Some (mkPS (Some [("y", PLit (VNum 2))]) (Some [("g", PLit (VNum 7))]))) None) "g" = true /\
  result_branch (get_publish [("x", PLit (VNum 1))] None (Some (mkPS None (Some [("g", PLit (VNum 7))])))) "x" = true /\
  result_global (get_publish [] (Some (mkPS None (Some [("g", PLit (VNum 7))])))
                   (Some (mkPS (Some [("x", PLit (VNum 1))]) None))) "g" = true.
Proof. exact former_f5_witnesses_clean. Qed.
Print Assumptions C05_former_f5_witnesses_clean.

Theorem C05_get_publish_branch_priority : forall tl ob og cb cg k,
  tl <> [] -> NoDup (map fst tl) -> NoDup (map fst ob) ->
  (forall e, lookup k tl = Some e -> is_pdict e = false) ->
  (forall e, lookup k ob = Some e -> is_pdict e = false) ->
  (forall e, lookup k cb = Some e -> is_pdict e = false) ->
  exists r, get_publish tl (Some (mkPS (Some ob) og)) (Some (mkPS (Some cb) cg)) = Some r /\
            exists rb, ps_branch r = Some rb /\
            lookup k rb = match lookup k ob with
                          | Some e => Some e
                          | None => match lookup k tl with Some e => Some e | None => lookup k cb end
                          end.
Proof. exact get_publish_branch_priority. Qed.
Print Assumptions C05_get_publish_branch_priority.

(* non-vacuity: a fork whose branches satisfy the hypotheses of the order-independence
   and no-stale theorems, with the values the theorems predict
   (nv_root publishes a=1, b="sa"; nv_A re-publishes a=2; nv_B publishes c=true) *)
Example C05_nonvacuous :
  Forall good (map out_of [nv_A; nv_B]) /\
  pairwise_cf (cells [nv_A; nv_B] "a") /\ all_ok (cells [nv_A; nv_B] "a") /\
  den_up [nv_A; nv_B] "a" = Some (Some (VNum 2), 2%N) /\
  den_up [nv_B; nv_A] "a" = Some (Some (VNum 2), 2%N) /\
  wf_ctx nv_root /\
  (getv "a" (cvers (out_of nv_B)) <= getv "a" (cvers nv_root))%N /\
  lookup "a" (cdata (merge_ctx (out_of nv_B) (out_of nv_A))) = Some (VNum 2).
Proof. exact nonvacuous_fork. Qed.
