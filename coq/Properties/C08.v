(* Property C08: task policies bound and shape execution as documented.
   Only theorem statements closed by `exact`, each followed by Print Assumptions.
   Model: Model/Policy.v (run c evs = the task row after the event sequence evs under the policy
   objects c); cfg_ok c: every validated field of every present policy fits its schema;
   norm c: the evaluated values as numbers; no_timeout c: no timeout policy (or timeout 0). *)
From Coq Require Import List NArith ZArith Bool.
Require Import Mistral.Gen.States Mistral.Model.Policy.
Require Import Mistral.Proofs.PolicyBound Mistral.Proofs.PolicyPhase Mistral.Proofs.PolicyFacts Mistral.Proofs.PolicyRefuted.
Import ListNotations.
Open Scope N_scope.

(* With retry count k a task makes at most k+1 attempts: for EVERY well-typed configuration (timeouts,
   waits, pause, fail-on in any combination) and EVERY event sequence (any results, any order of job
   firings - early, late, stale -, repeated starts, resumes). *)
Theorem C08_retry_bound : forall c evs, cfg_ok c = true ->
  N.of_nat (length (s_acts (run c evs))) <= n_cnt (norm c) + 1.
Proof. exact attempts_bound. Qed.
Print Assumptions C08_retry_bound.

(* The documented rule "does another attempt follow?", in words. *)
Theorem C08_retry_rule : forall n k h, result_state (h_res h) = true ->
  (goes n k h = true <->
   k < n_cnt n /\ eff n (h_res h) <> CANCELLED /\
   (eff n (h_res h) = SUCCESS -> n_hc n = true) /\
   (n_hc n = true -> h_cont h = true) /\
   ~ (eff n (h_res h) = ERROR /\ n_hb n = true /\ h_brk h = true)).
Proof. exact goes_spec. Qed.
Print Assumptions C08_retry_rule.

(* It stops at the first success (or when continue-on is false / break-on is true): every attempt that
   is not the last one ended with an outcome after which the rule says "go on". *)
Theorem C08_retry_stops : forall c evs, cfg_ok c = true -> no_timeout c ->
  forall k h, nth_error (s_hist (run c evs)) k = Some h -> (S k < length (s_hist (run c evs)))%nat ->
  goes (norm c) (N.of_nat k) h = true.
Proof. exact c_retry_stops. Qed.
Print Assumptions C08_retry_stops.

(* It ends SUCCESS iff its last attempt counts as success: a completed task has a last attempt after
   which the rule says "stop", its state is what that attempt counts as (fail-on turns SUCCESS into
   ERROR), no job and no running action is left, the follow-ups were dispatched once for that state. *)
Theorem C08_retry_verdict : forall c evs, cfg_ok c = true -> no_timeout c ->
  let s := run c evs in
  is_completed (s_state s) = true ->
  exists hs h t, s_hist s = hs ++ [h] /\ goes (norm c) (N.of_nat (length hs)) h = false /\
    s_state s = eff (norm c) (h_res h) /\
    (s_state s = SUCCESS <-> h_res h = SUCCESS /\ n_fail (norm c) = false) /\
    s_jobs s = [] /\ length (s_acts s) = length (s_hist s) /\ Forall done_act (s_acts s) /\
    s_disp s = [(t, s_state s)].
Proof. exact c_retry_verdict. Qed.
Print Assumptions C08_retry_verdict.

(* A completed task stays as it is under every further event sequence. *)
Theorem C08_final_is_final : forall c evs evs', cfg_ok c = true -> no_timeout c ->
  is_completed (s_state (run c evs)) = true -> same_task (run c evs) (run c (evs ++ evs')).
Proof. exact c_finality. Qed.
Print Assumptions C08_final_is_final.

(* wait-after (and retry) postpone the follow-up commands without losing or repeating them. *)
Theorem C08_follow_ups_once : forall c evs, cfg_ok c = true -> no_timeout c ->
  let s := run c evs in
  (is_completed (s_state s) = false -> s_disp s = []) /\
  (is_completed (s_state s) = true -> exists t, s_disp s = [(t, s_state s)]).
Proof. exact c_follow_ups_once. Qed.
Print Assumptions C08_follow_ups_once.

(* The configured delays are waited for whenever the scheduler runs no job before its execute_at
   (C13): attempts are >= retry delay apart, the first attempt starts >= wait-before after the task
   start, the follow-ups are dispatched >= wait-after after the first completion. *)
Theorem C08_delays : forall c evs, cfg_ok c = true -> no_timeout c ->
  let s := run c evs in let n := norm c in
  s_early s = false ->
  (forall k a h, nth_error (s_acts s) (S k) = Some a -> nth_error (s_hist s) k = Some h -> h_time h + n_dl n <= a_start a) /\
  (n_pause n = false -> forall a t0, nth_error (s_acts s) 0 = Some a -> s_t0 s = Some t0 -> t0 + n_wb n <= a_start a) /\
  (forall t x h0, In (t, x) (s_disp s) -> nth_error (s_hist s) 0 = Some h0 -> h_time h0 + n_wa n <= t).
Proof. exact c_delays. Qed.
Print Assumptions C08_delays.

(* A postponed task is never lost: while DELAYED it owns exactly one job - the wait-before job at
   start + delay (no action yet), the retry job not before completion + delay, or the wait-after job
   at completion + delay carrying the postponed completion. *)
Theorem C08_wait_no_loss : forall c evs, cfg_ok c = true -> no_timeout c ->
  let s := run c evs in let n := norm c in
  s_state s = RUNNING_DELAYED ->
  exists jb, s_jobs s = [jb] /\ s_disp s = [] /\ Forall done_act (s_acts s) /\
    ((j_kind jb = JContinue /\ s_acts s = [] /\ exists t0, s_t0 s = Some t0 /\ j_at jb = t0 + n_wb n) \/
     (j_kind jb = JContinue /\ exists hs h, s_hist s = hs ++ [h] /\ h_time h + n_dl n <= j_at jb) \/
     (exists h i, s_hist s = [h] /\ j_kind jb = JComplete (h_res h) i /\ j_at jb = h_time h + n_wa n)).
Proof. exact c_delayed_task_has_its_job. Qed.
Print Assumptions C08_wait_no_loss.

(* The retry job: scheduled in the completing transaction for now + delay, retry_no incremented, results invalidated. *)
Theorem C08_retry_delay : forall n x i s,
  is_completed (s_state s) = false -> result_state x = true -> (n_wa n = 0 \/ s_waskip s = true) ->
  retry_decide (n_cnt n) (rnoN s) (eff n x) (n_hc n) (s_cont s) (n_hb n) (s_brk s) = true ->
  let s' := complete_n n x i s in
  s_state s' = RUNNING_DELAYED /\ s_jobs s' = s_jobs s ++ [mkJob (s_now s + n_dl n) JContinue] /\
  s_rno s' = Some (rnoN s + 1) /\ s_disp s' = s_disp s /\ Forall (fun a => a_acc a = false) (s_acts s').
Proof. exact retry_job_after_delay. Qed.
Print Assumptions C08_retry_delay.

(* Timeout, firing order 1: the task completed in time - the timer changes nothing but its own job row
   (from ANY state of the machine). *)
Theorem C08_timeout_after_completion : forall c s j jb, cfg_ok c = true ->
  nth_error (s_jobs s) j = Some jb -> j_kind jb = JTimeout -> j_at jb <= s_now s ->
  is_completed (s_state s) = true ->
  step c s (EFire j) = set_jobs (del_nth (s_jobs s) j) s.
Proof. exact c_timeout_after_completion. Qed.
Print Assumptions C08_timeout_after_completion.

(* Timeout, firing order 2: the task is incomplete when the timer fires (no retry policy): ERROR with the
   timeout message, at once or after the wait-after delay still to be served (from ANY state). *)
Theorem C08_timeout_before_completion : forall c s j jb, cfg_ok c = true ->
  nth_error (s_jobs s) j = Some jb -> j_kind jb = JTimeout ->
  is_completed (s_state s) = false -> n_cnt (norm c) = 0 ->
  let s' := step c s (EFire j) in let n := norm c in
  (s_state s' = ERROR /\ s_info s' = ITimeout /\ (n_wa n = 0 \/ s_waskip s = true)) \/
  (s_state s' = RUNNING_DELAYED /\ n_wa n <> 0 /\ s_waskip s = false /\
   exists l, s_jobs s' = l ++ [mkJob (s_now s + n_wa n) (JComplete ERROR ITimeout)]).
Proof. exact c_timeout_before_completion. Qed.
Print Assumptions C08_timeout_before_completion.

(* ... and a result that arrives once the task is completed (e.g. failed by the timer) changes nothing of the task. *)
Theorem C08_late_result_ignored : forall c s i x co br, cfg_ok c = true ->
  is_completed (s_state s) = true ->
  let s' := step c s (EAct i x co br) in
  s_state s' = s_state s /\ s_info s' = s_info s /\ s_jobs s' = s_jobs s /\ s_disp s' = s_disp s /\
  length (s_acts s') = length (s_acts s) /\ s_rno s' = s_rno s.
Proof. exact c_late_result_ignored. Qed.
Print Assumptions C08_late_result_ignored.

(* fail-on: a task whose fail-on holds is never SUCCESS - every configuration, every event sequence. *)
Theorem C08_fail_on : forall c evs, cfg_ok c = true -> n_fail (norm c) = true -> s_state (run c evs) <> SUCCESS.
Proof. exact fail_on_never_success. Qed.
Print Assumptions C08_fail_on.

Theorem C08_fail_on_error : forall n s,
  n_fail n = true -> n_cnt n = 0 -> (n_wa n = 0 \/ s_waskip s = true) ->
  is_completed (s_state s) = false -> is_paused (s_wf s) = false ->
  let s' := complete_n n SUCCESS INone s in
  s_state s' = ERROR /\ s_info s' = IFailOn /\ s_disp s' = s_disp s ++ [(s_now s, ERROR)].
Proof. exact fail_on_turns_success_into_error. Qed.
Print Assumptions C08_fail_on_error.

(* pause-before: the workflow is PAUSED and no action of the task exists until the workflow is resumed. *)
Theorem C08_pause_before : forall c evs, cfg_ok c = true -> no_timeout c -> n_pause (norm c) = true -> ~ In EResume evs ->
  s_acts (run c evs) = [] /\ s_state (run c evs) = IDLE /\ (In EStart evs -> s_wf (run c evs) = PAUSED).
Proof. exact c_pause_before. Qed.
Print Assumptions C08_pause_before.

(* Evaluated values that fail the schema yield the declared error (task and workflow force-failed, no
   action started), well-typed ones never raise. *)
Theorem C08_param_typing_error : forall c s, cfg_ok c = false -> is_idle (s_state s) = true ->
  let s' := start c s in
  s_state s' = ERROR /\ s_info s' = IForced /\ s_wf s' = ERROR /\ s_acts s' = s_acts s.
Proof. exact start_ill_typed. Qed.
Print Assumptions C08_param_typing_error.

Theorem C08_param_typing_ok : forall c, cfg_ok c = true ->
  forall s, (exists s', before_hooks c s = Ok s') /\ (exists s', after_hooks c s = Ok s').
Proof. exact c_no_exception. Qed.
Print Assumptions C08_param_typing_ok.

Theorem C08_int_schema : forall v, int_ok v = true <-> exists z, (0 <= z)%Z /\ (v = PInt z \/ v = PFloat true z).
Proof. exact int_ok_spec. Qed.
Print Assumptions C08_int_schema.

(* task-level policies win, task-defaults fill only what the task leaves out *)
Theorem C08_task_level_wins : forall t d,
  (forall v, f_pause t = Some v -> c_pause (build (Some t) d) = Some v) /\
  (forall v, f_wb t = Some v -> c_wb (build (Some t) d) = Some v) /\
  (forall v, f_wa t = Some v -> c_wa (build (Some t) d) = Some v) /\
  (forall v, f_failon t = Some v -> c_failon (build (Some t) d) = Some v) /\
  (forall v, f_retry t = Some v -> c_retry (build (Some t) d) = Some v) /\
  (forall v, f_timeout t = Some v -> c_timeout (build (Some t) d) = Some v) /\
  (forall v, f_conc t = Some v -> c_conc (build (Some t) d) = Some v).
Proof. exact build_task_level_wins. Qed.
Print Assumptions C08_task_level_wins.

Theorem C08_defaults_fill : forall t d,
  (f_pause t = None -> c_pause (build (Some t) d) = via f_pause d) /\
  (f_wb t = None -> c_wb (build (Some t) d) = via f_wb d) /\
  (f_wa t = None -> c_wa (build (Some t) d) = via f_wa d) /\
  (f_failon t = None -> c_failon (build (Some t) d) = via f_failon d) /\
  (f_retry t = None -> c_retry (build (Some t) d) = via f_retry d) /\
  (f_timeout t = None -> c_timeout (build (Some t) d) = via f_timeout d) /\
  (f_conc t = None -> c_conc (build (Some t) d) = via f_conc d).
Proof. exact build_defaults_fill. Qed.
Print Assumptions C08_defaults_fill.

(* With the guards of the delayed jobs: for EVERY well-typed configuration (timeouts included) and EVERY event
   sequence a completed task is final ... *)
Theorem C08_final_is_final_all : forall c evs evs', cfg_ok c = true -> is_completed (s_state (run c evs)) = true ->
  let s := run c evs in let s' := run c (evs ++ evs') in
  s_state s' = s_state s /\ s_info s' = s_info s /\ s_disp s' = s_disp s /\ s_rno s' = s_rno s /\
  length (s_acts s') = length (s_acts s).
Proof. exact c_finality_all. Qed.
Print Assumptions C08_final_is_final_all.

(* ... and its follow-up commands are dispatched at most once, only when it is completed. *)
Theorem C08_follow_ups_at_most_once : forall c evs, cfg_ok c = true ->
  let s := run c evs in
  s_disp s = [] \/ (is_completed (s_state s) = true /\ length (s_disp s) = 1%nat).
Proof. exact c_follow_ups_at_most_once. Qed.
Print Assumptions C08_follow_ups_at_most_once.

(* ---- regression: the former witnesses against finality, the verdict and the timeout clause are clean ---- *)
Theorem C08_regression_stale_continue_job :
  cfg_ok w1_cfg = true /\ s_early (run w1_cfg w1_evs) = false /\
  s_state (run w1_cfg w1_evs) = ERROR /\ s_info (run w1_cfg w1_evs) = ITimeout /\
  length (s_acts (run w1_cfg w1_evs)) = 1%nat /\ length (s_disp (run w1_cfg w1_evs)) = 1%nat /\ s_jobs (run w1_cfg w1_evs) = [].
Proof. exact stale_continue_job_ignored. Qed.
Print Assumptions C08_regression_stale_continue_job.

Theorem C08_regression_stale_wait_after_job :
  cfg_ok w2_cfg = true /\ s_early (run w2_cfg w2_evs) = false /\
  s_state (run w2_cfg w2_evs) = RUNNING /\ length (s_acts (run w2_cfg w2_evs)) = 2%nat /\
  s_disp (run w2_cfg w2_evs) = [] /\ s_jobs (run w2_cfg w2_evs) = [].
Proof. exact stale_wait_after_job_ignored. Qed.
Print Assumptions C08_regression_stale_wait_after_job.

Theorem C08_regression_late_result :
  cfg_ok w3_cfg = true /\ s_early (run w3_cfg w3_evs) = false /\
  s_state (run w3_cfg w3_evs) = ERROR /\ s_info (run w3_cfg w3_evs) = ITimeout /\
  map a_state (s_acts (run w3_cfg w3_evs)) = [ERROR] /\ s_disp (run w3_cfg w3_evs) = [(7, ERROR)].
Proof. exact late_result_of_timed_out_attempt_ignored. Qed.
Print Assumptions C08_regression_late_result.

(* ---- still refuted at full strength (open findings stale-wait-after-job / stale-continue-job): a job of an older
        delay that finds the task DELAYED again, by a newer delay scheduled after the timer failed the task, still acts ---- *)

(* "incomplete at expiry => ERROR with the timeout message": undone by the wait-after job of the attempt before the timeout *)
Theorem C08_timeout_refuted :
  exists c evs1 evs2 j jb, cfg_ok c = true /\
    nth_error (s_jobs (run c evs1)) j = Some jb /\ j_kind jb = JTimeout /\ j_at jb <= s_now (run c evs1) /\
    is_completed (s_state (run c evs1)) = false /\
    s_early (run c (evs1 ++ EFire j :: evs2)) = false /\
    s_state (run c (evs1 ++ EFire j :: evs2)) = SUCCESS /\ s_jobs (run c (evs1 ++ EFire j :: evs2)) = [] /\
    length (s_acts (run c (evs1 ++ EFire j :: evs2))) = 1%nat.
Proof. exact timeout_undone_by_stale_wait_after_job. Qed.
Print Assumptions C08_timeout_refuted.

(* ... and by the wait-before job when the timeout is shorter than wait-before *)
Theorem C08_timeout_wait_before_refuted :
  exists c evs1 evs2 j jb, cfg_ok c = true /\
    nth_error (s_jobs (run c evs1)) j = Some jb /\ j_kind jb = JTimeout /\ j_at jb <= s_now (run c evs1) /\
    is_completed (s_state (run c evs1)) = false /\
    s_early (run c (evs1 ++ EFire j :: evs2)) = false /\
    s_state (run c (evs1 ++ EFire j :: evs2)) = SUCCESS /\ s_jobs (run c (evs1 ++ EFire j :: evs2)) = [].
Proof. exact timeout_undone_by_stale_wait_before_job. Qed.
Print Assumptions C08_timeout_wait_before_refuted.

(* "every non-final failure is retried while retries remain" with a timeout: a retry is consumed without an attempt *)
Theorem C08_retry_all_attempts_refuted :
  exists c evs, cfg_ok c = true /\ s_early (run c evs) = false /\
    is_completed (s_state (run c evs)) = true /\ s_jobs (run c evs) = [] /\
    map h_res (s_hist (run c evs)) = [ERROR; ERROR] /\
    N.of_nat (length (s_acts (run c evs))) < n_cnt (norm c) + 1 /\ n_hb (norm c) = false /\ n_hc (norm c) = false.
Proof. exact stale_retry_job_consumes_a_retry. Qed.
Print Assumptions C08_retry_all_attempts_refuted.

(* non-vacuity: a well-typed configuration without timeout (retry 2 times after 3 s with continue-on and break-on,
   wait-before 2, wait-after 4, fail-on false) and a timed run with three attempts that satisfies the premises *)
Definition nv_cfg : cfg :=
  mkCfg None (Some (PInt 2)) (Some (PInt 4)) (Some (PBool false)) (Some (mkRCfg (PInt 2) (PFloat true 3) true true)) None None.
Definition nv_evs : list event :=
  [EStart; ETick 2; EFire 0; ETick 1; EAct 0 ERROR true false; ETick 4; EFire 0; ETick 3; EFire 0;
   EAct 1 SUCCESS true false; ETick 3; EFire 0; EAct 2 SUCCESS false false].

Example C08_nonvacuous :
  cfg_ok nv_cfg = true /\ no_timeout nv_cfg /\ s_early (run nv_cfg nv_evs) = false /\
  s_state (run nv_cfg nv_evs) = SUCCESS /\ length (s_acts (run nv_cfg nv_evs)) = 3%nat /\
  s_disp (run nv_cfg nv_evs) = [(13, SUCCESS)] /\
  map a_start (s_acts (run nv_cfg nv_evs)) = [2; 10; 13] /\
  s_state (run nv_cfg [EStart]) = RUNNING_DELAYED /\
  cfg_ok (mkCfg None None None None None (Some (PStr true)) None) = false.
Proof. vm_compute. repeat split. Qed.
