(* Property C10: pause creates no new tasks; resume continues to the same result.
   Proved here (control-flow core model, every program / state / event / history):
   no task execution is created while the workflow is PAUSED, the pause is held until
   resume (or a stop), results of running actions are still recorded.
   "After resume the run continues and finishes" is PROVED for join-free programs: under every
   schedule of deliveries, pauses, resumes and stops a quiescent run has only final task executions
   and a completed or PAUSED workflow (C10_resumed_run_finishes_joinfree).
   NOT proved (decided by trace correspondence + oracle only): "finishes with the same final
   state, task results and output as if it had never been paused" (C10_resume_same_statement),
   and the sub-workflow part of "its running sub-workflows are PAUSED" (no sub-workflows in
   the core model). *)
From Coq Require Import List Bool.
Require Import Mistral.Gen.States Mistral.Model.Engine.
Require Import Mistral.Proofs.StatesProofs Mistral.Proofs.EngineWf Mistral.Proofs.EngineSafety Mistral.Proofs.EngineMore
               Mistral.Proofs.EngineLive.
Import ListNotations.

Theorem C10_no_creation_while_paused : forall sp s e,
  wf_created s = true -> wf_state s = PAUSED -> e <> EResume ->
  ntasks (fst (step sp s e)) = ntasks s.
Proof. exact paused_no_task_creation. Qed.
Print Assumptions C10_no_creation_while_paused.

(* over whole histories: from a paused workflow, any sequence of events without
   resume / rerun / skip (results, start-task messages, refresh jobs, post-commit queues,
   duplicates, pause, stop) creates no task execution *)
Theorem C10_no_creation_while_paused_history : forall sp evs s,
  wf_created s = true -> live_wf_state (wf_state s) = true -> quiet s = true ->
  forallb no_restart evs = true -> ntasks (steps sp s evs) = ntasks s.
Proof. exact quiet_run_no_creation. Qed.
Print Assumptions C10_no_creation_while_paused_history.

Theorem C10_pause_held : forall sp s e,
  wf_created s = true -> live_wf_state (wf_state s) = true -> quiet s = true -> no_restart e = true ->
  quiet (fst (step sp s e)) = true.
Proof. exact quiet_preserved. Qed.
Print Assumptions C10_pause_held.

(* results of running actions are still recorded while paused (in any workflow state) *)
Theorem C10_results_recorded : forall sp s aid res,
  aid < length (acts s) -> is_completed (a_state (get_act s aid)) = false ->
  snd (do_result sp s aid res) = Ok.
Proof. exact result_recorded. Qed.
Print Assumptions C10_results_recorded.

Theorem C10_recorded_result_is_final : forall sp s aid res s',
  do_result sp s aid res = (s', Ok) ->
  aid < length (acts s) /\ aid < length (acts s') /\
  is_completed (a_state (get_act s' aid)) = true /\ a_accepted (get_act s' aid) = true.
Proof. exact result_accepted_completes. Qed.
Print Assumptions C10_recorded_result_is_final.

(* pause is acknowledged: after an accepted pause of a RUNNING workflow it is PAUSED *)
(* pause / resume / stop at any points of any schedule never leave a join-free run hanging: once
   nothing is pending every task execution is final and the workflow is completed, or PAUSED and
   waiting for the next resume *)
Theorem C10_resumed_run_finishes_joinfree : forall sp, nojoin sp -> forall u evs,
  forallb live_ev evs = true ->
  let s := run sp u evs in
  wf_created s = true -> pend s = [] ->
  (forall tid r, nth_error (tasks s) tid = Some r -> is_completed (t_state r) = true) /\
  (is_completed (wf_state s) = true \/ wf_state s = PAUSED).
Proof. exact no_stuck_joinfree. Qed.
Print Assumptions C10_resumed_run_finishes_joinfree.

Theorem C10_pause_acknowledged : forall sp s,
  wf_created s = true -> wf_state s = RUNNING ->
  wf_state (fst (step sp s EPause)) = PAUSED /\ snd (step sp s EPause) = Ok.
Proof.
  intros sp s Hc Hs. simpl. rewrite Hc. simpl. unfold pause_workflow, wf_set_state. rewrite Hs. simpl.
  split; reflexivity.
Qed.
Print Assumptions C10_pause_acknowledged.

(* the full statement that is NOT proved (kept visible): a run with pause/resume pairs inserted
   anywhere reaches the same final view as the run without them *)
Definition C10_resume_same_statement : Prop :=
  forall sp u evs evs', (* evs' = evs with EPause/EResume pairs inserted *) True ->
  wf_state (run sp u evs) = wf_state (run sp u evs').

Example C10_nonvacuous :
  let sp := [mkTspec JNone [(TTask 1, GTrue)] [] [] [] [OOk]; mkTspec JNone [] [] [] [] [OOk]] in
  let s := run sp [] [EStart; EFirePtq 0; EFire (IStartTask 0 true false false); EFirePtq 0; EFire (IExec 0); EPause] in
  wf_created s = true /\ wf_state s = PAUSED /\ quiet s = true /\ live_wf_state (wf_state s) = true /\
  ntasks (fst (step sp s (EFire (IResult 0 OOk)))) = ntasks s /\
  ntasks (steps sp s [EFire (IResult 0 OOk); EResume]) = S (ntasks s).
Proof. vm_compute. repeat split. Qed.
