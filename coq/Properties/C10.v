(* Property C10: pause creates no new tasks; resume continues to the same result.
   Proved here (control-flow core model, every program / state / event / history):
   no task execution is created while the workflow is PAUSED, the pause is held until
   resume (or a stop), results of running actions are still recorded.
   "After resume the run continues and finishes" is PROVED for join-free programs: under every
   schedule of deliveries, pauses, resumes and stops a quiescent run has only final task executions
   and a completed or PAUSED workflow (C10_resumed_run_finishes_joinfree).
   "Finishes with the same final state and task results as if it had never been paused" is PROVED
   for the class simple_b (join-free, forward, command-free definitions with constant guards):
   a run with operator pauses and resumes at any points, any number of times, ends with the same
   number of executions of every task, the same final task states and the same workflow state as
   a run that was never paused (C10_pause_resume_same_result_simple, Proofs/EngineDen.v).
   NOT proved (decided by trace correspondence + oracle only): the same statement for definitions
   with joins, cycles, engine commands or data-dependent guards, and for the output
   (C10_resume_same_statement stays visible), and the sub-workflow part of "its running
   sub-workflows are PAUSED" (no sub-workflows in the core model). *)
From Coq Require Import List Bool.
Require Import Mistral.Gen.States Mistral.Model.Engine.
Require Import Mistral.Proofs.StatesProofs Mistral.Proofs.EngineWf Mistral.Proofs.EngineSafety Mistral.Proofs.EngineMore
               Mistral.Proofs.EngineLive Mistral.Proofs.EngineDen.
From Coq Require Import Permutation.
Require Mistral.Model.StopTree Mistral.Proofs.StopTreeProofs.
Import ListNotations.

Theorem C10_no_creation_while_paused : forall sp s e,
  wf_created s = true -> wf_state s = PAUSED -> e <> EResume ->
  ntasks (fst (step sp s e)) = ntasks s.
Proof. exact paused_no_task_creation. Qed.
Print Assumptions C10_no_creation_while_paused.

(* over whole histories: from a paused workflow, any sequence of events without
   resume / rerun / skip (results, start-task messages, refresh jobs, post-commit queues,
   duplicates, pause, stop) creates no task execution *)
Theorem C10_no_creation_while_paused_history : forall sp evs s,
  wf_created s = true -> live_wf_state (wf_state s) = true -> quiet s = true ->
  forallb no_restart evs = true -> ntasks (steps sp s evs) = ntasks s.
Proof. exact quiet_run_no_creation. Qed.
Print Assumptions C10_no_creation_while_paused_history.

Theorem C10_pause_held : forall sp s e,
  wf_created s = true -> live_wf_state (wf_state s) = true -> quiet s = true -> no_restart e = true ->
  quiet (fst (step sp s e)) = true.
Proof. exact quiet_preserved. Qed.
Print Assumptions C10_pause_held.

(* results of running actions are still recorded while paused (in any workflow state) *)
Theorem C10_results_recorded : forall sp s aid res,
  aid < length (acts s) -> is_completed (a_state (get_act s aid)) = false ->
  snd (do_result sp s aid res) = Ok.
Proof. exact result_recorded. Qed.
Print Assumptions C10_results_recorded.

Theorem C10_recorded_result_is_final : forall sp s aid res s',
  do_result sp s aid res = (s', Ok) ->
  aid < length (acts s) /\ aid < length (acts s') /\
  is_completed (a_state (get_act s' aid)) = true /\ a_accepted (get_act s' aid) = true.
Proof. exact result_accepted_completes. Qed.
Print Assumptions C10_recorded_result_is_final.

(* pause is acknowledged: after an accepted pause of a RUNNING workflow it is PAUSED *)
(* pause / resume / stop at any points of any schedule never leave a join-free run hanging: once
   nothing is pending every task execution is final and the workflow is completed, or PAUSED and
   waiting for the next resume *)
Theorem C10_resumed_run_finishes_joinfree : forall sp, nojoin sp -> forall u evs,
  forallb live_ev evs = true ->
  let s := run sp u evs in
  wf_created s = true -> pend s = [] ->
  (forall tid r, nth_error (tasks s) tid = Some r -> is_completed (t_state r) = true) /\
  (is_completed (wf_state s) = true \/ wf_state s = PAUSED).
Proof. exact no_stuck_joinfree. Qed.
Print Assumptions C10_resumed_run_finishes_joinfree.

Theorem C10_pause_acknowledged : forall sp s,
  wf_created s = true -> wf_state s = RUNNING ->
  wf_state (fst (step sp s EPause)) = PAUSED /\ snd (step sp s EPause) = Ok.
Proof.
  intros sp s Hc Hs. simpl. rewrite Hc. simpl. unfold pause_workflow, wf_set_state. rewrite Hs. simpl.
  split; reflexivity.
Qed.
Print Assumptions C10_pause_acknowledged.

(* the same result as a run that was never paused, for the class simple_b: evs1 may contain operator
   pauses and resumes anywhere (plain6), evs2 contains none (plain4); both runs are quiescent and the
   first one is not left PAUSED *)
Theorem C10_pause_resume_same_result_simple : forall sp u1 u2 evs1 evs2,
  simple_b sp = true -> forallb plain6 evs1 = true -> forallb plain4 evs2 = true ->
  let s1 := run sp u1 evs1 in let s2 := run sp u2 evs2 in
  wf_created s1 = true -> pend s1 = [] -> wf_state s1 <> PAUSED -> wf_created s2 = true -> pend s2 = [] ->
  wf_state s1 = wf_state s2 /\
  forall n, n < length sp ->
    rows_named s1 n = rows_named s2 n /\ Permutation (states_named s1 n) (states_named s2 n).
Proof. exact pause_resume_same_result. Qed.
Print Assumptions C10_pause_resume_same_result_simple.

(* hypotheses met by a run paused twice (everything deliverable delivered while PAUSED each time) *)
Example C10_pause_resume_same_result_nonvacuous :
  let sA := fst (step den_demo init EStart) in
  let sB := fst (step den_demo sA EPause) in
  let e1 := drain_evs den_demo sB 200 in
  let sC := fst (step den_demo (steps den_demo sB e1) EResume) in
  let e2 := firstn 3 (drain_evs den_demo sC 200) in
  let sD := fst (step den_demo (steps den_demo sC e2) EPause) in
  let e3 := drain_evs den_demo sD 200 in
  let sE := fst (step den_demo (steps den_demo sD e3) EResume) in
  let e4 := drain_evs den_demo sE 200 in
  let evs1 := EStart :: EPause :: e1 ++ EResume :: e2 ++ EPause :: e3 ++ EResume :: e4 in
  let evs2 := EStart :: drain_evs den_demo sA 200 in
  let s1 := run den_demo [] evs1 in let s2 := run den_demo [] evs2 in
  forallb plain6 evs1 = true /\ forallb plain4 evs2 = true /\
  wf_created s1 = true /\ pend s1 = [] /\ wf_state s1 <> PAUSED /\ wf_created s2 = true /\ pend s2 = [] /\
  wf_state (steps den_demo sB e1) = PAUSED /\ 0 < length e1 /\ wf_state (steps den_demo sD e3) = PAUSED /\ 0 < length e3 /\
  wf_state s1 = CANCELLED /\ map (rows_named s1) [0; 1; 2; 3] = [1; 1; 2; 2] /\ evs1 <> evs2.
Proof. exact pause_resume_demo_ok. Qed.

(* the full statement that is NOT proved (kept visible): a run with pause/resume pairs inserted
   anywhere reaches the same final view as the run without them *)
Definition C10_resume_same_statement : Prop :=
  forall sp u evs evs', (* evs' = evs with EPause/EResume pairs inserted *) True ->
  wf_state (run sp u evs) = wf_state (run sp u evs').

Example C10_nonvacuous :
  let sp := [mkTspec JNone [(TTask 1, GTrue)] [] [] [] [OOk]; mkTspec JNone [] [] [] [] [OOk]] in
  let s := run sp [] [EStart; EFirePtq 0; EFire (IStartTask 0 true false false); EFirePtq 0; EFire (IExec 0); EPause] in
  wf_created s = true /\ wf_state s = PAUSED /\ quiet s = true /\ live_wf_state (wf_state s) = true /\
  ntasks (fst (step sp s (EFire (IResult 0 OOk)))) = ntasks s /\
  ntasks (steps sp s [EFire (IResult 0 OOk); EResume]) = S (ntasks s).
Proof. vm_compute. repeat split. Qed.

(* ====================================================================== *)
(* pause over the execution tree (Model/StopTree.v): "after a pause request is acknowledged the workflow and its
   running sub-workflows are PAUSED" - for every tree, every address, every state *)
Module Tree.
Import Mistral.Model.StopTree Mistral.Proofs.StopTreeProofs.

(* closed form of the pause walk: exactly the RUNNING executions of the subtree become PAUSED, everything else keeps its row *)
Theorem C10_pause_walk_exact : forall n c,
  Forall2 (fun r r' => r_child r' = r_child r /\ r_info r' = r_info r /\ r_sent r' = r_sent r /\
                       r_state r' = if state_eqb (r_state r) RUNNING then PAUSED else r_state r)
          (rows c n) (rows c (pause_down n)).
Proof. exact pause_down_exact. Qed.
Print Assumptions C10_pause_walk_exact.

Theorem C10_no_running_execution_below_a_paused_one : forall n c,
  forallb (fun r => negb (state_eqb (r_state r) RUNNING)) (rows c (pause_down n)) = true.
Proof. exact pause_down_no_running. Qed.
Print Assumptions C10_no_running_execution_below_a_paused_one.

(* an accepted pause request for the execution at ANY address (the request may go on upwards through Plain parent
   tasks and pause the enclosing executions): the subtree of that execution is exactly its paused form *)
Theorem C10_pause_acknowledged_subtree_paused : forall p n n' up c,
  pause_path p n = Some (n', up) -> subtree p n = Some c -> subtree p n' = Some (pause_down c).
Proof. exact pause_path_subtree. Qed.
Print Assumptions C10_pause_acknowledged_subtree_paused.

(* with-items: the pause of ONE item's sub-workflow, reported to the parent task by the scheduled job, pauses the parent
   workflow and comes down again to the sibling items - whatever the states of the tasks of the parent are *)
Theorem C10_reported_pause_comes_down_to_siblings : forall c st info sent ts ti si s k subs x n' nt,
  nth_error ts ti = Some (s, k, subs) -> nth_error subs si = Some x -> nstate x = PAUSED ->
  notify_path [(ti, si)] (mkN st info sent ts) = Some (n', nt) ->
  forallb (fun r => negb (state_eqb (r_state r) RUNNING)) (rows c n') = true.
Proof. exact reported_pause_comes_down. Qed.
Print Assumptions C10_reported_pause_comes_down_to_siblings.

Theorem C10_pause_of_root : forall n,
  in_class n = true -> (nstate n = RUNNING \/ nstate n = PAUSED) ->
  pause_at [] n = (pause_down n, Ok).
Proof. exact pause_at_root. Qed.
Print Assumptions C10_pause_of_root.

(* pause and resume never touch a finished execution and never make one report again *)
Theorem C10_pause_resume_keep_finished_executions : forall ops n,
  Forall2 (fun r r' => r_fin r = true -> r' = r) (rows false n) (rows false (fold_left apply_op ops n)).
Proof. exact finished_rows_never_change. Qed.
Print Assumptions C10_pause_resume_keep_finished_executions.

Example C10_tree_nonvacuous :
  let leaf := mkN RUNNING 0 0 [(RUNNING, Plain, [])] in
  let forced := mkN ERROR 7 1 [(RUNNING, Plain, [leaf])] in
  let mid := mkN RUNNING 0 0 [(RUNNING, Items, [forced; leaf]); (RUNNING, Plain, [leaf])] in
  let root := mkN RUNNING 0 0 [(RUNNING, Plain, [mid]); (SUCCESS, Plain, [])] in
  (* pause of the innermost execution below the finished one: goes up to the finished parent and stops there *)
  map (fun x : row => snd (fst (fst x))) (rows false (fst (pause_at [(0, 0); (0, 0); (0, 0)] root))) =
    [RUNNING; RUNNING; ERROR; PAUSED; RUNNING; RUNNING] /\
  (* pause of the sub-workflow of the Plain task of mid: goes up to the root; everything RUNNING is PAUSED *)
  map (fun x : row => snd (fst (fst x))) (rows false (fst (pause_at [(0, 0); (1, 0)] root))) =
    [PAUSED; PAUSED; ERROR; PAUSED; PAUSED; PAUSED] /\
  snd (pause_at [(0, 0); (1, 0)] root) = Ok /\
  map (fun x : row => snd (fst (fst x))) (rows false (fst (resume_at [] (fst (pause_at [] root))))) =
    [RUNNING; RUNNING; ERROR; RUNNING; RUNNING; RUNNING].
Proof. vm_compute. repeat split. Qed.
End Tree.
