(* Property C12: rerun or skip of a failed task resumes the run correctly.
   Proved (control-flow core model): the refusals (paused workflow, succeeded workflow,
   succeeded task), that rerun/skip are the only events leaving ERROR/CANCELLED and put the
   workflow back to RUNNING along a table edge, the routes taken by a skipped task.
   NOT proved: "the run then finishes as if the task had produced its new result the first time"
   (needs the denotational semantics; decided by trace correspondence + oracle), the
   with-items part (reset on/off: property C07), enclosing workflows / parent tasks (no
   sub-workflows in the core model). *)
From Coq Require Import List Bool.
Require Import Mistral.Gen.States Mistral.Model.Engine.
Require Import Mistral.Proofs.StatesProofs Mistral.Proofs.EngineWf Mistral.Proofs.EngineSafety Mistral.Proofs.EngineMore.
Import ListNotations.

Theorem C12_rerun_refused_when_paused : forall sp s tid reset,
  wf_created s = true -> wf_state s = PAUSED ->
  step sp s (ERerun tid reset) = (s, Ok) \/ step sp s (ERerun tid reset) = (s, NotEnabled).
Proof. exact rerun_refused_when_paused. Qed.
Print Assumptions C12_rerun_refused_when_paused.

Theorem C12_rerun_refused_on_succeeded_workflow : forall sp s tid reset,
  wf_created s = true -> wf_state s = SUCCESS -> tid < length (tasks s) ->
  step sp s (ERerun tid reset) = (s, Declared).
Proof. exact rerun_refused_on_success_workflow. Qed.
Print Assumptions C12_rerun_refused_on_succeeded_workflow.

Theorem C12_succeeded_task_not_rerun : forall sp s tid reset,
  tid < length (tasks s) -> t_state (get_task s tid) = SUCCESS ->
  do_start_task sp s tid false true reset = (s, Declared).
Proof. exact start_existing_refused_on_success_task. Qed.
Print Assumptions C12_succeeded_task_not_rerun.

(* only rerun / skip leave ERROR or CANCELLED ... *)
Theorem C12_only_rerun_leaves_failed : forall sp s e,
  wf_created s = true -> is_rerun e = false ->
  (wf_state s = ERROR \/ wf_state s = CANCELLED) ->
  wf_state (fst (step sp s e)) = wf_state s.
Proof. exact failed_left_only_by_rerun. Qed.
Print Assumptions C12_only_rerun_leaves_failed.

(* ... and they do it along table edges (first to RUNNING) *)
Theorem C12_rerun_moves_are_table_edges : forall sp s e,
  wf_created s = true -> reach (step_move e) (wf_state s) (wf_state (fst (step sp s e))).
Proof. exact step_wf_moves. Qed.
Print Assumptions C12_rerun_moves_are_table_edges.

Theorem C12_skipped_task_routes : forall sp r,
  t_state r = SKIPPED ->
  find_next_tasks sp r =
  match eval_clause (ts_skip (get_ts sp (t_name r))) OnSkip with
  | None => None
  | Some [] => match eval_clause (ts_succ (get_ts sp (t_name r))) OnSuccess with
               | Some l => Some l | None => None end
  | Some l => Some l
  end.
Proof. exact skipped_task_routes. Qed.
Print Assumptions C12_skipped_task_routes.

Definition C12_rerun_equiv_statement : Prop :=
  forall sp u evs, (* a history with a failed task rerun ends like the history in which the task had
                      produced its new result the first time *) True -> wf_state (run sp u evs) = wf_state (run sp u evs).

Example C12_nonvacuous :
  let sp := [mkTspec JNone [(TTask 1, GTrue)] [] [] [] [OErr; OOk]; mkTspec JNone [] [] [] [] [OOk]] in
  let s := run sp [] [EStart; EFirePtq 0; EFire (IStartTask 0 true false false); EFirePtq 0; EFire (IExec 0);
                      EFire (IResult 0 OErr); EFirePtq 0] in
  wf_state s = ERROR /\ t_state (get_task s 0) = ERROR /\
  wf_state (fst (step sp s (ERerun 0 true))) = RUNNING /\
  wf_state (steps sp s [ERerun 0 true; EFirePtq 0; EFire (IStartTask 0 false true true); EFirePtq 0; EFire (IExec 1);
                        EFire (IResult 1 OOk); EFirePtq 0; EFire (IStartTask 1 true false false); EFirePtq 0;
                        EFire (IExec 2); EFire (IResult 2 OOk); EFirePtq 0]) = SUCCESS.
Proof. vm_compute. repeat split. Qed.
