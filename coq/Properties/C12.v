(* Property C12: rerun or skip of a failed task resumes the run correctly.
   Proved (control-flow core model): the refusals (paused workflow, succeeded workflow,
   succeeded task), that rerun/skip are the only events leaving ERROR/CANCELLED and put the
   workflow back to RUNNING along a table edge, the routes taken by a skipped task.
   "The run then finishes" is PROVED for join-free programs (C12_rerun_run_finishes_joinfree: with
   reruns of failed tasks and skips at any point of any schedule - issued while the command backlog is
   empty - together with deliveries, duplicates, pause / resume / stop, a run with nothing pending has
   only final task executions and a completed or PAUSED workflow; Proofs/EngineLive.v).
   NOT proved: "... as if the task had produced its new result the first time" (equality of the results;
   decided by trace correspondence + the reference-run oracle of harness/engine_rerun.py), the
   with-items part (reset on/off: property C07), enclosing workflows / parent tasks (no
   sub-workflows in the core model).
   Second part (Model/Rerun.v, Proofs/RerunProofs.v): the propagation of a rerun / skip over the
   EXECUTION TREE (workflow executions with their parent tasks, any nesting depth, any states of
   the rows): closed form of Workflow._recursive_rerun, every enclosing workflow and parent task
   RUNNING after an accepted request whatever state they were in (RUNNING included), nothing
   outside the chain touched, exact acceptance condition, refusals change nothing, the REST
   guards, with-items reset on / off, repeated requests. *)
From Coq Require Import List Bool.
Require Import Mistral.Gen.States Mistral.Model.Engine.
Require Import Mistral.Proofs.StatesProofs Mistral.Proofs.EngineWf Mistral.Proofs.EngineSafety Mistral.Proofs.EngineMore
               Mistral.Proofs.EngineLive.
Require Mistral.Model.Rerun Mistral.Proofs.RerunProofs.
Import ListNotations.

Theorem C12_rerun_refused_when_paused : forall sp s tid reset,
  wf_created s = true -> wf_state s = PAUSED ->
  step sp s (ERerun tid reset) = (s, Ok) \/ step sp s (ERerun tid reset) = (s, NotEnabled).
Proof. exact rerun_refused_when_paused. Qed.
Print Assumptions C12_rerun_refused_when_paused.

Theorem C12_rerun_refused_on_succeeded_workflow : forall sp s tid reset,
  wf_created s = true -> wf_state s = SUCCESS -> tid < length (tasks s) ->
  step sp s (ERerun tid reset) = (s, Declared).
Proof. exact rerun_refused_on_success_workflow. Qed.
Print Assumptions C12_rerun_refused_on_succeeded_workflow.

Theorem C12_succeeded_task_not_rerun : forall sp s tid reset,
  tid < length (tasks s) -> t_state (get_task s tid) = SUCCESS ->
  do_start_task sp s tid false true reset = (s, Declared).
Proof. exact start_existing_refused_on_success_task. Qed.
Print Assumptions C12_succeeded_task_not_rerun.

(* only rerun / skip leave ERROR or CANCELLED ... *)
Theorem C12_only_rerun_leaves_failed : forall sp s e,
  wf_created s = true -> is_rerun e = false ->
  (wf_state s = ERROR \/ wf_state s = CANCELLED) ->
  wf_state (fst (step sp s e)) = wf_state s.
Proof. exact failed_left_only_by_rerun. Qed.
Print Assumptions C12_only_rerun_leaves_failed.

(* ... and they do it along table edges (first to RUNNING) *)
Theorem C12_rerun_moves_are_table_edges : forall sp s e,
  wf_created s = true -> reach (step_move e) (wf_state s) (wf_state (fst (step sp s e))).
Proof. exact step_wf_moves. Qed.
Print Assumptions C12_rerun_moves_are_table_edges.

Theorem C12_skipped_task_routes : forall sp r,
  t_state r = SKIPPED ->
  find_next_tasks sp r =
  match eval_clause (ts_skip (get_ts sp (t_name r))) OnSkip with
  | None => None
  | Some [] => match eval_clause (ts_succ (get_ts sp (t_name r))) OnSuccess with
               | Some l => Some l | None => None end
  | Some l => Some l
  end.
Proof. exact skipped_task_routes. Qed.
Print Assumptions C12_skipped_task_routes.

(* a rerun (or skipped) run goes on to completion: no lost wake-up with reruns and skips *)
Theorem C12_rerun_run_finishes_joinfree : forall sp, nojoin sp -> forall u evs,
  ok_run sp (init_with u) evs = true ->
  let s := run sp u evs in
  wf_created s = true -> pend s = [] ->
  (forall tid r, nth_error (tasks s) tid = Some r -> is_completed (t_state r) = true) /\
  (is_completed (wf_state s) = true \/ wf_state s = PAUSED).
Proof. exact no_stuck_joinfree_ops. Qed.
Print Assumptions C12_rerun_run_finishes_joinfree.

Example C12_rerun_run_finishes_nonvacuous :
  let evs1 := EStart :: drain_evs rerun_sp (fst (step rerun_sp init EStart)) 50 in
  let s1 := run rerun_sp [] evs1 in
  let evs2 := ERerun 0 true :: drain_evs rerun_sp (fst (step rerun_sp s1 (ERerun 0 true))) 50 in
  let s2 := run rerun_sp [] (evs1 ++ evs2) in
  wf_state s1 = ERROR /\ pend s1 = [] /\ ok_run rerun_sp init (evs1 ++ evs2) = true /\
  pend s2 = [] /\ wf_state s2 = SUCCESS /\ length (tasks s2) = 2.
Proof. exact no_stuck_after_rerun. Qed.

Definition C12_rerun_equiv_statement : Prop :=
  forall sp u evs, (* a history with a failed task rerun ends like the history in which the task had
                      produced its new result the first time *) True -> wf_state (run sp u evs) = wf_state (run sp u evs).

Example C12_nonvacuous :
  let sp := [mkTspec JNone [(TTask 1, GTrue)] [] [] [] [OErr; OOk]; mkTspec JNone [] [] [] [] [OOk]] in
  let s := run sp [] [EStart; EFirePtq 0; EFire (IStartTask 0 true false false); EFirePtq 0; EFire (IExec 0);
                      EFire (IResult 0 OErr); EFirePtq 0] in
  wf_state s = ERROR /\ t_state (get_task s 0) = ERROR /\
  wf_state (fst (step sp s (ERerun 0 true))) = RUNNING /\
  wf_state (steps sp s [ERerun 0 true; EFirePtq 0; EFire (IStartTask 0 false true true); EFirePtq 0; EFire (IExec 1);
                        EFire (IResult 1 OOk); EFirePtq 0; EFire (IStartTask 1 true false false); EFirePtq 0;
                        EFire (IExec 2); EFire (IResult 2 OOk); EFirePtq 0]) = SUCCESS.
Proof. vm_compute. repeat split. Qed.

(* ====================================================================== *)
(* rerun / skip over the execution tree (Model/Rerun.v)                     *)
Module Tree.
Import Mistral.Model.Rerun Mistral.Proofs.RerunProofs.

(* closed form of Workflow._recursive_rerun, for every nesting depth and every state of every row:
   exactly the workflows of the chain get (RUNNING, accepted=false), exactly their parent tasks get
   Task.set_state(RUNNING), the tree structure is unchanged *)
Theorem C12_recursive_rerun_closed_form : forall fuel d w d',
  recursive_rerun fuel d w = Some d' ->
  exists l, chain fuel d w = Some l /\
    ((forall w', wrow_of d' w' = if memn w' (chain_wfs l) then option_map wrow_running (wrow_of d w') else wrow_of d w') /\
     (forall t, trow_of d' t = if memn t (chain_tasks l) then option_map trow_running (trow_of d t) else trow_of d t)) /\
    same_ptrs d d'.
Proof. exact recursive_rerun_closed_form. Qed.
Print Assumptions C12_recursive_rerun_closed_form.

(* an accepted rerun / skip: the task's workflow and every enclosing workflow are RUNNING (and no longer
   accepted by their parents), every parent task is RUNNING - whatever state they were in before, RUNNING
   included; a skipped task is SKIPPED, a rerun one RUNNING already in the same transaction *)
Theorem C12_accepted_request_puts_chain_running : forall d t skip d' b,
  rerun_workflow d t skip = (d', Ok, b) ->
  forall tr, trow_of d t = Some tr -> wstate d (t_wf tr) <> Some PAUSED ->
  exists l, chain (fuel_of d) d (t_wf tr) = Some l /\
    (forall w, In w (chain_wfs l) -> wstate d' w = Some RUNNING /\ wacc d' w = Some false) /\
    (forall pt, In pt (chain_tasks l) -> pt <> t -> tstate d' pt = Some RUNNING) /\
    (skip = true -> tstate d' t = Some SKIPPED) /\
    (skip = false -> t_state tr = ERROR -> ~ In t (chain_tasks l) -> tstate d' t = Some RUNNING) /\
    same_ptrs d d'.
Proof. exact rerun_accepted_chain_running. Qed.
Print Assumptions C12_accepted_request_puts_chain_running.

(* a parent task whose own workflow is still RUNNING (another branch has not finished) is put back to
   RUNNING all the same: the propagation does not stop at a workflow that is alive *)
Theorem C12_running_parent_workflow_does_not_stop_propagation : forall fuel d w d' l pt,
  recursive_rerun fuel d w = Some d' -> chain fuel d w = Some l -> In pt (chain_tasks l) ->
  (exists pw, twf d pt = Some pw /\ wstate d pw = Some RUNNING) ->
  tstate d' pt = Some RUNNING.
Proof. exact rerun_through_running_parent. Qed.
Print Assumptions C12_running_parent_workflow_does_not_stop_propagation.

(* nothing outside the chain changes: other workflow rows are untouched; task rows of other workflows are
   untouched; tasks of the task's own workflow keep state and executions (only `processed` may be set) *)
Theorem C12_accepted_request_frame : forall d t skip d' b,
  rerun_workflow d t skip = (d', Ok, b) ->
  forall tr, trow_of d t = Some tr -> wstate d (t_wf tr) <> Some PAUSED ->
  exists l, chain (fuel_of d) d (t_wf tr) = Some l /\
    (forall w, ~ In w (chain_wfs l) -> wrow_of d' w = wrow_of d w) /\
    (forall t' r, t' <> t -> ~ In t' (chain_tasks l) -> trow_of d t' = Some r -> t_wf r <> t_wf tr -> trow_of d' t' = Some r) /\
    (forall t' r, t' <> t -> ~ In t' (chain_tasks l) -> trow_of d t' = Some r ->
       exists r', trow_of d' t' = Some r' /\ t_state r' = t_state r /\ t_execs r' = t_execs r /\ t_wf r' = t_wf r).
Proof. exact rerun_accepted_frame. Qed.
Print Assumptions C12_accepted_request_frame.

(* acceptance, exactly: every workflow of the chain must be able to go (back) to RUNNING, i.e. none of them
   SUCCESS (or SKIPPED / unknown) *)
Theorem C12_propagation_accepted_iff_no_succeeded_ancestor : forall fuel d w l,
  chain fuel d w = Some l ->
  ((forall w', In w' (chain_wfs l) -> wcan d w' = true) -> exists d', recursive_rerun fuel d w = Some d') /\
  (forall w', In w' (chain_wfs l) -> wcan d w' = false -> recursive_rerun fuel d w = None) /\
  (forall s, can_run s = negb (mem s [SUCCESS; SKIPPED]) && is_valid s).
Proof. exact propagation_acceptance. Qed.
Print Assumptions C12_propagation_accepted_iff_no_succeeded_ancestor.

(* refusals change nothing *)
Theorem C12_refused_request_changes_nothing : forall d t skip d' b,
  rerun_workflow d t skip = (d', Declared, b) -> d' = d /\ b = false.
Proof. exact rerun_refused_changes_nothing. Qed.
Print Assumptions C12_refused_request_changes_nothing.

Theorem C12_request_in_succeeded_tree_refused : forall d t skip tr l w,
  trow_of d t = Some tr -> wstate d (t_wf tr) <> Some PAUSED ->
  chain (fuel_of d) d (t_wf tr) = Some l -> In w (chain_wfs l) ->
  (wstate d w = Some SUCCESS \/ wstate d w = Some SKIPPED) ->
  rerun_workflow d t skip = (d, Declared, false).
Proof. exact rerun_refused_when_ancestor_cannot_run. Qed.
Print Assumptions C12_request_in_succeeded_tree_refused.

Theorem C12_request_in_paused_workflow_changes_nothing : forall d t skip tr,
  trow_of d t = Some tr -> wstate d (t_wf tr) = Some PAUSED -> rerun_workflow d t skip = (d, Ok, false).
Proof. exact rerun_paused_changes_nothing. Qed.
Print Assumptions C12_request_in_paused_workflow_changes_nothing.

(* REST: a task that is not in ERROR can be neither rerun nor skipped *)
Theorem C12_api_refuses_task_not_in_error : forall d t ns reset wi tr,
  trow_of d t = Some tr -> t_state tr <> ERROR -> api_put d t ns reset wi = (d, Declared, false).
Proof. exact api_refuses_unless_error. Qed.
Print Assumptions C12_api_refuses_task_not_in_error.

Theorem C12_succeeded_task_start_refused : forall d t reset items tr,
  trow_of d t = Some tr -> t_state tr = SUCCESS -> start_rerun d t reset items = (d, Declared).
Proof. exact start_rerun_refuses_succeeded. Qed.
Print Assumptions C12_succeeded_task_start_refused.

(* request + delivery of the start request *)
Theorem C12_rerun_then_start_everything_running : forall d t d1 reset items tr,
  rerun_workflow d t false = (d1, Ok, true) ->
  trow_of d t = Some tr -> wstate d (t_wf tr) <> Some PAUSED -> t_state tr = ERROR ->
  exists l d2, chain (fuel_of d) d (t_wf tr) = Some l /\ start_rerun d1 t reset items = (d2, Ok) /\
    tstate d2 t = Some RUNNING /\
    (forall w, In w (chain_wfs l) -> wstate d2 w = Some RUNNING) /\
    (forall pt, In pt (chain_tasks l) -> tstate d2 pt = Some RUNNING).
Proof. exact rerun_then_start_all_running. Qed.
Print Assumptions C12_rerun_then_start_everything_running.

(* with-items *)
Theorem C12_items_reset_off_exactly_failed_items : forall count l i,
  In i (rerun_items false count l) <->
  i < count /\ forall a, In a l -> a_index a = i ->
     is_completed (a_state a) = true /\ (a_accepted a = true -> a_state a = ERROR \/ a_state a = CANCELLED).
Proof. exact rerun_items_noreset_exact. Qed.
Print Assumptions C12_items_reset_off_exactly_failed_items.

Theorem C12_items_reset_off_keeps_successful : forall l a,
  In a l -> a_accepted a = true -> a_state a = SUCCESS -> In a (reset_execs false l).
Proof. exact reset_off_keeps_successful. Qed.
Print Assumptions C12_items_reset_off_keeps_successful.

Theorem C12_items_reset_on_all_items : forall count l,
  (forall a, In a l -> is_completed (a_state a) = true) -> rerun_items true count l = seq 0 count.
Proof. exact rerun_items_reset_all. Qed.
Print Assumptions C12_items_reset_on_all_items.

Theorem C12_items_batch_within_concurrency : forall count cap l,
  incl (next_indexes count cap l) (free_indexes count l) /\ NoDup (next_indexes count cap l) /\
  (forall c, cap = Some c -> length (next_indexes count cap l) <= c).
Proof. exact next_indexes_batch. Qed.
Print Assumptions C12_items_batch_within_concurrency.

(* repeated requests *)
Theorem C12_repeated_propagation_idempotent : forall fuel d w d',
  recursive_rerun fuel d w = Some d' -> recursive_rerun fuel d' w = Some d'.
Proof. exact recursive_rerun_idempotent. Qed.
Print Assumptions C12_repeated_propagation_idempotent.

Theorem C12_reruns_compose : forall d t skip d' b ops tr,
  rerun_workflow d t skip = (d', Ok, b) -> trow_of d t = Some tr -> wstate d (t_wf tr) <> Some PAUSED ->
  exists l, chain (fuel_of d) d (t_wf tr) = Some l /\
    forall w, In w (chain_wfs l) -> wstate (fold_left apply_op ops d') w = Some RUNNING.
Proof. exact accepted_chain_stays_running. Qed.
Print Assumptions C12_reruns_compose.

(* non-vacuity: depth 2, the root workflow still RUNNING because of a parallel branch (the seeded case),
   sub-workflows and their parent tasks in ERROR; a with-items task with one failed item *)
Example C12_tree_nonvacuous :
  let d := mkDb [mkW RUNNING false None; mkW ERROR true (Some 0); mkW ERROR true (Some 2)]
                [mkT 0 ERROR true true []; mkT 0 RUNNING false false [mkA 0 RUNNING false];
                 mkT 1 ERROR true true []; mkT 2 ERROR true true [mkA 0 SUCCESS true; mkA 1 ERROR true; mkA 2 SUCCESS true]] in
  chain (fuel_of d) d 2 = Some [(2, Some 2); (1, Some 0); (0, None)] /\
  (let '(d1, o, st) := rerun_workflow d 3 false in
   o = Ok /\ st = true /\
   map w_state (wfs d1) = [RUNNING; RUNNING; RUNNING] /\ map t_state (tasks d1) = [RUNNING; RUNNING; RUNNING; RUNNING] /\
   nth_error (tasks d1) 1 = nth_error (tasks d) 1 /\
   (let '(d2, o2) := start_rerun d1 3 false (Some (3, None)) in
    o2 = Ok /\ option_map t_execs (nth_error (tasks d2) 3) =
               Some [mkA 0 SUCCESS true; mkA 1 ERROR false; mkA 2 SUCCESS true; mkA 1 RUNNING false])) /\
  rerun_items false 3 [mkA 0 SUCCESS true; mkA 1 ERROR true; mkA 2 SUCCESS true] = [1] /\
  rerun_items true 3 [mkA 0 SUCCESS true; mkA 1 ERROR true; mkA 2 SUCCESS true] = [0; 1; 2] /\
  rerun_workflow (mkDb [mkW SUCCESS true None; mkW ERROR true (Some 0)] [mkT 0 ERROR true true []; mkT 1 ERROR true true []]) 1 false
    = (mkDb [mkW SUCCESS true None; mkW ERROR true (Some 0)] [mkT 0 ERROR true true []; mkT 1 ERROR true true []], Declared, false).
Proof. vm_compute. repeat split. Qed.
End Tree.
