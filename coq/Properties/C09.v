(* Property C09: a sub-workflow and its parent task stay consistent.
   COMPONENT level: the input/params split and system params of WorkflowAction.schedule, root
   propagation, resolve_workflow_definition, the result hand-off classes.
   (Engine-level theorems over Model/Engine.v - parent mirrors child over whole runs, continue
   once - are added below by the engine proofs.)
   Only theorem statements closed by `exact`, each followed by Print Assumptions. *)
From Coq Require Import List Bool String Ascii Arith.
Require Import Mistral.Gen.States Mistral.Model.SubWf Mistral.Proofs.SubWfProofs.
Import ListNotations.
Open Scope string_scope.

(* ---- input keys not declared by the child become params; nothing is dropped ---- *)
(* all dictionaries (any keys, any size; python dict = unique keys), any declared list, any
   system params; compared pointwise at every key *)

Theorem C09_param_split_input : forall decl input sys inp' par' k,
  NoDup (map fst input) -> param_split decl input sys = Some (inp', par') ->
  lookup k inp' = if mem_key k decl then lookup k input else None.
Proof. exact param_split_input. Qed.
Print Assumptions C09_param_split_input.

Theorem C09_param_split_params : forall decl input sys inp' par' k,
  NoDup (map fst input) -> param_split decl input sys = Some (inp', par') ->
  lookup k par' =
    match lookup k input with
    | Some v => if mem_key k decl then lookup k sys else Some v
    | None => lookup k sys
    end.
Proof. exact param_split_params. Qed.
Print Assumptions C09_param_split_params.

Theorem C09_param_split : forall decl input sys inp' par' k v,
  NoDup (map fst input) -> param_split decl input sys = Some (inp', par') -> lookup k input = Some v ->
  (mem_key k decl = true /\ lookup k inp' = Some v) \/
  (mem_key k decl = false /\ lookup k par' = Some v /\ lookup k inp' = None).
Proof. exact param_split_nothing_dropped. Qed.
Print Assumptions C09_param_split.

(* ---- root / parent task / index / namespace / notify reach the child as the engine set them ---- *)
(* unconditional (since the fix "sub-workflow input cannot override the parameters linking it to
   its parent"): for every started child and every param the engine has set *)
Theorem C09_sys_params_kept : forall decl input sys inp' par' k,
  NoDup (map fst input) -> param_split decl input sys = Some (inp', par') ->
  lookup k sys <> None -> lookup k par' = lookup k sys.
Proof. exact param_split_sys_kept. Qed.
Print Assumptions C09_sys_params_kept.

(* an undeclared input key with the name of such a param is not silently dropped or applied: the
   call is refused with the declared InputException, exactly in that case *)
Theorem C09_reserved_refused : forall decl input sys,
  NoDup (map fst input) ->
  (param_split decl input sys = None <->
   exists k, lookup k input <> None /\ mem_key k decl = false /\ lookup k sys <> None).
Proof. exact param_split_refused_iff. Qed.
Print Assumptions C09_reserved_refused.

(* every descendant, at any nesting depth, records the root of the tree *)
Theorem C09_root_propagation : forall ids r, Forall (fun x => x = r) (descend None r ids).
Proof. exact root_propagation. Qed.
Print Assumptions C09_root_propagation.

(* ---- resolve_workflow_definition ---- *)

(* '.' not in the spec name (workbook grammar [\w-]+): the character-set rstrip yields exactly
   "wb." and the computed workbook name is wb; all workbook names (dots allowed), all spec names *)
Theorem C09_resolve_name : forall wb spec,
  mem_char dot spec = false ->
  rstrip (wb ++ "." ++ spec) spec = wb ++ "." /\ wb_name_of (wb ++ "." ++ spec) spec = wb.
Proof. exact wb_name_exact. Qed.
Print Assumptions C09_resolve_name.

(* when the rstrip over-strips: exactly when the spec name contains '.', and then the
   computed workbook name is never the right one *)
Theorem C09_resolve_overstrip : forall wb spec,
  mem_char dot spec = true ->
  wb_name_of (wb ++ "." ++ spec) spec = drop_last (rstrip wb spec) /\
  (wb <> EmptyString -> wb_name_of (wb ++ "." ++ spec) spec <> wb).
Proof. exact wb_name_overstrip. Qed.
Print Assumptions C09_resolve_overstrip.

Theorem C09_resolve_order : forall db wb pspec ns child,
  mem_char dot pspec = false ->
  resolve db (wb ++ "." ++ pspec) pspec ns child =
    match load db (wb ++ "." ++ child) ns with
    | Some d => Some d
    | None => load db child ns
    end.
Proof. exact resolve_order. Qed.
Print Assumptions C09_resolve_order.

Theorem C09_resolve_standalone : forall db p ns child, resolve db p p ns child = load db child ns.
Proof. exact resolve_standalone. Qed.
Print Assumptions C09_resolve_standalone.

(* ---- result hand-off classes ---- *)

Theorem C09_result_class : forall s,
  (result_to_parent s = SendStored <-> s = SUCCESS) /\
  (result_to_parent s = SendError <-> s = ERROR) /\
  (result_to_parent s = SendCancel <-> s = CANCELLED) /\
  (result_to_parent s = SendRefused <-> is_completed s = false \/ s = SKIPPED).
Proof. exact result_class. Qed.
Print Assumptions C09_result_class.

Theorem C09_parent_mirrors_child_step : forall s,
  result_to_parent s <> SendRefused ->
  (parent_task_state s = SUCCESS <-> s = SUCCESS) /\
  (parent_task_state s = ERROR <-> s = ERROR) /\
  (parent_task_state s = CANCELLED <-> s = CANCELLED) /\
  is_completed (parent_task_state s) = true.
Proof. exact parent_mirrors_child. Qed.
Print Assumptions C09_parent_mirrors_child_step.

(* non-vacuity *)
Example C09_nonvacuous :
  param_split ["a"; "b"] [("a", 1); ("zz", 3); ("b", 2)] (sys_params 90 91 0 92 None) =
    Some ([("a", 1); ("b", 2)],
          [("root_execution_id", 90); ("task_execution_id", 91); ("index", 0); ("namespace", 92); ("zz", 3)]) /\
  (* the former override witness is refused; `notify` is reserved only when the engine set it *)
  param_split ["a"] [("a", 1); ("root_execution_id", 7); ("namespace", 8)] (sys_params 90 91 0 92 None) = None /\
  param_split ["a"] [("a", 1); ("notify", 7)] (sys_params 90 91 0 92 None) <> None /\
  param_split ["a"] [("a", 1); ("notify", 7)] (sys_params 90 91 0 92 (Some 93)) = None /\
  wb_name_of "my.wb.wf-1" "wf-1" = "my.wb" /\
  wb_name_of "wb.a.b" "a.b" = "" /\
  resolve [mkDef "wb.child" "" 1; mkDef "child" "" 2; mkDef "child" "ns" 3] "wb.p" "p" "ns" "child" = Some 1 /\
  resolve [mkDef "child" "" 2; mkDef "child" "ns" 3] "wb.p" "p" "ns" "child" = Some 3 /\
  descend None 5 [6; 7; 8] = [5; 5; 5].
Proof. vm_compute. repeat split; discriminate. Qed.

(* ---- every descendant evaluates its expressions against the ROOT execution's environment ---- *)
(* Gen/EnvSites.v is translated from the source on every run: get_workflow_environment_dict and the
   environment layer of every ContextView(...) construction.  For every root environment E, every tree
   depth d, every execution e of the tree and every site that builds the context of an expression of a
   workflow / task / action (all sites but the two named in Model/EnvTree.v exempt_sites), env() is E *)
Require Import Mistral.Gen.EnvSites Mistral.Model.EnvTree Mistral.Proofs.EnvTreeProofs.

Theorem C09_env_root_everywhere : forall i E d e s,
  in_tree (mk_root i E) d e -> In s env_sites -> env_exempt s = false ->
  env_seen s e = Some E.
Proof. exact env_root_everywhere. Qed.
Print Assumptions C09_env_root_everywhere.

(* the translated function alone: at every depth it yields the root's own params['env'], whatever
   environment an intermediate caller handed to the descendant; and every descendant records the root *)
Theorem C09_env_dict_is_roots : forall i E d e,
  in_tree (mk_root i E) d e -> get_workflow_environment_dict e = Some E.
Proof. exact env_dict_in_tree. Qed.
Print Assumptions C09_env_dict_is_roots.

Theorem C09_env_tree_root_link : forall i E d e,
  in_tree (mk_root i E) (S d) e -> ex_root_id e = Some i /\ ex_root e = Some (mk_root i E).
Proof. exact root_id_in_tree. Qed.
Print Assumptions C09_env_tree_root_link.

(* every caller of expr.evaluate* in mistral/workflow, mistral/engine takes its context from a listed site *)
Theorem C09_env_uses_have_sites : forall u, In u env_uses -> exists s, In s env_sites /\ site_name s = snd u.
Proof. exact uses_have_sites. Qed.
Print Assumptions C09_env_uses_have_sites.

(* a site reading the execution's own params (the shortcut {'__env': wf_ex.params.get('env', {})}) is
   refuted: in every descendant that was not handed an environment it sees {} *)
Theorem C09_env_own_params_refuted : forall s i E d p j,
  site_env s = EnvOwnParams -> E <> [] -> in_tree (mk_root i E) d p ->
  in_tree (mk_root i E) (S d) (spawn p j []) /\ env_seen s (spawn p j []) = Some [] /\
  env_seen s (spawn p j []) <> Some E.
Proof. exact own_params_site_refuted. Qed.
Print Assumptions C09_env_own_params_refuted.

Theorem C09_env_nonvacuous :
  (forall n, In n ["data_flow.add_workflow_variables_to_context"; "data_flow.publish_variables";
                   "data_flow.evaluate_workflow_output"; "tasks.Task.get_expression_context";
                   "tasks.RegularTask._get_target"; "actions.RegularAction.schedule";
                   "direct_workflow.DirectWorkflowController._find_next_tasks"] ->
             exists s, In s env_sites /\ site_name s = n /\ env_exempt s = false /\
                       env_seen s (node_at nv_E nv_steps) = Some nv_E) /\
  ex_params_env (node_at nv_E nv_steps) = Some [] /\
  ex_params_env (node_at nv_E [(1, []); (2, [("tok", "MID")])]) = Some [("tok", "MID")] /\
  List.length env_uses >= 10.
Proof. exact env_nonvacuous. Qed.
Print Assumptions C09_env_nonvacuous.
