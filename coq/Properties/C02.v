(* Property C02: the result of a run does not depend on event order, timing or engine caches.
   Proved here (all inputs): the data-flow merge at joins is order independent on conflict-free
   contexts (flat and nested), the dispatcher's command sort only permutes commands, dropping the
   definition caches is the identity on the engine state, and the only dependence of the engine
   model on the database's random id order vanishes when task names are unique.
   Schedule independence itself is PROVED for join-free, forward (acyclic), command-free programs whose
   guards evaluate: for any two delivery orders (and any two orders of the database's random ids), once
   nothing is pending every task has run the same number of times with the same multiset of final
   states (C02_schedule_independent_simple, Proofs/EngineDen.v).
   NOT proved: the statement for programs with joins / engine commands
   (C02_schedule_independent_statement): decided by multi-schedule exploration of the real engine +
   trace correspondence (suite C02). *)
From Coq Require Import List ZArith NArith Bool String Permutation.
Require Import Mistral.Gen.States Mistral.Model.PySort Mistral.Model.Engine.
Require Import Mistral.Model.Ctx Mistral.Proofs.CtxProofs.
Require Import Mistral.Proofs.EngineMore Mistral.Proofs.EngineOrder Mistral.Proofs.EngineDen.
Import ListNotations.

(* ---- data flow: the inbound context of a join is independent of the order of the upstream rows
        (the DB lists them ORDER BY random id; the last one is the base of the merge) ---- *)
Theorem C02_merge_comm : forall l r, wf_ctx l -> wf_ctx r -> cf_ctx l r ->
  ceq (merge_ctx l r) (merge_ctx r l).
Proof. exact merge_ctx_comm. Qed.
Print Assumptions C02_merge_comm.

Theorem C02_merge_idem : forall c, wf_ctx c -> ceq (merge_ctx c c) (strip c).
Proof. exact merge_ctx_idem. Qed.
Print Assumptions C02_merge_idem.

Theorem C02_upstream_order_irrelevant_flat : forall ups ups' k,
  Permutation ups ups' ->
  Forall good (map out_of ups) ->
  pairwise_cf (cells ups k) -> all_ok (cells ups k) ->
  den_up ups k = den_up ups' k.
Proof. exact upstream_perm_flat. Qed.
Print Assumptions C02_upstream_order_irrelevant_flat.

Theorem C02_upstream_order_irrelevant_nested : forall ups ups' ks,
  Permutation ups ups' ->
  Forall goodn (map out_of ups) -> pairwise_sc (map out_of ups) ->
  pairwise_cf (cells_path ups ks) -> all_ok (cells_path ups ks) ->
  den_up_path ups ks = den_up_path ups' ks.
Proof. exact upstream_perm_nested. Qed.
Print Assumptions C02_upstream_order_irrelevant_nested.

(* ---- dispatcher: the sort (exact model of CPython's list.sort driven by the dispatcher's
        non-transitive comparator) never loses or duplicates a command ---- *)
Theorem C02_command_sort_is_permutation : forall (l : list cmd), Permutation l (sort_cmds l).
Proof. exact (py_sort_perm cmd_lt CNoop). Qed.
Print Assumptions C02_command_sort_is_permutation.

(* ---- caches: dropping the in-memory definition caches changes nothing ---- *)
Theorem C02_evict_identity : forall sp s, step sp s EEvict = (s, Ok).
Proof. reflexivity. Qed.
Print Assumptions C02_evict_identity.

(* ---- id order: with unique task names the row chosen as "the execution of task n" does not
        depend on the ids ---- *)
Theorem C02_id_order_irrelevant_when_names_unique : forall s s' name,
  same_rows (tasks s) (tasks s') -> NoDup (map t_name (tasks s)) ->
  find_last_by_name s name = find_last_by_name s' name.
Proof. exact last_by_name_id_independent. Qed.
Print Assumptions C02_id_order_irrelevant_when_names_unique.

(* two complete runs of the same program under different delivery orders and different id orders ran the
   same tasks the same number of times with the same final states *)
Theorem C02_schedule_independent_simple : forall sp u1 u2 evs1 evs2,
  simple_b sp = true -> forallb plain4 evs1 = true -> forallb plain4 evs2 = true ->
  let s1 := run sp u1 evs1 in let s2 := run sp u2 evs2 in
  wf_created s1 = true -> pend s1 = [] -> wf_created s2 = true -> pend s2 = [] ->
  forall n, n < List.length sp ->
    rows_named s1 n = rows_named s2 n /\ Permutation (states_named s1 n) (states_named s2 n).
Proof. exact schedule_independent. Qed.
Print Assumptions C02_schedule_independent_simple.

(* the global statement (joins, engine commands), not proved *)
Definition C02_schedule_independent_statement : Prop :=
  forall sp u u' evs evs', (* evs, evs' complete schedules of the same den_class program *) True ->
  wf_state (run sp u evs) = wf_state (run sp u' evs').

Example C02_nonvacuous :
  sort_cmds [CRunTask 2 OnSuccess true None; CRunTask 0 OnSuccess false None; CRunTask 1 OnSuccess true None]
  = [CRunTask 0 OnSuccess false None; CRunTask 1 OnSuccess true None; CRunTask 2 OnSuccess true None].
Proof. vm_compute. reflexivity. Qed.
