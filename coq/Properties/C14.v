(* Property C14: definition validation is total; accepted definitions are stable and
   runnable; workbook members are cut out as written.
   Only theorem statements closed by `exact`, each followed by Print Assumptions.
   "Total for arbitrary TEXT" is decided by the run of harness/suites/C14.py, not by
   a theorem (PyYAML, the expression grammars and `re` are outside the model). *)
From Coq Require Import List String ZArith Bool.
Require Import Mistral.Model.Jv Mistral.Model.Slice Mistral.Model.Norm Mistral.Model.Schema Mistral.Model.Build Mistral.Model.SpecCache.
Require Import Mistral.Gen.Schemas Mistral.Gen.SpecCache Mistral.Gen.Reparse.
Require Import Mistral.Proofs.SliceProofs Mistral.Proofs.NormProofs Mistral.Proofs.BuildProofs Mistral.Proofs.SpecCacheProofs.
Import ListNotations.
Open Scope string_scope.

(* ---- slicing (parser._parse_def_from_wb, the slicer of fix 1e28c643) ---- *)

(* For every text  header / section key at the top indentation / earlier lines of the section /
   member rendered at indentation k / rest: the slicer returns exactly the member (name line +
   body, de-indented).  The earlier lines are arbitrary apart from the shape of a YAML mapping:
   inside the section, members at indentation k, none of them the key `name:` itself.  Deeper
   lines (a task named like the member, texts containing the section name) are irrelevant:
   the hypothesis "no earlier line reads name:" of the unrepaired slicer is gone. *)
Theorem C14_slice_faithful :
  forall sec header secline before top k m after,
    header_ok sec top header = true ->
    is_content secline = true -> key_is secline sec = true -> lead_ws secline = top ->
    before_ok (m_name m ++ ":") top k before = true ->
    top < k ->
    is_content (m_name m ++ ":") = true ->
    lead_ws (m_name m ++ ":") = 0 ->
    key_of (m_name m ++ ":") = Some (m_name m ++ ":") ->
    forallb body_line_ok (m_body m) = true ->
    tail_ok k after ->
    slice sec (m_name m ++ ":") (header ++ secline :: before ++ render_member k m ++ after)
    = Some (finish ((m_name m ++ ":") :: m_body m)).
Proof. exact slice_faithful. Qed.
Print Assumptions C14_slice_faithful.

(* the witnesses of the old defect (finding F3 and its family) are cut correctly *)
Theorem C14_slice_regression :
  slice "workflows:" "wf2:" f3_lines = Some (finish ["wf2:"; "  tasks:"; "    t:"; "      action: std.echo output=1"]) /\
  slice "workflows:" "wf1:" quoted_lines = Some (finish ["'wf1' : # c"; "  tasks:"; "    t:"; "      action: std.noop"]) /\
  slice "actions:" "wf1:" quoted_lines = Some (finish ["wf1: {base: std.noop}"]).
Proof. exact slice_regression. Qed.
Print Assumptions C14_slice_regression.

(* the slicer does not raise when the section key is there *)
Theorem C14_slice_defined : forall sec item header secline rest top,
  header_ok sec top header = true ->
  is_content secline = true -> key_is secline sec = true -> lead_ws secline = top ->
  slice sec item (header ++ secline :: rest) <> None.
Proof. exact slice_defined. Qed.
Print Assumptions C14_slice_defined.

(* ---- stored form (constructors' in-place normalisation, to_dict) ---- *)

Theorem C14_norm_idempotent_wf_list : forall (pp : string -> obj),
  (forall s, NoDup (map fst (pp s))) ->
  forall d, norm_wf_list pp (norm_wf_list pp d) = norm_wf_list pp d.
Proof. exact norm_wf_list_idem. Qed.
Print Assumptions C14_norm_idempotent_wf_list.

Theorem C14_norm_idempotent_action_list : forall (pp : string -> obj),
  (forall s, NoDup (map fst (pp s))) ->
  forall d, norm_action_list pp (norm_action_list pp d) = norm_action_list pp d.
Proof. exact norm_action_list_idem. Qed.
Print Assumptions C14_norm_idempotent_action_list.

Theorem C14_norm_idempotent_workbook : forall (pp : string -> obj),
  (forall s, NoDup (map fst (pp s))) ->
  forall d, norm_wb pp (norm_wb pp d) = norm_wb pp d.
Proof. exact norm_wb_idem. Qed.
Print Assumptions C14_norm_idempotent_workbook.

(* spec_of (to_dict (spec_of d)) = spec_of d : the spec the engine rebuilds from the stored
   dict is the spec that was stored (name, type, tasks, commands, merged inputs, data) *)
Theorem C14_spec_roundtrip : forall (pp : string -> obj),
  (forall s, NoDup (map fst (pp s))) ->
  forall w, spec_of pp (to_dict (spec_of_wf pp w)) = Some (spec_of_wf pp w).
Proof. exact spec_roundtrip_wf. Qed.
Print Assumptions C14_spec_roundtrip.

(* ---- schema guards build, per spec class, for the schemas generated from the classes ---- *)

Theorem C14_guards_list_specs : forall re d,
  (validate re S_WorkflowListSpec d = true ->
   exists kvs, d = JObj kvs /\ forall k v, In (k, v) kvs -> String.eqb k "version" = false -> is_obj v = true).
Proof. exact guards_wf_list. Qed.
Print Assumptions C14_guards_list_specs.

Theorem C14_guards_action_list_spec : forall re d,
  (validate re S_ActionListSpec d = true ->
   exists kvs, d = JObj kvs /\ forall k v, In (k, v) kvs -> String.eqb k "version" = false -> is_obj v = true).
Proof. exact guards_action_list. Qed.
Print Assumptions C14_guards_action_list_spec.

Theorem C14_guards_retry : forall re d,
  validate re S_RetrySpec d = true -> is_str d = false -> retry_ok d = true.
Proof. exact guards_retry. Qed.
Print Assumptions C14_guards_retry.

Theorem C14_guards_publish : forall re d, validate re S_PublishSpec d = true -> is_obj d = true.
Proof. exact guards_publish. Qed.
Print Assumptions C14_guards_publish.

Theorem C14_guards_task_defaults : forall re d, validate re S_TaskDefaultsSpec d = true -> is_obj d = true.
Proof. exact guards_defaults. Qed.
Print Assumptions C14_guards_task_defaults.

Theorem C14_guards_on_clause : forall re, re pat_nonspace "next" = true -> forall d,
  validate re S_OnClauseSpec d = true ->
  match d with
  | JObj kvs => next_ok (match lookup "next" kvs with Some x => x | None => JNull end) = true
  | _ => next_ok d = true
  end.
Proof. exact guards_onclause. Qed.
Print Assumptions C14_guards_on_clause.

Theorem C14_guards_action : forall re pp d,
  validate re S_ActionSpec d = true ->
  exists a, d = JObj a /\
    (present (lookup "name" a) && present (lookup "base" a) && entries_ok (lookup "input" a)
     && match lookup "base" a with Some b => is_str b | None => false end) = true /\
    merge_ok (lookup "base-input" a) (match action_cmd a with Some c => pp c | None => [] end) = true.
Proof. exact guards_action. Qed.
Print Assumptions C14_guards_action.

Theorem C14_guards_workbook : forall re d,
  validate re S_WorkbookSpec d = true ->
  exists wb, d = JObj wb /\ present (lookup "name" wb) = true /\
    (forall x, nonnull (lookup "actions" wb) = Some x -> is_obj x = true) /\
    (forall x, nonnull (lookup "workflows" wb) = Some x -> is_obj x = true).
Proof. exact guards_workbook. Qed.
Print Assumptions C14_guards_workbook.

Theorem C14_guards_task_direct : forall re t,
  validate re S_DirectWorkflowTaskSpec (JObj t) = true -> task_pre_ok t = true /\ with_items_ok t = true.
Proof. exact guards_task_direct. Qed.
Print Assumptions C14_guards_task_direct.

Theorem C14_guards_task_reverse : forall re t,
  validate re S_ReverseWorkflowTaskSpec (JObj t) = true -> task_pre_ok t = true /\ with_items_ok t = true.
Proof. exact guards_task_reverse. Qed.
Print Assumptions C14_guards_task_reverse.

Theorem C14_guards_workflow : forall re w,
  validate re S_DirectWorkflowSpec (JObj w) = true ->
  entries_ok (lookup "input" w) = true /\ exists ts, lookup "tasks" w = Some (JObj ts).
Proof. exact guards_wf_direct. Qed.
Print Assumptions C14_guards_workflow.

(* ---- schema guards build, whole documents ---- *)

(* For EVERY document (JSON-like value), every regex oracle (knowing only that "next" contains
   no whitespace), every inline-parameter and version-parsing oracle: building with validate=True
   does not end in an internal error.  Unconditional since fix 31aaf4b7.  Still outside these
   statements (decided by the run only): YAML text -> value, expression grammars, resource limits
   (recursion depth), values outside the JSON-like type (rejected by parse_yaml / the schemas). *)
Theorem C14_schema_guards_build_wf_list : forall re pp,
  re pat_nonspace "next" = true ->
  forall d, fst (walk_wf_list re pp d) <> VCrash.
Proof. exact wf_list_no_internal_error. Qed.
Print Assumptions C14_schema_guards_build_wf_list.

Theorem C14_schema_guards_build_action_list : forall re pp d,
  fst (walk_action_list re pp d) <> VCrash.
Proof. exact action_list_no_internal_error. Qed.
Print Assumptions C14_schema_guards_build_action_list.

Theorem C14_schema_guards_build_workbook : forall re pp,
  re pat_nonspace "next" = true ->
  forall fl d, fst (walk_wb re pp fl d) <> VCrash.
Proof. exact workbook_no_internal_error. Qed.
Print Assumptions C14_schema_guards_build_workbook.

(* the documents that refuted these statements before the fix are definition errors now *)
Theorem C14_guards_regression :
  walk_wf_list re0 pp0 d4_doc = (VDsl, [(CWfList, true); (CWfD, true)]) /\
  walk_wf_list re0 pp0 d5_doc = (VDsl, [(CWfList, true); (CWfD, true); (CTaskD, true); (CPolicies, true)]) /\
  walk_wf_list re0 pp0 d3_doc = (VDsl, [(CWfList, true)]) /\
  walk_wf_list re0 pp0 d11_doc = (VDsl, [(CWfList, true); (CWfD, true)]) /\
  walk_wb re0 pp0 fl0 (JNum 5 1) = (VDsl, [(CWb, false)]) /\
  walk_wb re0 pp0 fl0 (JStr "version") = (VDsl, [(CWb, false)]) /\
  fst (walk_wb re0 pp0 fl0 (JObj [("version", JNum 2 1); ("name", JStr "wb")])) = VOk.
Proof. exact regression_old_witnesses. Qed.
Print Assumptions C14_guards_regression.

(* ---- strings parsed a second time ---- *)

(* The 27 places of mistral/lang and mistral/expressions where the text of a string value is parsed
   again are the recorded ones (translator, fail closed), and each of the two json.loads among them
   catches every exception: the oracles `pp` (inline parameters) and the with-items literal of the
   models above are total functions of the text - a literal parses or does not parse, nothing
   escapes.  (Regular expressions and the expression grammars are judged by the run: suite `reparse`.) *)
Theorem C14_reparse_literals_guarded :
  forallb (fun s => snd s) json_loads_sites = true /\ List.length json_loads_sites = 2 /\
  List.length reparse_sites = 27.
Proof. exact reparse_json_guarded. Qed.
Print Assumptions C14_reparse_literals_guarded.

(* ---- coherence of the specification cache with the stored definitions ---- *)

(* For ANY configuration whose key component contains a field that identifies the stored content
   (the checksum when both services fill it) and for EVERY sequence of create / update / workbook
   upsert / clock tick / eviction / lookup: each lookup (workflow start, sub-workflow start,
   trigger creation) yields the specification stored at that moment - the cached execution is
   the uncached execution, for standalone and workbook workflows alike. *)
Theorem C14_cache_coherent_exact : forall c os,
  exact_cfg c = true -> coherent (exec c init os) = true.
Proof. exact coherent_exact. Qed.
Print Assumptions C14_cache_coherent_exact.

(* The configuration GENERATED from the source (key component of the four call sites; which row
   fields services/workflows.py and services/workbooks.py write) - since fix 8a6d13a7 the key is
   (updated_at, checksum) and both services fill the checksum: coherent for EVERY sequence,
   without any hypothesis (in particular for updates within the same second). *)
Theorem C14_cache_coherent : forall os, coherent (exec gen_cfg init os) = true.
Proof. exact gen_coherent. Qed.
Print Assumptions C14_cache_coherent.

(* a key that contains updated_at (the code before the fix) is coherent for the sequences that do
   not update one definition twice within the same second *)
Theorem C14_cache_coherent_spaced : forall c os,
  has_field FUpdatedAt (key_fields c) = true -> spaced c init os = true ->
  coherent (exec c init os) = true.
Proof. exact coherent_spaced. Qed.
Print Assumptions C14_cache_coherent_spaced.

(* the four call sites pass the same key component *)
Theorem C14_cache_sites_agree :
  forallb (fun s => key_eqb (map (fun f => Some (match f with FUpdatedAt => 0 | FChecksum => 1 | FContent => 2 end)) (snd s))
                            (map (fun f => Some (match f with FUpdatedAt => 0 | FChecksum => 1 | FContent => 2 end)) (key_fields gen_cfg)))
          gen_sites = true /\ List.length gen_sites = 4.
Proof. exact gen_sites_agree. Qed.
Print Assumptions C14_cache_sites_agree.

(* regression (the code before fix 8a6d13a7): updated_at alone does not identify the content - two
   updates within one second with a start in between, the second start runs the first update's
   specification and an eviction changes the run; with the generated key the same history is coherent *)
Theorem C14_cache_refuted_same_second :
  exec_ops cfg_updated_at same_second = [(2, 2); (2, 3); (3, 3)] /\
  exec_ops gen_cfg same_second = [(2, 2); (3, 3); (3, 3)].
Proof. exact refuted_same_second_and_fixed. Qed.
Print Assumptions C14_cache_refuted_same_second.

(* a checksum key while the workbook service does not fill the checksum: any update after a start *)
Theorem C14_cache_refuted_checksum_not_filled :
  exec_ops cfg_checksum_only update_after_start = [(1, 1); (1, 2); (2, 2)].
Proof. exact refuted_checksum_not_filled. Qed.
Print Assumptions C14_cache_refuted_checksum_not_filled.

(* a non-trivial document that is accepted after ten schema validations (list, workflow,
   task-defaults, policies, one-line retry, two tasks, an on-clause) *)
Example C14_nonvacuous :
  re1 pat_nonspace "next" = true /\
  fst (walk_wf_list re1 pp1 good_doc) = VOk /\ List.length (snd (walk_wf_list re1 pp1 good_doc)) = 10.
Proof. exact good_doc_accepted. Qed.
