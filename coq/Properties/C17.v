(* Property C17: a cron trigger fires once per due time and never more than its count.
   Only theorem statements closed by `exact`, each followed by Print Assumptions.

   Reading guide.  `run byname drc urm keys nxt (init t0 db0) ops` is the state after ANY list `ops` of steps
   (Tick / Read i / Sel i k / Wr i / Adv i k / Start i / Drop i / Crash i) of ANY number of processors i over ANY set
   of trigger rows db0, for ANY croniter function nxt with t < nxt k t.  The steps are finer than database calls:
   a call of advance_cron_trigger is its SELECT (Sel i k) and, separately, its DELETE / conditional UPDATE statement
   (Wr i), so other processors act between the two (Adv i k = both at once).
   `drc` / `urm` say what a write that changed no row reports to the processor; they are instantiated below with
   Gen.CronCfg.delete_reports_rowcount / update_reports_match, extracted from db/v2/sqlalchemy/api.py on every run, and
   every theorem is proved from `delete_reports_rowcount = true` and `update_reports_match = true` (by eq_refl: a
   change of either generated flag breaks every theorem of this file); with either flag false the property FAILS
   on the model: C17_last_occurrence_twice_when_delete_not_rowcount, C17_occurrence_twice_when_update_not_matched.  `starts` are the start_workflow calls received by
   the engine client; `won` is the history of rows: (k, n) is recorded exactly when row k is moved away from /
   deleted at next_execution_time n (C17_won_is_row_history), i.e. the due occurrences that were consumed;
   `lost` are occurrences whose winner died (Crash) or could not reach the engine (Drop) before the start.
   `byname` is how advance_cron_trigger addresses the row: true = by t.name (resolved among the rows visible to the
   trigger's project), false = by t.id; what the code does is Gen.CronCfg.lookup_by_name, extracted on every run.
   `unamb db0`: no two rows share a name while one is visible to the other's project (same project or public);
   it is needed only when byname = true (the code has since been changed to look up by id), and without it the
   property FAILS on the faithful model: C17_*_refuted_ambiguous_names. *)
From Coq Require Import List NArith ZArith Bool.
Require Import Mistral.Model.Cron Mistral.Proofs.CronProofs Mistral.Gen.CronCfg.
Import ListNotations.
Open Scope N_scope.

(* at most one workflow start per (trigger, due time), whatever the interleaving *)
Theorem C17_once_per_occurrence : forall byname keys nxt, (forall k t, t < nxt k t) ->
  forall t0 db0, covers keys db0 -> (byname = true -> unamb db0) ->
  forall ops, NoDup (map occ_of (starts (run byname delete_reports_rowcount update_reports_match keys nxt (init t0 db0) ops))).
Proof. exact (once_per_occurrence delete_reports_rowcount update_reports_match eq_refl eq_refl). Qed.
Print Assumptions C17_once_per_occurrence.

(* every start is for an occurrence the row has really left ... *)
Theorem C17_start_only_for_consumed_occurrence : forall byname keys nxt, (forall k t, t < nxt k t) ->
  forall t0 db0, covers keys db0 -> (byname = true -> unamb db0) ->
  forall ops e, In e (starts (run byname delete_reports_rowcount update_reports_match keys nxt (init t0 db0) ops)) ->
  In (occ_of e) (won (run byname delete_reports_rowcount update_reports_match keys nxt (init t0 db0) ops)).
Proof. exact (starts_in_won delete_reports_rowcount update_reports_match eq_refl eq_refl). Qed.
Print Assumptions C17_start_only_for_consumed_occurrence.

(* ... and every consumed occurrence is started, or about to be (pending at a live processor), or was lost
   to a crash / RPC failure of its winner *)
Theorem C17_every_occurrence_accounted : forall byname keys nxt, (forall k t, t < nxt k t) ->
  forall t0 db0, covers keys db0 -> (byname = true -> unamb db0) ->
  forall ops k n, let s := run byname delete_reports_rowcount update_reports_match keys nxt (init t0 db0) ops in
  In (k, n) (won s) ->
  In (k, n) (map occ_of (starts s)) \/ In (k, n) (lost s) \/
  exists i sn, pend s i = Some (k, sn) /\ t_next sn = n.
Proof. exact (accounted delete_reports_rowcount update_reports_match eq_refl eq_refl). Qed.
Print Assumptions C17_every_occurrence_accounted.

(* exactly one when no processor dies / fails between advancing the trigger and starting the workflow *)
Theorem C17_exactly_once_unless_crash : forall byname keys nxt, (forall k t, t < nxt k t) ->
  forall t0 db0, covers keys db0 -> (byname = true -> unamb db0) ->
  forall ops k n, Forall no_loss_op ops ->
  let s := run byname delete_reports_rowcount update_reports_match keys nxt (init t0 db0) ops in
  In (k, n) (won s) ->
  In (k, n) (map occ_of (starts s)) \/ exists i sn, pend s i = Some (k, sn) /\ t_next sn = n.
Proof. exact (exactly_once_unless_crash delete_reports_rowcount update_reports_match eq_refl eq_refl). Qed.
Print Assumptions C17_exactly_once_unless_crash.

(* `won` is the row history: a step either changes no row, or moves exactly one row away from its value and
   records the due time it left *)
Theorem C17_won_is_row_history : forall byname keys nxt, (forall k t, t < nxt k t) ->
  forall t0 db0, covers keys db0 -> (byname = true -> unamb db0) ->
  forall ops o, let s := run byname delete_reports_rowcount update_reports_match keys nxt (init t0 db0) ops in let s' := step byname delete_reports_rowcount update_reports_match keys nxt s o in
  (won s' = won s /\ forall k, db s' k = db s k) \/
  (exists k d, db s k = Some d /\ won s' = (k, t_next d) :: won s /\ db s' k <> Some d /\
               forall k', k' <> k -> db s' k' = db s k').
Proof. intros byname keys nxt Hn t0 db0 Hc Hu ops o. exact (won_is_row_history delete_reports_rowcount update_reports_match eq_refl eq_refl byname keys nxt Hn t0 db0 Hc Hu _ o (reach_inv delete_reports_rowcount update_reports_match eq_refl eq_refl byname keys nxt Hn t0 db0 Hc Hu ops)). Qed.
Print Assumptions C17_won_is_row_history.

(* a trigger created with count c >= 1: at most c starts; the row carries c minus the occurrences consumed and
   is removed exactly when they reach c *)
Theorem C17_count_bound : forall byname keys nxt, (forall k t, t < nxt k t) ->
  forall t0 db0, covers keys db0 -> (byname = true -> unamb db0) ->
  forall ops k d0 c, db0 k = Some d0 -> t_rem d0 = Some c -> (1 <= c)%Z ->
  let s := run byname delete_reports_rowcount update_reports_match keys nxt (init t0 db0) ops in
  (Z.of_nat (count_key k (map occ_of (starts s))) <= Z.of_nat (count_key k (won s)))%Z /\
  match db s k with
  | Some d => exists r, t_rem d = Some r /\ (1 <= r)%Z /\ (Z.of_nat (count_key k (won s)) + r = c)%Z
  | None => Z.of_nat (count_key k (won s)) = c
  end.
Proof. exact (count_bound delete_reports_rowcount update_reports_match eq_refl eq_refl). Qed.
Print Assumptions C17_count_bound.

Theorem C17_count_bound_starts : forall byname keys nxt, (forall k t, t < nxt k t) ->
  forall t0 db0, covers keys db0 -> (byname = true -> unamb db0) ->
  forall ops k d0 c, db0 k = Some d0 -> t_rem d0 = Some c -> (1 <= c)%Z ->
  (Z.of_nat (count_key k (map occ_of (starts (run byname delete_reports_rowcount update_reports_match keys nxt (init t0 db0) ops)))) <= c)%Z.
Proof. exact (count_bound_starts delete_reports_rowcount update_reports_match eq_refl eq_refl). Qed.
Print Assumptions C17_count_bound_starts.

(* a removed trigger never comes back (so it never fires again: every start needs a consumed occurrence) *)
Theorem C17_removed_stays_removed : forall byname keys nxt, (forall k t, t < nxt k t) ->
  forall t0 db0, covers keys db0 -> (byname = true -> unamb db0) ->
  forall ops1 ops2 k, db (run byname delete_reports_rowcount update_reports_match keys nxt (init t0 db0) ops1) k = None ->
  db (run byname delete_reports_rowcount update_reports_match keys nxt (run byname delete_reports_rowcount update_reports_match keys nxt (init t0 db0) ops1) ops2) k = None.
Proof. intros byname keys nxt Hn t0 db0 Hc Hu ops1 ops2 k. exact (run_stays_removed delete_reports_rowcount update_reports_match eq_refl eq_refl byname keys nxt Hn t0 db0 Hc Hu ops2 _ k (reach_inv delete_reports_rowcount update_reports_match eq_refl eq_refl byname keys nxt Hn t0 db0 Hc Hu ops1)). Qed.
Print Assumptions C17_removed_stays_removed.

(* creation of a first-execution-time-only trigger (no pattern; count absent, 0 or 1; larger counts are refused):
   stored with next = first time (>= 60 s ahead) and remaining = 1 ... *)
Theorem C17_first_time_only_created : forall nw nx f count start n r,
  create nw nx None (Some f) count start = Some (n, r) ->
  match count with Some z => (0 <= z)%Z | None => True end ->
  n = f /\ r = Some 1%Z /\ nw + 60 <= f.
Proof. exact create_first_only. Qed.
Print Assumptions C17_first_time_only_created.

(* ... and such a row fires at most once, only for that time, and keeps it until it is removed *)
Theorem C17_first_time_only_once : forall byname keys nxt, (forall k t, t < nxt k t) ->
  forall t0 db0, covers keys db0 -> (byname = true -> unamb db0) ->
  forall ops k d0, db0 k = Some d0 -> t_rem d0 = Some 1%Z ->
  let s := run byname delete_reports_rowcount update_reports_match keys nxt (init t0 db0) ops in
  (count_key k (map occ_of (starts s)) <= 1)%nat /\
  (forall e, In e (starts s) -> e_key e = k -> e_occ e = t_next d0) /\
  (forall d, db s k = Some d -> t_next d = t_next d0 /\ count_key k (won s) = 0%nat).
Proof. exact (first_only_run delete_reports_rowcount update_reports_match eq_refl eq_refl). Qed.
Print Assumptions C17_first_time_only_once.

(* creation-time validation refuses: neither pattern nor first time; invalid pattern; first time less than
   60 s ahead; count > 1 without pattern *)
Theorem C17_create_rejects : forall nw nx pat first count start,
  (pat = None /\ first = None) \/ pat = Some false \/ (exists f, first = Some f /\ f < nw + 60) \/
  (pat = None /\ first <> None /\ count_gt1 count = true) ->
  create nw nx pat first count start = None.
Proof. exact create_rejects. Qed.
Print Assumptions C17_create_rejects.

(* the next execution time only moves forward along the pattern: a step leaves a row alone or sets
   next' = nxt (max nw next) > max nw next for a clock value nw <= now (the writer computes the value before its
   database call; nw = now when the call is not interrupted), remaining' = dec remaining, nothing else *)
Theorem C17_next_forward : forall byname keys nxt, (forall k t, t < nxt k t) ->
  forall t0 db0, covers keys db0 -> (byname = true -> unamb db0) ->
  forall ops o k d d', let s := run byname delete_reports_rowcount update_reports_match keys nxt (init t0 db0) ops in
  db s k = Some d -> db (step byname delete_reports_rowcount update_reports_match keys nxt s o) k = Some d' ->
  d' = d \/ (exists nw, nw <= now s /\ t_next d' = nxt k (N.max nw (t_next d)) /\ t_next d < t_next d' /\ nw < t_next d' /\
             t_rem d' = dec (t_rem d) /\ same_static d' d).
Proof. intros byname keys nxt Hn t0 db0 Hc Hu ops o k d d'. exact (step_forward delete_reports_rowcount update_reports_match eq_refl eq_refl byname keys nxt Hn t0 db0 Hc Hu _ o k d d' (reach_inv delete_reports_rowcount update_reports_match eq_refl eq_refl byname keys nxt Hn t0 db0 Hc Hu ops)). Qed.
Print Assumptions C17_next_forward.

Theorem C17_next_monotone : forall byname keys nxt, (forall k t, t < nxt k t) ->
  forall t0 db0, covers keys db0 -> (byname = true -> unamb db0) ->
  forall ops1 ops2 k d, db (run byname delete_reports_rowcount update_reports_match keys nxt (init t0 db0) ops1) k = Some d ->
  match db (run byname delete_reports_rowcount update_reports_match keys nxt (init t0 db0) (ops1 ++ ops2)) k with Some d' => t_next d <= t_next d' | None => True end.
Proof. exact (next_monotone delete_reports_rowcount update_reports_match eq_refl eq_refl). Qed.
Print Assumptions C17_next_monotone.

(* every start carries the payload (workflow, input, params, trust) and the project of the trigger's own row *)
Theorem C17_context : forall byname keys nxt, (forall k t, t < nxt k t) ->
  forall t0 db0, covers keys db0 -> (byname = true -> unamb db0) ->
  forall ops e, In e (starts (run byname delete_reports_rowcount update_reports_match keys nxt (init t0 db0) ops)) ->
  exists d0, db0 (e_key e) = Some d0 /\ e_payload e = t_payload d0 /\ e_proj e = t_proj d0.
Proof. exact (start_context delete_reports_rowcount update_reports_match eq_refl eq_refl). Qed.
Print Assumptions C17_context.

(* nothing is started more than 2 s before its due time *)
Theorem C17_not_early : forall byname keys nxt, (forall k t, t < nxt k t) ->
  forall t0 db0, covers keys db0 -> (byname = true -> unamb db0) ->
  forall ops e, let s := run byname delete_reports_rowcount update_reports_match keys nxt (init t0 db0) ops in In e (starts s) -> e_occ e < now s + 2.
Proof. exact (not_early delete_reports_rowcount update_reports_match eq_refl eq_refl). Qed.
Print Assumptions C17_not_early.

(* what the theorems above say about the code as it is: no hypothesis on names is needed iff it addresses by id *)
Theorem C17_code_mode : lookup_by_name = false ->
  forall keys nxt, (forall k t, t < nxt k t) -> forall t0 db0, covers keys db0 ->
  forall ops, NoDup (map occ_of (starts (run lookup_by_name delete_reports_rowcount update_reports_match keys nxt (init t0 db0) ops))).
Proof. intros Hm keys nxt Hn t0 db0 Hc. apply (once_per_occurrence delete_reports_rowcount update_reports_match eq_refl eq_refl); auto. intro H. rewrite Hm in H. discriminate. Qed.
Print Assumptions C17_code_mode.

(* FINDING (while lookup_by_name = true): with a private trigger and another project's public trigger of the same name the lookup by name in
   advance_cron_trigger hits the wrong row: one occurrence is started twice with one processor and no crash ... *)
Theorem C17_once_per_occurrence_refuted_ambiguous_names :
  exists keys nxt t0 db0 ops,
    (forall k t, t < nxt k t) /\ covers keys db0 /\ Forall no_loss_op ops /\
    ~ NoDup (map occ_of (starts (run true true true keys nxt (init t0 db0) ops))).
Proof. exact once_per_occurrence_refuted_ambiguous_names. Qed.
Print Assumptions C17_once_per_occurrence_refuted_ambiguous_names.

(* ... and a trigger with count 1 is started twice *)
Theorem C17_count_bound_refuted_ambiguous_names :
  exists keys nxt t0 db0 ops k d0,
    (forall k t, t < nxt k t) /\ covers keys db0 /\ db0 k = Some d0 /\ t_rem d0 = Some 1%Z /\
    (2 <= count_key k (map occ_of (starts (run true true true keys nxt (init t0 db0) ops))))%nat.
Proof. exact count_bound_refuted_ambiguous_names. Qed.
Print Assumptions C17_count_bound_refuted_ambiguous_names.

(* What the two generated flags stand for.  If delete_cron_trigger did not report the row count of its DELETE, two
   processors that both SELECTed a count-1 (or first-execution-time-only) trigger before either deleted it would
   both start its last occurrence ... *)
Theorem C17_last_occurrence_twice_when_delete_not_rowcount :
  exists keys nxt t0 db0 ops k d0,
    (forall k t, t < nxt k t) /\ covers keys db0 /\ unamb db0 /\ Forall no_loss_op ops /\
    db0 k = Some d0 /\ t_rem d0 = Some 1%Z /\
    let s := run false false true keys nxt (init t0 db0) ops in
    ~ NoDup (map occ_of (starts s)) /\ (2 <= count_key k (map occ_of (starts s)))%nat /\ db s k = None.
Proof. exact last_occurrence_twice_when_delete_not_rowcount. Qed.
Print Assumptions C17_last_occurrence_twice_when_delete_not_rowcount.

(* ... and if update_cron_trigger reported 1 when its conditional UPDATE matched no row, an earlier occurrence
   would be started twice and a count-2 trigger would fire 3 times *)
Theorem C17_occurrence_twice_when_update_not_matched :
  exists keys nxt t0 db0 ops k d0,
    (forall k t, t < nxt k t) /\ covers keys db0 /\ unamb db0 /\ Forall no_loss_op ops /\
    db0 k = Some d0 /\ t_rem d0 = Some 2%Z /\
    let s := run false true false keys nxt (init t0 db0) ops in
    ~ NoDup (map occ_of (starts s)) /\ (3 <= count_key k (map occ_of (starts s)))%nat /\ db s k = None.
Proof. exact occurrence_twice_when_update_not_matched. Qed.
Print Assumptions C17_occurrence_twice_when_update_not_matched.

(* non-vacuity: a concrete unambiguous two-project database (same name, both private), three processors racing, two
   of them inside their database call on the same row at the same time (Sel 1 0; Sel 0 0; Wr 1; Wr 0), a crash
   between advance and start; the hypotheses hold and the run really starts workflows and removes a row *)
Example C17_nonvacuous :
  let rows := [(0%nat, mkTrig 0 0 false 1 100020 (Some 2%Z)); (1%nat, mkTrig 0 1 false 2 100020 None)] in
  let nx := fun (_ : nat) (t : N) => (t / 60 + 1) * 60 in
  let s := run lookup_by_name delete_reports_rowcount update_reports_match [0%nat; 1%nat] nx (init 100019 (db_of rows))
             [Read 0; Read 1; Read 2; Sel 1 0; Sel 0 0; Wr 1; Wr 0; Adv 2 0; Start 1; Adv 0 1; Crash 0; Adv 1 1; Tick 60;
              Read 2; Adv 2 0; Adv 2 1; Start 2; Adv 2 1; Start 2] in
  covers [0%nat; 1%nat] (db_of rows) /\ unamb (db_of rows) /\
  map occ_of (starts s) = [(1%nat, 100080); (0%nat, 100080); (0%nat, 100020)] /\
  lost s = [(1%nat, 100020)] /\ db s 0%nat = None /\
  option_map t_next (db s 1%nat) = Some 100140.
Proof.
  cbv zeta. split; [|split; [|vm_compute; repeat split]].
  - intros k t. destruct k as [|[|k]]; vm_compute; intros; auto; discriminate.
  - intros k1 k2 a b. destruct k1 as [|[|k1]]; destruct k2 as [|[|k2]]; vm_compute; intros Ha Hb Hn Hv; auto; try discriminate;
      inversion Ha; inversion Hb; subst; simpl in Hv; destruct Hv as [Hv|[Hv|Hv]]; discriminate.
Qed.
