(* Property C04: no task starts before its prerequisites; a join runs exactly once (component level).
   Only theorem statements closed by `exact`, each followed by Print Assumptions.
   Vocabulary (Proofs/JoinProofs.v):  possible sp rows t   - task t (no execution yet) can still get one
                                      routed rows j s      - inbound task s completed and lists j in next_tasks
                                      dead sp rows j s     - s completed without routing to j, or can never start
                                      countP P l n         - n members of l satisfy P (n is unique: C04_count_unique)
                                      evolves sp rows rows'- any continuation of the run (completed rows final, one
                                                             execution per task, new executions only when routed to)
   Engine-level theorems (whole-engine model, trace correspondence) are added by the lead below the marker at the end. *)
From Coq Require Import List Arith Bool.
Require Import Mistral.Gen.States Mistral.Gen.Locks.
Require Import Mistral.Model.Join Mistral.Model.Reverse Mistral.Model.JoinProto Mistral.Model.JoinLife.
Require Import Mistral.Proofs.JoinProofs Mistral.Proofs.ReverseProofs Mistral.Proofs.JoinProtoProofs Mistral.Proofs.JoinLifeProofs
  Mistral.Proofs.AffectedProofs.
Import ListNotations.

(* ---------------------------------------------------------------- direct workflows: the join decision *)

(* _possible_route: whenever it returns (any stack budget, any start depth, any definition incl. cyclic ones,
   any rows) its answer is exactly "a route to the task is still possible". *)
Theorem C04_possible_route_exact : forall sp rows fuel t depth b d,
  possible_route_top fuel sp rows t depth = Ok (b, d) -> (b = true <-> possible sp rows t).
Proof. exact possible_route_exact. Qed.
Print Assumptions C04_possible_route_exact.

Theorem C04_possible_route_fuel_mono : forall sp rows fuel m vis t depth x,
  possible_route fuel sp rows vis t depth = Ok x -> possible_route (fuel + m) sp rows vis t depth = Ok x.
Proof. exact possible_route_fuel_mono. Qed.
Print Assumptions C04_possible_route_fuel_mono.

(* ... and it always returns: the `visited` set bounds the nesting by the number of tasks, on every definition
   (cycles included); MAX_SEARCH_DEPTH only limits the cache pre-population, not the search. *)
Theorem C04_possible_route_total : forall sp rows fuel t depth,
  length sp + 1 < fuel -> exists b d, possible_route_top fuel sp rows t depth = Ok (b, d).
Proof. exact possible_route_total. Qed.
Print Assumptions C04_possible_route_total.

(* so the evaluation of a join never raises: it always yields RUNNING, ERROR or WAITING *)
Theorem C04_logical_total : forall sp rows fuel j k,
  length sp + 1 < fuel -> exists st c tr, logical fuel sp rows j k = Ok (st, c, tr).
Proof. exact logical_total. Qed.
Print Assumptions C04_logical_total.

(* The logical state of a join (all definitions, all row sets, all join kinds, all inbound counts):
   RUNNING iff the required number of inbound tasks completed AND routed to it (or it has no inbound task),
   ERROR   iff not, and the inbound tasks that can never route to it leave fewer than required,
   WAITING otherwise. *)
Theorem C04_logical_state_sound : forall sp rows fuel j k st c tr,
  logical fuel sp rows j k = Ok (st, c, tr) ->
  let ins := inbound_names sp j in
  let need := needed k (length ins) in
  exists nr nd,
    countP (routed rows j) ins nr /\ countP (dead sp rows j) ins nd /\ nr + nd <= length ins /\
    (st = RUNNING <-> ins = [] \/ need <= nr) /\
    (st = ERROR <-> ins <> [] /\ nr < need /\ length ins < nd + need) /\
    (st = WAITING <-> ins <> [] /\ nr < need /\ nd + need <= length ins).
Proof. exact logical_state_sound. Qed.
Print Assumptions C04_logical_state_sound.

Theorem C04_count_unique : forall P l n m, countP P l n -> countP P l m -> n = m.
Proof. exact countP_fun. Qed.
Print Assumptions C04_count_unique.

Theorem C04_logical_state_trichotomy : forall sp rows fuel j k st c tr,
  logical fuel sp rows j k = Ok (st, c, tr) -> st = RUNNING \/ st = ERROR \/ st = WAITING.
Proof. exact logical_state_three. Qed.
Print Assumptions C04_logical_state_trichotomy.

(* Once RUNNING (resp. ERROR) it stays so in every continuation of the run: evaluating the state in a later,
   de-duplicated refresh job loses nothing, and a join can never flip from failed to startable. *)
Theorem C04_logical_monotone : forall sp fuel fuel' rows rows' j k st c tr st' c' tr',
  logical fuel sp rows j k = Ok (st, c, tr) ->
  evolves sp rows rows' ->
  logical fuel' sp rows' j k = Ok (st', c', tr') ->
  (st = RUNNING -> st' = RUNNING) /\ (st = ERROR -> st' = ERROR).
Proof. exact logical_monotone. Qed.
Print Assumptions C04_logical_monotone.

(* ERROR is only reported when the required number can no longer be reached *)
Theorem C04_logical_error_unreachable : forall sp fuel rows rows' j k c tr nr',
  logical fuel sp rows j k = Ok (ERROR, c, tr) ->
  evolves sp rows rows' ->
  countP (routed rows' j) (inbound_names sp j) nr' ->
  nr' < needed k (length (inbound_names sp j)).
Proof. exact logical_error_unreachable. Qed.
Print Assumptions C04_logical_error_unreachable.

(* the continuation relation covers the concrete engine steps *)
Theorem C04_step_create : forall sp rows r,
  lookup rows (rname r) = None -> is_completed (rstate r) = false -> cause sp rows (rname r) ->
  evolve1 sp rows (rows ++ [r]).
Proof. exact evolve1_create. Qed.
Print Assumptions C04_step_create.

Theorem C04_step_update : forall sp rows1 r r' rows2,
  rname r' = rname r -> is_completed (rstate r) = false ->
  evolve1 sp (rows1 ++ r :: rows2) (rows1 ++ r' :: rows2).
Proof. exact evolve1_update. Qed.
Print Assumptions C04_step_update.

(* ---------------------------------------------------------------- which joins are re-evaluated when a task completes *)

(* find_indirectly_affected_task_executions: every join execution (j has a row) reachable from the completed task
   through tasks that are not joins-with-a-row is scheduled for a refresh - all definitions (cycles included), all
   row sets.  These are the joins whose evaluation can read the completed task (the route search walks inbound
   transitions only through tasks WITHOUT a row), so a change that can flip a logical state is never missed;
   the only exception is the completed task itself (j <> src). *)
Theorem C04_affected_covers : forall sp rows src j,
  tpath sp rows src j -> jrow sp rows j = true -> j <> src -> In j (affected sp rows src).
Proof. exact affected_covers. Qed.
Print Assumptions C04_affected_covers.

Theorem C04_affected_sound : forall sp rows src j, In j (affected sp rows src) -> jrow sp rows j = true.
Proof. exact affected_sound. Qed.
Print Assumptions C04_affected_sound.

(* ---------------------------------------------------------------- reverse workflows *)

Theorem C04_reverse_requires : forall sp rows target n t q,
  In n (next_tasks sp rows target) -> rfind sp n = Some t -> In q (rreq t) ->
  exists r, In r rows /\ rrname r = q /\ rrstate r = SUCCESS.
Proof. exact next_requires. Qed.
Print Assumptions C04_reverse_requires.

Theorem C04_reverse_only_needed : forall sp rows target n,
  In n (next_tasks sp rows target) -> needs sp target n.
Proof. exact next_only_needed. Qed.
Print Assumptions C04_reverse_only_needed.

Theorem C04_reverse_once : forall sp rows target,
  NoDup (next_tasks sp rows target) /\
  forall n, In n (next_tasks sp rows target) -> ~ In n (map rrname rows).
Proof. exact next_once. Qed.
Print Assumptions C04_reverse_once.

Theorem C04_reverse_complete : forall sp rows target (rank : nat -> nat),
  (forall a b, requires1 sp a b -> rank b < rank a) -> rank target < length sp ->
  forall n, needs sp target n -> satisfied sp rows n = true -> In n (next_tasks sp rows target).
Proof. exact next_complete. Qed.
Print Assumptions C04_reverse_complete.

(* whole runs, any sequence of continue / state-change operations: one execution per task, only needed
   tasks, and everything an existing execution requires has succeeded *)
Theorem C04_reverse_run : forall sp target ops,
  let rows := rrun sp target ops in
  NoDup (map rrname rows) /\
  (forall r, In r rows -> needs sp target (rrname r)) /\
  (forall r t q, In r rows -> rfind sp (rrname r) = Some t -> In q (rreq t) -> succeeded rows q = true).
Proof. exact run_invariant. Qed.
Print Assumptions C04_reverse_run.

(* ---------------------------------------------------------------- created once, started once *)

(* any number of racing transactions, any interleaving, at every moment *)
Theorem C04_act_at_most_once : forall c bound sched,
  (c_locked c && c_recheck c && c_fresh c) || c_unique c = true -> committed (run c bound sched) <= 1.
Proof. exact act_at_most_once. Qed.
Print Assumptions C04_act_at_most_once.

Theorem C04_act_exactly_once : forall c bound sched,
  (c_locked c && c_recheck c && c_fresh c) || c_unique c = true -> 0 < bound ->
  all_done (run c bound sched) bound = true -> committed (run c bound sched) = 1.
Proof. exact act_exactly_once. Qed.
Print Assumptions C04_act_exactly_once.

(* with the guards found in the source (Gen/Locks.v): one join row per unique key under either isolation level *)
Theorem C04_join_row_once : forall fresh bound sched, committed (run (defer_cfg fresh) bound sched) <= 1.
Proof. intros fresh bound sched. apply act_at_most_once. destruct fresh; vm_compute; reflexivity. Qed.
Print Assumptions C04_join_row_once.

(* ... and one start of the join (WAITING -> RUNNING inside the lock, state re-read), under READ COMMITTED *)
Theorem C04_join_starts_once : forall bound sched, committed (run (refresh_cfg true) bound sched) <= 1.
Proof. intros bound sched. apply act_at_most_once. vm_compute. reflexivity. Qed.
Print Assumptions C04_join_starts_once.

Theorem C04_join_key_identifies_run_and_task : join_key_per_run_and_name = true.
Proof. vm_compute. reflexivity. Qed.
Print Assumptions C04_join_key_identifies_run_and_task.

(* the guards are needed: two transactions act twice without them, with the lock but without the re-check,
   and with both when reads are not fresh (then only the unique constraint keeps the row single) *)
Theorem C04_unguarded_race :
  committed (run (mkCfg false false true false) 2 [0; 1; 0; 1; 0; 1; 0; 1; 0; 1]) = 2 /\
  committed (run (mkCfg true false true false) 2 [0; 1; 0; 0; 0; 0; 1; 1; 1; 1]) = 2 /\
  committed (run (mkCfg true true false false) 2 [0; 1; 0; 0; 0; 0; 1; 1; 1; 1]) = 2.
Proof. exact (conj act_twice_without_guards (conj act_twice_without_recheck act_twice_with_stale_recheck)). Qed.
Print Assumptions C04_unguarded_race.

(* ---------------------------------------------------------------- one join execution over time *)

(* triggers, refresh jobs and completions in any order and number: when a completed join is not re-armed by a
   late trigger, it starts at most once ... *)
Theorem C04_join_life_once : forall ru k evs, starts (life_run false ru k evs) <= 1.
Proof. exact life_once. Qed.
Print Assumptions C04_join_life_once.

(* ... and (re-arming or not) never before k inbound tasks routed to it *)
Theorem C04_join_life_start_sound : forall rearm ru k evs,
  0 < starts (life_run rearm ru k evs) -> k <= routed_n (life_run rearm ru k evs).
Proof. exact life_start_sound. Qed.
Print Assumptions C04_join_life_start_sound.

(* with re-arming, a partial join (1 of 2) starts twice when the second branch arrives after it completed *)
Theorem C04_partial_join_rerun_witness : forall ru,
  starts (life_run true ru 1 [Trigger; Refresh; Complete; Trigger; Refresh]) = 2.
Proof. exact life_twice_with_rearm. Qed.
Print Assumptions C04_partial_join_rerun_witness.

(* For the source as it is (Gen/Locks.v: what Task.defer does to a completed join execution that has run, in a
   definition where the join is not on a cycle; and to one that failed without starting): "at most one start for
   all k and all event sequences" holds exactly when the extracted flag is false.  Were it true, the property would
   be refuted by the witness above and the implementation oracle would show the failing run (signature
   partial-join-rerun-by-late-branch; that was the case before fix 1c5aca86 of /repo). *)
Theorem C04_join_once_iff_completed_join_not_rearmed :
  (forall k evs, starts (life_run defer_rearm_acyclic defer_rearm_unstarted k evs) <= 1) <-> defer_rearm_acyclic = false.
Proof. exact (life_once_iff defer_rearm_acyclic defer_rearm_unstarted). Qed.
Print Assumptions C04_join_once_iff_completed_join_not_rearmed.

(* ---------------------------------------------------------------- non-vacuity *)

(* fork t0 -> t1, t2; join t3 = all.  One branch done: WAITING; the run continues (t2 completes and routes):
   RUNNING; with t2 completing without routing: ERROR.  The hypotheses of the theorems above hold here. *)
Example C04_nonvacuous :
  let sp := [mkTask 0 None [1; 2]; mkTask 1 None [3]; mkTask 2 None [3]; mkTask 3 (Some JAll) []] in
  let r0 := mkRow 0 0 SUCCESS (Some [1; 2]) in
  let r1 := mkRow 1 1 SUCCESS (Some [3]) in
  let rows := [r0; r1; mkRow 2 2 RUNNING None; mkRow 3 3 WAITING None] in
  let rows_ok := [r0; r1; mkRow 2 2 SUCCESS (Some [3]); mkRow 3 3 WAITING None] in
  let rows_bad := [r0; r1; mkRow 2 2 ERROR (Some []); mkRow 3 3 WAITING None] in
  logical 8 sp rows 3 JAll = Ok (WAITING, 1, []) /\
  logical 8 sp rows_ok 3 JAll = Ok (RUNNING, 0, [1; 2]) /\
  logical 8 sp rows_bad 3 JAll = Ok (ERROR, 0, [2]) /\
  evolve1 sp rows rows_ok /\ evolve1 sp rows rows_bad /\
  next_tasks [mkRT 0 [1; 2]; mkRT 1 [2]; mkRT 2 []; mkRT 3 [0]] [mkRR 2 SUCCESS] 0 = [1] /\
  all_done (run (defer_cfg true) 3 (flat_map (fun _ => [0; 1; 2]) (seq 0 12))) 3 = true /\
  (* a join behind a cycle of tasks that can never start fails instead of waiting (regression of a fixed defect) *)
  logical 8 cyc_sp cyc_rows 4 JAll = Ok (ERROR, 0, []).
Proof.
  cbv zeta.
  split; [vm_compute; reflexivity|]. split; [vm_compute; reflexivity|]. split; [vm_compute; reflexivity|].
  split; [|split; [|split; [|split]; vm_compute; reflexivity]].
  - apply (evolve1_update _ [mkRow 0 0 SUCCESS (Some [1; 2]); mkRow 1 1 SUCCESS (Some [3])]
             (mkRow 2 2 RUNNING None) (mkRow 2 2 SUCCESS (Some [3])) [mkRow 3 3 WAITING None]); reflexivity.
  - apply (evolve1_update _ [mkRow 0 0 SUCCESS (Some [1; 2]); mkRow 1 1 SUCCESS (Some [3])]
             (mkRow 2 2 RUNNING None) (mkRow 2 2 ERROR (Some [])) [mkRow 3 3 WAITING None]); reflexivity.
Qed.

(* ENGINE-LEVEL THEOREMS (added by the lead) go below this line. *)

(* Whole-engine model (Model/Engine.v: every program, uid oracle, event list incl. pause / resume / stop /
   rerun / skip / duplicates): *)
Require Mistral.Model.Engine Mistral.Proofs.EngineJoin Mistral.Proofs.EngineSafety Mistral.Proofs.EngineMore.

(* in every reachable state there is at most one task execution carrying a given join's unique key *)
Theorem C04_engine_join_executions_unique : forall sp u evs,
  EngineJoin.uniq (Engine.run sp u evs).
Proof. exact EngineJoin.join_executions_unique. Qed.
Print Assumptions C04_engine_join_executions_unique.

Theorem C04_engine_join_executions_unique_rows : forall sp u evs i j ri rj,
  let s := Engine.run sp u evs in
  nth_error (Engine.tasks s) i = Some ri -> nth_error (Engine.tasks s) j = Some rj ->
  Engine.t_unique ri = true -> Engine.t_unique rj = true -> Engine.t_name ri = Engine.t_name rj -> i = j.
Proof. exact EngineJoin.join_executions_unique_rows. Qed.
Print Assumptions C04_engine_join_executions_unique_rows.

(* the refresh job gives a waiting join an action only when its logical state is RUNNING ... *)
Theorem C04_engine_refresh_starts_only_if_running : forall sp s tid,
  length (Engine.acts (fst (Engine.do_refresh sp s tid))) <> length (Engine.acts s) ->
  Engine.logical_state sp s tid = Gen.States.RUNNING /\
  Gen.States.is_completed (Engine.wf_state s) = false /\
  Gen.States.is_completed (Engine.t_state (Engine.get_task s tid)) = false /\
  Engine.t_state (Engine.get_task s tid) <> Gen.States.RUNNING.
Proof. exact EngineSafety.refresh_starts_only_if_logically_running. Qed.
Print Assumptions C04_engine_refresh_starts_only_if_running.

(* ... which means the required number of inbound tasks induce RUNNING ... *)
Theorem C04_engine_running_needs_cardinality : forall sp s name,
  Engine.join_logical sp s name = Gen.States.RUNNING -> Engine.inbound sp name <> [] ->
  let inds := map (fun m => Engine.induced_state sp s m name) (Engine.inbound sp name) in
  match Engine.ts_join (Engine.get_ts sp name) with
  | Engine.JAll => Engine.count_ind Engine.IndRunning inds = length inds
  | Engine.JOne => 1 <= Engine.count_ind Engine.IndRunning inds
  | Engine.JNum k => k <= Engine.count_ind Engine.IndRunning inds
  | Engine.JNone => True
  end.
Proof. exact EngineSafety.join_running_needs_cardinality. Qed.
Print Assumptions C04_engine_running_needs_cardinality.

(* ... and an inbound task induces RUNNING only if its execution completed and routed to the join *)
Theorem C04_engine_induced_running_sound : forall sp s inb join,
  Engine.induced_state sp s inb join = Engine.IndRunning ->
  exists tid, Engine.find_last_by_name s inb = Some tid /\
              Gen.States.is_completed (Engine.t_state (Engine.get_task s tid)) = true /\
              Engine.routes_to (Engine.get_task s tid) join = true.
Proof. exact EngineSafety.induced_running_sound. Qed.
Print Assumptions C04_engine_induced_running_sound.

(* a join fails (instead of waiting forever) exactly when the cardinality is out of reach *)
Theorem C04_engine_join_error_means_unreachable : forall sp s name,
  Engine.join_logical sp s name = Gen.States.ERROR ->
  let inds := map (fun m => Engine.induced_state sp s m name) (Engine.inbound sp name) in
  match Engine.ts_join (Engine.get_ts sp name) with
  | Engine.JAll => 0 < Engine.count_ind Engine.IndError inds
  | Engine.JOne => length inds - 1 < Engine.count_ind Engine.IndError inds
  | Engine.JNum k => length inds - k < Engine.count_ind Engine.IndError inds
  | Engine.JNone => False
  end.
Proof. exact EngineMore.join_error_means_unreachable. Qed.
Print Assumptions C04_engine_join_error_means_unreachable.

(* a WAITING join is woken up whenever its prerequisites change: when one task execution changes (anything but
   its name and id - Task.complete writes the state and the routes) and the workflow is still running, every
   OTHER join that has a task execution and whose logical state (RUNNING / ERROR / WAITING) is different
   afterwards gets a refresh job from _check_affected_tasks; for every program (cycles, any join kinds,
   chains through tasks that have no execution yet), every state and every id order
   (Proofs/EngineAffected.v: completeness of find_indirectly_affected_task_executions with respect to
   _get_join_logical_state / _possible_route) *)
Require Mistral.Proofs.EngineAffected.
Theorem C04_engine_changed_joins_get_refresh : forall sp s0 s tid j t ops,
  map EngineAffected.tkey (Engine.tasks s) = map EngineAffected.tkey (Engine.tasks s0) ->
  (forall k, k <> tid -> Engine.get_task s k = Engine.get_task s0 k) ->
  Gen.States.is_completed (Engine.t_state (Engine.get_task s tid)) = true ->
  Gen.States.is_completed (Engine.wf_state s) = false ->
  j <> Engine.t_name (Engine.get_task s tid) -> Engine.is_join sp j = true ->
  Engine.find_last_by_name s j = Some t ->
  Engine.join_logical sp s j <> Engine.join_logical sp s0 j ->
  In (Engine.OSchedRefresh t) (snd (Engine.check_affected sp (s, ops) tid)).
Proof. exact EngineAffected.changed_joins_get_refresh. Qed.
Print Assumptions C04_engine_changed_joins_get_refresh.

(* hypotheses met through a task without an execution: 0 -> 1 -> join 2 (all of 1 and 3), task 0 fails *)
Example C04_engine_changed_joins_get_refresh_nonvacuous :
  let sp := [ Engine.mkTspec Engine.JNone [(Engine.TTask 1, Engine.GTrue)] [] [] [] [Engine.OErr];
              Engine.mkTspec Engine.JNone [(Engine.TTask 2, Engine.GTrue)] [] [] [] [Engine.OOk];
              Engine.mkTspec Engine.JAll [] [] [] [] [Engine.OOk];
              Engine.mkTspec Engine.JNone [(Engine.TTask 2, Engine.GTrue)] [] [] [] [Engine.OOk] ] in
  let row0 := Engine.mkTrow 0 Gen.States.RUNNING false [] false false false 0 [] in
  let row3 := Engine.mkTrow 3 Gen.States.SUCCESS true [(2, Engine.OnSuccess)] true false false 1 [] in
  let rowj := Engine.mkTrow 2 Gen.States.WAITING false [] false false true 2 [1] in
  let s0 := Engine.mkSt true Gen.States.RUNNING [] [row0; row3; rowj] [] [] [] [] in
  let s := Engine.upd_task s0 0 (Engine.mkTrow 0 Gen.States.ERROR true [] false false false 0 []) in
  map EngineAffected.tkey (Engine.tasks s) = map EngineAffected.tkey (Engine.tasks s0) /\
  (forall k, k <> 0 -> Engine.get_task s k = Engine.get_task s0 k) /\
  Gen.States.is_completed (Engine.t_state (Engine.get_task s 0)) = true /\
  Gen.States.is_completed (Engine.wf_state s) = false /\
  Engine.is_join sp 2 = true /\ Engine.find_last_by_name s 2 = Some 2 /\ Engine.find_last_by_name s 1 = None /\
  Engine.join_logical sp s0 2 = Gen.States.WAITING /\ Engine.join_logical sp s 2 = Gen.States.ERROR /\
  Engine.affected sp s 0 = [2] /\ snd (Engine.check_affected sp (s, []) 0) = [Engine.OSchedRefresh 2].
Proof. exact EngineAffected.affected_complete_nonvacuous. Qed.

(* "starts at most once per run however many branches trigger it", for the whole engine model: every program,
   every id order, every event list without operator reruns (deliveries in any order, duplicates, refresh jobs,
   pauses, resumes, stops, skips): a task execution never has two action executions - except a join that lies on
   a cycle of the workflow graph, which Task.defer deliberately re-arms for the next iteration
   (Proofs/EngineOnce.v: invariant K through the mutually recursive dispatch and every event) *)
Require Mistral.Proofs.EngineOnce.
Theorem C04_engine_join_starts_at_most_once : forall sp u evs,
  forallb EngineOnce.once_ev evs = true ->
  forall tid r, nth_error (Engine.tasks (Engine.run sp u evs)) tid = Some r ->
  Engine.is_join sp (Engine.t_name r) = true -> Engine.can_be_reentered sp (Engine.t_name r) = false ->
  EngineOnce.nacts (Engine.run sp u evs) tid <= 1.
Proof. exact EngineOnce.join_starts_at_most_once. Qed.
Print Assumptions C04_engine_join_starts_at_most_once.

Theorem C04_engine_task_execution_starts_once : forall sp u evs,
  forallb EngineOnce.once_ev evs = true ->
  forall tid r, nth_error (Engine.tasks (Engine.run sp u evs)) tid = Some r -> EngineOnce.guarded sp r = true ->
  EngineOnce.nacts (Engine.run sp u evs) tid <= 1.
Proof. exact EngineOnce.once_per_run. Qed.
Print Assumptions C04_engine_task_execution_starts_once.

(* hypotheses met: a partial join triggered by both of its branches, every message delivered twice; and the
   exclusion is needed: a join on a cycle runs again on the next iteration *)
Example C04_engine_join_starts_once_nonvacuous :
  let evs := EngineOnce.dup_all (Engine.EStart :: EngineLive.drain_evs EngineOnce.once_demo (fst (Engine.step EngineOnce.once_demo Engine.init Engine.EStart)) 100) in
  let s := Engine.run EngineOnce.once_demo [] evs in
  forallb EngineOnce.once_ev evs = true /\ Engine.can_be_reentered EngineOnce.once_demo 2 = false /\
  Engine.is_join EngineOnce.once_demo 2 = true /\
  map Engine.t_name (Engine.tasks s) = [1; 0; 2; 3] /\
  map Engine.t_state (Engine.tasks s) = [Gen.States.SUCCESS; Gen.States.SUCCESS; Gen.States.SUCCESS; Gen.States.SUCCESS] /\
  map (EngineOnce.nacts s) [0; 1; 2; 3] = [1; 1; 1; 1] /\ Engine.wf_state s = Gen.States.SUCCESS /\ Engine.pend s = [] /\
  Engine.t_trig (Engine.get_task s 2) = [1; 0] /\ length evs = 33.
Proof. exact EngineOnce.once_demo_ok. Qed.

Example C04_engine_cycle_join_runs_again :
  let evs := Engine.EStart :: EngineLive.drain_evs EngineOnce.cyc_demo (fst (Engine.step EngineOnce.cyc_demo Engine.init Engine.EStart)) 100 in
  let s := Engine.run EngineOnce.cyc_demo [] evs in
  forallb EngineOnce.once_ev evs = true /\ Engine.can_be_reentered EngineOnce.cyc_demo 1 = true /\
  map Engine.t_name (Engine.tasks s) = [0; 1; 2; 2] /\
  map (EngineOnce.guarded EngineOnce.cyc_demo) (Engine.tasks s) = [true; false; true; true] /\
  map (EngineOnce.nacts s) [0; 1; 2; 3] = [1; 2; 1; 1] /\ Engine.pend s = [].
Proof. exact EngineOnce.cycle_join_runs_again. Qed.
