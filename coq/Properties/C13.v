(* Property C13: scheduled jobs run once, not early, survive crashes, and only if committed.
   Only theorem statements closed by `exact`, each followed by Print Assumptions.
   Models: Model/Sched.v (default scheduler, scheduled_jobs_v2), Model/SchedLegacy.v (legacy scheduler).
   All theorems quantify over ARBITRARY step lists (any number of instances, jobs, transactions,
   any interleaving of persist / commit / rollback / dispatch / capture / invoke / delete / poll /
   crash / tick) and over every configuration (pickup, timeout, batch). *)
From Coq Require Import List NArith Bool Arith.
Require Import Mistral.Model.Sched Mistral.Model.SchedLegacy.
Require Import Mistral.Proofs.SchedProofs Mistral.Proofs.SchedLive Mistral.Proofs.SchedLegacyProofs.
Require Import Mistral.Gen.SchedQuery.
Import ListNotations.
Open Scope N_scope.

(* ================= default scheduler ================= *)

(* every invocation happens at or after schedule time + delay of THE job with that id *)
Theorem C13_not_early : forall c steps e,
  In e (log (run c steps init)) ->
  exists s d, In (mkJ (ej e) s d) (jobs (run c steps init)) /\ s + d <= et e.
Proof. exact not_early. Qed.
Print Assumptions C13_not_early.

(* ... and the history holds exactly one schedule() record per job id *)
Theorem C13_job_record_unique : forall c steps j s d s' d',
  In (mkJ j s d) (jobs (run c steps init)) -> In (mkJ j s' d') (jobs (run c steps init)) ->
  s = s' /\ d = d'.
Proof. exact job_record_unique. Qed.
Print Assumptions C13_job_record_unique.

(* only jobs whose transaction committed are ever invoked *)
Theorem C13_only_committed_run : forall c steps e,
  In e (log (run c steps init)) -> In (ej e) (committed (run c steps init)).
Proof. exact only_committed_run. Qed.
Print Assumptions C13_only_committed_run.

(* a job whose transaction rolled back is never invoked (even though its in-memory copy is dispatched) *)
Theorem C13_rollback_never_runs : forall c steps j,
  In j (rolled (run c steps init)) ->
  forall e, In e (log (run c steps init)) -> ej e <> j.
Proof. exact rollback_never_runs. Qed.
Print Assumptions C13_rollback_never_runs.

(* exactly-once half: if along the run every thread that captured a job deletes it before
   captured_at + timeout (timely) and no process dies between invoking and deleting (crash_safe),
   then no job id occurs twice in the invocation log - for any number of polling instances *)
Theorem C13_at_most_once : forall c steps,
  along c steps init -> NoDup (map ej (log (run c steps init))).
Proof. exact at_most_once. Qed.
Print Assumptions C13_at_most_once.

(* the hypothesis is necessary: the capturer dies after invoking, the job runs again after the timeout *)
Theorem C13_twice_without_timely :
  exists c steps j, (length (filter (fun e => Nat.eqb (ej e) j) (log (run c steps init))) = 2)%nat.
Proof. exact at_most_once_needs_timely. Qed.
Print Assumptions C13_twice_without_timely.

(* recoverable, time part: whatever happened to its capturer, a row is eligible for the store poll
   as soon as now > execute_at + pickup and now >= captured_at + timeout, and stays eligible *)
Theorem C13_eligible_after : forall c r t,
  rexec r + pickup c < t -> (forall x, rcap r = Some x -> x + timeout c <= t) -> eligible c t r = true.
Proof. exact eligible_after. Qed.
Print Assumptions C13_eligible_after.

Theorem C13_not_eligible_before : forall c r t,
  (t <= rexec r + pickup c \/ exists x, rcap r = Some x /\ t < x + timeout c) -> eligible c t r = false.
Proof. exact not_eligible_before. Qed.
Print Assumptions C13_not_eligible_before.

(* recoverable, protocol part: in ANY reachable state, one store poll of an idle instance that nothing
   interleaves with (select, capture all, invoke+delete each) invokes exactly the rows it selected, now *)
Theorem C13_poll_round_runs_selected : forall c steps i ord,
  let st := run c steps init in
  existsb (fun p => Nat.eqb (pi p) i) (polls st) = false ->
  let st' := poll_round c i ord st in
  now st' = now st /\
  log st' = log st ++ map (fun r => mkE (rid r) (now st) i) (candidates c (now st) ord (store st)) /\
  length (polls st') = length (polls st).
Proof. exact poll_round_runs_selected. Qed.
Print Assumptions C13_poll_round_runs_selected.

(* at least once / crash recovery: after ANY run, if instance i dies (whatever it had captured) and
   the clock passes execute_at + pickup and captured_at + timeout, the next undisturbed poll of any
   idle instance j invokes every committed row that is still in the store (no batch limit) *)
Theorem C13_crash_recovery : forall c steps i j ord d r,
  let st := run c steps init in
  let st2 := step c (step c st (Crash i)) (Tick d) in
  batch c = None ->
  In r (store st) ->
  rexec r + pickup c < now st + d ->
  (forall x, rcap r = Some x -> x + timeout c <= now st + d) ->
  existsb (fun p => Nat.eqb (pi p) j) (polls st2) = false ->
  In (mkE (rid r) (now st + d) j) (log (poll_round c j ord st2)).
Proof. exact crash_recovery. Qed.
Print Assumptions C13_crash_recovery.

(* has_scheduled_jobs(key, processing=False): never misses a waiting job the caller can see ... *)
Theorem C13_pending_query_complete : forall c st i tx key r,
  In r (visible st tx) -> rkey r = key -> rcap r = None -> has_jobs c st i tx key false = true.
Proof. exact pending_query_complete. Qed.
Print Assumptions C13_pending_query_complete.

(* ... and, for the code as it is (query_uses_memory is generated from default_scheduler.py on every run and the
   proof is eq_refl : query_uses_memory = false), EXACT: it answers True iff the caller can see an uncaptured row
   with that key. Re-introducing the in-memory shortcut makes this theorem fail to compile. *)
Theorem C13_pending_query_exact : forall p t b st i tx key,
  has_jobs (mkCfg p t b query_uses_memory) st i tx key false = true <->
  exists r, In r (visible st tx) /\ rkey r = key /\ rcap r = None.
Proof. exact (pending_query_exact_store_only query_uses_memory eq_refl). Qed.
Print Assumptions C13_pending_query_exact.

(* the general form (any variant): exact when the answer does not come from memory *)
Theorem C13_pending_query_exact_if_not_from_memory : forall c st i tx key,
  (qmem c = false \/ forall m, In m (mem st) -> mi m = i -> mkey m = key -> mcap m <> None) ->
  (has_jobs c st i tx key false = true <->
   exists r, In r (visible st tx) /\ rkey r = key /\ rcap r = None).
Proof. exact pending_query_exact. Qed.
Print Assumptions C13_pending_query_exact_if_not_from_memory.

(* REGRESSION statement about the behaviour before fix 75ec1054 (variant qmem = true, finding F8): with the
   in-memory shortcut the copy of a job whose transaction rolled back is reported as pending although no such job
   exists, in any configuration. The same witness is corpus case regression-F8-rollback-leaves-in-memory-copy. *)
Theorem C13_pending_query_old_shortcut_reports_rolled_back_job : forall p t b,
  let c := mkCfg p t b true in
  let st := run c phantom_steps init in
  has_jobs c st 0%nat None 1%nat false = true /\
  (forall r, In r (visible st None) -> rkey r <> 1%nat) /\
  (exists j, In j (rolled st) /\ In (mkMem 0%nat j 1%nat None) (mem st)).
Proof. exact pending_query_refuted. Qed.
Print Assumptions C13_pending_query_old_shortcut_reports_rolled_back_job.

(* ================= legacy scheduler ================= *)

Theorem C13_legacy_not_early : forall b steps e,
  In e (llog (lrun b steps linit)) ->
  exists s d, In (mkJ (ej e) s d) (ljobs (lrun b steps linit)) /\ s + d <= et e.
Proof. exact legacy_not_early. Qed.
Print Assumptions C13_legacy_not_early.

Theorem C13_legacy_only_committed_run : forall b steps e,
  In e (llog (lrun b steps linit)) -> In (ej e) (lcommitted (lrun b steps linit)).
Proof. exact legacy_only_committed. Qed.
Print Assumptions C13_legacy_only_committed_run.

Theorem C13_legacy_rollback_never_runs : forall b steps j,
  In j (lrolled (lrun b steps linit)) ->
  forall e, In e (llog (lrun b steps linit)) -> ej e <> j.
Proof. exact legacy_rollback_never_runs. Qed.
Print Assumptions C13_legacy_rollback_never_runs.

(* the processing flag is never reset: at most once holds unconditionally *)
Theorem C13_legacy_at_most_once : forall b steps, NoDup (map ej (llog (lrun b steps linit))).
Proof. exact legacy_at_most_once. Qed.
Print Assumptions C13_legacy_at_most_once.

(* ... and for the same reason crash recovery does NOT hold for the legacy scheduler: after the
   capturer dies the call stays in the table, flagged, and no continuation whatsoever invokes it
   (the property's "where the guarantee applies") *)
Theorem C13_legacy_crash_recovery_refuted :
  exists b pre j,
    let st := lrun b pre linit in
    In j (lcommitted st) /\ ~ In j (map ej (llog st)) /\
    forall post, ~ In j (map ej (llog (lrun b post st))) /\
                 exists r, In r (lstore (lrun b post st)) /\ lid r = j /\ lproc r = true.
Proof. exact legacy_crash_recovery_refuted. Qed.
Print Assumptions C13_legacy_crash_recovery_refuted.

(* ================= non-vacuity ================= *)

(* two instances, two jobs; instance 0 runs job 0 from memory, instance 1 picks job 1 up from the
   store after the pickup interval while instance 0 still has it in memory; the hypotheses of
   C13_at_most_once hold along the whole run and both jobs run exactly once *)
Definition demo_cfg : cfg := mkCfg 2 3 None true.
Definition demo_steps : list ev :=
  [Persist 0%nat 0%nat 1 1%nat; Persist 0%nat 0%nat 2 2%nat; Commit 0%nat; Tick 1; Dispatch 0%nat;
   MemStart 0%nat; MemInvoke 0%nat; MemDelete 0%nat; Tick 4; PollSelect 1%nat [1%nat]; PollCapture 0%nat;
   Dispatch 0%nat; MemStart 0%nat; PollInvoke 0%nat; Tick 1; PollDelete 0%nat].

Example C13_nonvacuous :
  along demo_cfg demo_steps init /\
  map (fun e => (ej e, et e, ei e)) (log (run demo_cfg demo_steps init)) = [(0%nat, 1, 0%nat); (1%nat, 5, 1%nat)] /\
  store (run demo_cfg demo_steps init) = [] /\
  eligible demo_cfg 5 (mkRow 1%nat 2 None 2%nat) = true /\ eligible demo_cfg 4 (mkRow 1%nat 2 None 2%nat) = false.
Proof.
  split; [apply alongb_sound; vm_compute; reflexivity | vm_compute; repeat split; reflexivity].
Qed.
