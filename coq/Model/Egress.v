(* Model of mistral/utils/egress.py: validate_url, _denied_networks.
   Anchors:  mistral/utils/egress.py:validate_url        -> validate
             ipaddress `address in network` (strict=False) -> in_net
             socket.getaddrinfo on literals (inet_aton/inet_pton semantics) -> denote
   Correspondence suite: harness/suites/C19.py (in_net, denote, validate, callers).
   No proofs in this file. *)
From Coq Require Import List NArith Bool String.
Import ListNotations.
Open Scope N_scope.

Inductive family := V4 | V6.

Definition fam_eqb (a b : family) : bool :=
  match a, b with V4, V4 => true | V6, V6 => true | _, _ => false end.

Definition bits (f : family) : N := match f with V4 => 32 | V6 => 128 end.

Record addr := mkAddr { afam : family; aval : N }.

(* ip_network(cidr, strict=False): base is masked by the prefix *)
Record net := mkNet { nfam : family; nbase : N; nlen : N }.

(* `address in network`: same version and network_address <= a <= broadcast;
   computed here by comparing the top nlen bits. *)
Definition in_net (a : addr) (n : net) : bool :=
  fam_eqb (afam a) (nfam n) &&
  (N.shiftr (aval a) (bits (nfam n) - nlen n) =? N.shiftr (nbase n) (bits (nfam n) - nlen n)).

(* IPv6Address.ipv4_mapped: ::ffff:a.b.c.d  (high 96 bits = 0xffff) *)
Definition ipv4_mapped (a : addr) : option addr :=
  match afam a with
  | V6 => if N.shiftr (aval a) 32 =? 65535 then Some (mkAddr V4 (aval a mod 4294967296)) else None
  | V4 => None
  end.

(* the addresses the code compares with the deny list for one resolved address *)
Definition candidates (a : addr) : list addr :=
  match ipv4_mapped a with Some m => [a; m] | None => [a] end.

Definition addr_denied (denied : list net) (a : addr) : bool :=
  existsb (fun c => existsb (in_net c) denied) (candidates a).

Inductive verdict := Allow | DenyScheme | DenyNoHost | DenyNotAllowed | DenyAddress.

Definition verdict_eqb (a b : verdict) : bool :=
  match a, b with
  | Allow, Allow | DenyScheme, DenyScheme | DenyNoHost, DenyNoHost
  | DenyNotAllowed, DenyNotAllowed | DenyAddress, DenyAddress => true
  | _, _ => false
  end.

Definition scheme_ok (s : string) : bool := (String.eqb s "http" || String.eqb s "https")%string.

Definition str_mem (s : string) (l : list string) : bool := existsb (String.eqb s) l.

(* validate_url after urlsplit: scheme (lower-cased by urlsplit), hostname
   (lower-cased, brackets/userinfo/port removed by urlsplit; "" when absent),
   and the resolver's answer: None = socket.gaierror (fail open), Some l = the
   addresses getaddrinfo returned. *)
Definition validate (denied : list net) (allowed : list string)
           (scheme host : string) (resolved : option (list addr)) : verdict :=
  if negb (scheme_ok scheme) then DenyScheme
  else if String.eqb host "" then DenyNoHost
  else if negb (match allowed with [] => true | _ => false end) && negb (str_mem host allowed) then DenyNotAllowed
  else match resolved with
       | None => Allow
       | Some l => if existsb (addr_denied denied) l then DenyAddress else Allow
       end.

(* ---- textual host forms of an address, as the resolver reads literals ---- *)

(* inet_aton accepts 1..4 parts; each part may be written in decimal, octal or
   hex (the radix does not change the value, so it is not represented here: the
   harness prints every part in all three radices). Values out of range make the
   literal invalid (None). *)
Inductive host_form :=
| H4 (a b c d : N)           (* a.b.c.d, each < 256 *)
| H3 (a b : N) (c : N)       (* a.b.c, c < 65536 *)
| H2 (a : N) (b : N)         (* a.b, b < 2^24 *)
| H1 (a : N)                 (* a < 2^32 *)
| H6 (g : list N)            (* exactly 8 groups < 65536; compression and case are printing choices *)
| H6v4 (g : list N) (a b c d : N) (* 6 groups then dotted quad: x:x:x:x:x:x:a.b.c.d *)
| HName (n : string).

Fixpoint groups_val (g : list N) (acc : N) : option N :=
  match g with
  | [] => Some acc
  | x :: r => if x <? 65536 then groups_val r (acc * 65536 + x) else None
  end.

Definition quad (a b c d : N) : option N :=
  if (a <? 256) && (b <? 256) && (c <? 256) && (d <? 256)
  then Some (((a * 256 + b) * 256 + c) * 256 + d) else None.

Definition denote (h : host_form) : option addr :=
  match h with
  | H4 a b c d => match quad a b c d with Some v => Some (mkAddr V4 v) | None => None end
  | H3 a b c => if (a <? 256) && (b <? 256) && (c <? 65536)
                then Some (mkAddr V4 ((a * 256 + b) * 65536 + c)) else None
  | H2 a b => if (a <? 256) && (b <? 16777216) then Some (mkAddr V4 (a * 16777216 + b)) else None
  | H1 a => if a <? 4294967296 then Some (mkAddr V4 a) else None
  | H6 g => if (N.of_nat (List.length g) =? 8)
            then match groups_val g 0 with Some v => Some (mkAddr V6 v) | None => None end
            else None
  | H6v4 g a b c d =>
      if (N.of_nat (List.length g) =? 6)
      then match groups_val g 0, quad a b c d with
           | Some v, Some q => Some (mkAddr V6 (v * 4294967296 + q))
           | _, _ => None
           end
      else None
  | HName _ => None
  end.

(* encoders: from an address to each of its textual forms *)
Definition enc4 (v : N) : host_form :=
  H4 (v / 16777216) ((v / 65536) mod 256) ((v / 256) mod 256) (v mod 256).
Definition enc3 (v : N) : host_form := H3 (v / 16777216) ((v / 65536) mod 256) (v mod 65536).
Definition enc2 (v : N) : host_form := H2 (v / 16777216) (v mod 16777216).
Definition enc1 (v : N) : host_form := H1 v.

Fixpoint groups_of (n : nat) (v : N) : list N :=
  match n with
  | O => []
  | S k => groups_of k (v / 65536) ++ [v mod 65536]
  end.

Definition enc6 (v : N) : host_form := H6 (groups_of 8 v).
(* the IPv4-mapped IPv6 form of an IPv4 address v: ::ffff:a.b.c.d *)
Definition enc_mapped (v : N) : host_form :=
  H6v4 [0;0;0;0;0;65535] (v / 16777216) ((v / 65536) mod 256) ((v / 256) mod 256) (v mod 256).
(* same address written with hex groups: ::ffff:xxxx:yyyy *)
Definition enc_mapped_hex (v : N) : host_form :=
  H6 [0;0;0;0;0;65535; v / 65536; v mod 65536].

(* printers used by the correspondence check (one line per value) *)
Definition verdict_name (v : verdict) : string :=
  match v with
  | Allow => "Allow" | DenyScheme => "DenyScheme" | DenyNoHost => "DenyNoHost"
  | DenyNotAllowed => "DenyNotAllowed" | DenyAddress => "DenyAddress"
  end%string.
