(* Model of the in-place normalisation that the spec constructors apply to the
   dictionary they are built from, i.e. of what BaseSpec.to_dict() returns and
   what is stored in workflow_definitions_v2.spec / workflow_executions_v2.spec.

   Mirrors  mistral/lang/base.py:BaseListSpec.__init__   (name / version injected into each member)
            mistral/lang/base.py:BaseSpecList.__init__   (name / version injected into each dict item, key 'version' skipped)
            mistral/lang/base.py:BaseSpec._inject_version
            mistral/lang/v2/workflows.py:WorkflowSpec.__init__  (type injected into every task)
            mistral/lang/v2/tasks.py:TaskSpec._process_action_and_workflow (inline params merged into the stored `input`)
            mistral/lang/v2/actions.py:ActionSpec.__init__      (inline params merged into the stored `base-input`)
            mistral/lang/v2/workbook.py:WorkbookSpec.__init__
            mistral/lang/base.py:BaseSpec.to_dict
   Driven against the real constructors by harness/suites/C14.py (suite `norm`).

   `pp s` is the dictionary of inline parameters of the command string s
   (BaseSpec._parse_cmd_and_input(s)[1]) - a regex matter, supplied per case by the
   harness from the real function. Values of wrong shape are left untouched here;
   that the code does not raise on them is Model/Build.v's subject.
   No proofs here. *)
From Coq Require Import List String ZArith Bool.
Require Import Mistral.Model.Jv.
Import ListNotations.
Open Scope string_scope.

Section Norm.
  Variable pp : string -> obj.

  Definition v20 : jv := JStr "2.0".

  (* utils.merge_dicts(left, params) for params whose values are not dicts *)
  Definition merge_flat (left : obj) (params : obj) : obj :=
    fold_left (fun acc kv => set (fst kv) (snd kv) acc) params left.

  (* the command string the inline parameters are taken from:
     `action` if truthy, else `workflow` if truthy *)
  Definition task_cmd (t : obj) : option string :=
    match lookup "action" t with
    | Some (JStr (String c r)) => Some (String c r)
    | Some a => if truthy a then None else
                  match lookup "workflow" t with
                  | Some (JStr (String c r)) => Some (String c r)
                  | _ => None
                  end
    | None => match lookup "workflow" t with
              | Some (JStr (String c r)) => Some (String c r)
              | _ => None
              end
    end.

  (* merge the inline params of `cmd` into the dict stored under `key`, if there is one *)
  Definition merge_into (key : string) (cmd : option string) (t : obj) : obj :=
    match cmd, lookup key t with
    | Some c, Some (JObj i) => set key (JObj (merge_flat i (pp c))) t
    | _, _ => t
    end.

  (* TaskSpec built from its (already injected) dict *)
  Definition norm_task_obj (t : obj) : obj := merge_into "input" (task_cmd t) t.

  (* one entry of `tasks`: WorkflowSpec sets type; TaskSpecList sets name/version and
     instantiates, except for the key 'version' which it skips altogether *)
  Definition norm_task (wf_type : jv) (kv : string * jv) : string * jv :=
    let (k, v) := kv in
    match v with
    | JObj t =>
        let t1 := set "type" wf_type t in
        if String.eqb k "version" then (k, JObj t1)
        else (k, JObj (norm_task_obj (set "version" v20 (set "name" (JStr k) t1))))
    | _ => (k, v)
    end.

  Definition wf_type_of (w : obj) : jv :=
    match lookup "type" w with Some t => t | None => JStr "direct" end.

  (* WorkflowSpec built from its (already injected) dict *)
  Definition norm_wf_obj (w : obj) : obj :=
    match lookup "tasks" w with
    | Some (JObj ts) => set "tasks" (JObj (map (norm_task (wf_type_of w)) ts)) w
    | _ => w
    end.

  Definition action_cmd (a : obj) : option string :=
    match lookup "base" a with Some (JStr s) => Some s | _ => None end.

  Definition norm_action_obj (a : obj) : obj := merge_into "base-input" (action_cmd a) a.

  (* a member of a list / of a workbook section: name and version injected, then built *)
  Definition norm_member (build : obj -> obj) (kv : string * jv) : string * jv :=
    let (k, v) := kv in
    if String.eqb k "version" then (k, v)
    else match v with
         | JObj m => (k, JObj (build (set "version" v20 (set "name" (JStr k) m))))
         | _ => (k, v)
         end.

  (* WorkflowListSpec / ActionListSpec *)
  Definition norm_list (build : obj -> obj) (d : jv) : jv :=
    match d with
    | JObj kvs => JObj (map (norm_member build) kvs)
    | _ => d
    end.

  Definition norm_wf_list : jv -> jv := norm_list norm_wf_obj.
  Definition norm_action_list : jv -> jv := norm_list norm_action_obj.

  (* a workbook section: _inject_version, then the BaseSpecList over it *)
  Definition norm_section (build : obj -> obj) (key : string) (wb : obj) : obj :=
    match lookup key wb with
    | Some (JObj sec) => set key (JObj (map (norm_member build) (set "version" v20 sec))) wb
    | _ => wb
    end.

  Definition norm_wb (d : jv) : jv :=
    match d with
    | JObj wb => JObj (norm_section norm_wf_obj "workflows" (norm_section norm_action_obj "actions" wb))
    | _ => d
    end.

  (* ---- the specification object: the stored dict plus the fields derived from it ---- *)

  Record task_view := mkTaskView {
    tv_name : string;
    tv_cmd : option string;        (* action / workflow string the task runs *)
    tv_input : option jv;          (* stored input incl. merged inline params *)
    tv_data : jv
  }.

  Record wf_spec := mkWfSpec {
    ws_data : jv;                  (* to_dict() *)
    ws_name : option jv;
    ws_type : jv;
    ws_tasks : list task_view
  }.

  Definition view_task (kv : string * jv) : task_view :=
    let (k, v) := kv in
    match v with
    | JObj t => mkTaskView k (task_cmd t) (lookup "input" t) v
    | _ => mkTaskView k None None v
    end.

  Definition wf_fields (w : obj) : wf_spec :=
    mkWfSpec (JObj w) (lookup "name" w) (wf_type_of w)
             (match lookup "tasks" w with
              | Some (JObj ts) => map view_task (filter (fun kv => negb (String.eqb (fst kv) "version")) ts)
              | _ => []
              end).

  (* parser.get_workflow_spec(d) *)
  Definition spec_of_wf (w : obj) : wf_spec := wf_fields (norm_wf_obj w).

  Definition to_dict (s : wf_spec) : jv := ws_data s.

  Definition spec_of (d : jv) : option wf_spec :=
    match d with JObj w => Some (spec_of_wf w) | _ => None end.

End Norm.
