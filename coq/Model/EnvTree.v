(* Model of the environment every expression of an execution tree is evaluated against
   (property C09, clause "every descendant execution ... evaluates its expressions against the root
   execution's environment").

   Anchors (source -> model definition):
     mistral/workflow/data_flow.py:get_workflow_environment_dict   -> Gen/EnvSites.v get_workflow_environment_dict
         (TRANSLATED from the source on every run, translate/tr_envsites.py)
     every ContextView(...) construction of mistral/ and the expr.evaluate* callers
         of mistral/workflow, mistral/engine                        -> Gen/EnvSites.v env_sites, env_uses (TRANSLATED)
     mistral/engine/workflows.py:Workflow._create_execution
         (params['env'] = _get_environment(params): always present;
          root_execution_id = params.get('root_execution_id'))      -> mk_root, spawn
     mistral/engine/actions.py:WorkflowAction.schedule
         (root_execution_id = parent.root_execution_id or parent.id;
          an input key `env` the child does not declare becomes the child's own params['env'])
                                                                    -> spawn
     mistral/db/v2/sqlalchemy/models.py WorkflowExecution.root_execution
         (relationship resolving root_execution_id)                 -> spawn (the link is the execution of that id)
     mistral/expressions/*: env() = context['__env'] (None when no layer has the key) -> env_seen
   Correspondence suite: harness/suites/C09.py suite_env_tree (real engine runs, env() read at every expression
   site of every level, compared with env_seen of the site that builds that expression's context).
   No proofs in this file. *)
From Coq Require Import List Bool String Arith.
Require Import Mistral.Gen.EnvSites.
Import ListNotations.
Open Scope string_scope.

Definition ex_ident (e : exec) : nat := match e with mkExec i _ _ _ => i end.
Definition ex_params_env (e : exec) : option env := match e with mkExec _ p _ _ => p end.
Definition ex_root_id (e : exec) : option nat := match e with mkExec _ _ r _ => r end.
Definition ex_root (e : exec) : option exec := match e with mkExec _ _ _ r => r end.

(* a root execution started with environment E: no root_execution_id *)
Definition mk_root (i : nat) (E : env) : exec := mkExec i (Some E) None None.

(* a sub-workflow execution created by a task of `parent`; `own` is the child's own params['env']
   ({} unless the caller passed an input key `env` that the child does not declare) *)
Definition spawn (parent : exec) (i : nat) (own : env) : exec :=
  mkExec i (Some own)
         (Some (match ex_root_id parent with Some r => r | None => ex_ident parent end))
         (Some (match ex_root parent with Some r => r | None => parent end)).

(* the executions of a tree, with their depth *)
Inductive in_tree (root : exec) : nat -> exec -> Prop :=
| it_root : in_tree root 0 root
| it_child : forall d p i own, in_tree root d p -> in_tree root (S d) (spawn p i own).

(* the node reached from `cur` by one sub-workflow call per step (id, own env) *)
Fixpoint path (cur : exec) (steps : list (nat * env)) : exec :=
  match steps with
  | [] => cur
  | (i, own) :: r => path (spawn cur i own) r
  end.
Definition node_at (E : env) (steps : list (nat * env)) : exec := path (mk_root 0 E) steps.

(* what env() yields in an expression whose context is built at site s for execution e;
   None = the context has no __env (env() is null) or the source is not understood *)
Definition env_seen (s : env_site) (e : exec) : option env :=
  match site_env s with
  | EnvOfRoot => get_workflow_environment_dict e
  | EnvOwnParams => Some (match ex_params_env e with Some v => v | None => [] end)
  | EnvNone => None
  | EnvOther _ => None
  end.

(* sites that are not an expression of a workflow / task evaluated against "the" environment:
     workflows._get_environment          evaluates the environment being stored against itself
     actions_adhoc...._on_visit          re-uses the view handed over by actions.RegularAction.schedule (a site of its own) *)
Definition exempt_sites : list string :=
  [ "workflows._get_environment"
  ; "actions_adhoc.AdHocActionDescriptor.instantiate._on_visit" ].
Definition env_exempt (s : env_site) : bool := existsb (String.eqb (site_name s)) exempt_sites.

Definition is_root_source (x : env_source) : bool := match x with EnvOfRoot => true | _ => false end.
Definition sites_all_root : bool := forallb (fun s => env_exempt s || is_root_source (site_env s)) env_sites.
Definition uses_resolved : bool :=
  forallb (fun u => existsb (fun s => String.eqb (site_name s) (snd u)) env_sites) env_uses.

(* printers for the correspondence suite *)
Fixpoint show_env (e : env) : string :=
  match e with
  | [] => ""
  | (k, v) :: r => k ++ "=" ++ v ++ ";" ++ show_env r
  end.
Definition show_seen (o : option env) : string :=
  match o with None => "NONE" | Some e => "ENV:" ++ show_env e end.
Definition seen_all (E : env) (steps : list (nat * env)) : list (string * string) :=
  map (fun s => (site_name s, show_seen (env_seen s (node_at E steps)))) env_sites.
