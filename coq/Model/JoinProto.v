(* Step-granular model of the "check - lock - re-check - act" protocol that makes a join execution
   exist once and start once, with any number of racing transactions.
   Anchors:
     mistral/engine/tasks.py:Task.defer                    act = INSERT of the WAITING join row (unique_key)
        fast check outside the lock; `with db_api.named_lock(unique_key)`; re-read by unique_key; create if absent
     mistral/engine/task_handler.py:_refresh_task_state     act = WAITING -> RUNNING + start of the action / sub-workflow
        state check; `with db_api.named_lock(task_ex.id)`; db_api.refresh; state check again; continue_task
     mistral/db/v2/sqlalchemy/api.py:named_lock + models.NamedLock: a row insert that blocks a second insert of the
        same name until the first TRANSACTION ends (READ COMMITTED): the lock is held until commit
     mistral/db/v2/sqlalchemy/models.py:TaskExecution UniqueConstraint('unique_key'): a second INSERT of the key
        blocks while the first is uncommitted and fails (DBDuplicateEntry -> the transaction is retried) once it is
   Which of the guards the source really has is extracted on every run into Gen/Locks.v (translate/tr_locks.py).
   Correspondence suite: harness/suites/C04.py (proto) runs the REAL Task.defer / _refresh_task_state bodies in one
   thread per transaction over an in-memory READ COMMITTED store, under generated schedules, against `run`.
   No proofs in this file. *)
From Coq Require Import List Arith Bool.
Import ListNotations.

Record cfg := mkCfg {
  c_locked : bool;     (* the act is inside named_lock *)
  c_recheck : bool;    (* the condition is read again after the lock is acquired, and the act skipped if it fails *)
  c_fresh : bool;      (* a read inside a transaction sees rows committed meanwhile (READ COMMITTED);
                          false = the transaction keeps the snapshot of its first read (REPEATABLE READ) *)
  c_unique : bool      (* the act is an INSERT guarded by a unique constraint *)
}.

Inductive pc :=
| PCheck                (* about to do the check outside the lock *)
| PLock                 (* about to acquire the named lock *)
| PRecheck              (* holds the lock (if any), about to re-read *)
| PAct                  (* about to act *)
| PCommit (acted : bool) (* about to commit *)
| PDone.

Record sys := mkSys {
  committed : nat;            (* committed acts: rows with the key / starts of the join *)
  lock : option nat;          (* transaction holding the named lock *)
  pcs : nat -> pc;            (* program counter of every transaction *)
  snap : nat -> bool          (* what the transaction's first read saw *)
}.

Definition init : sys := mkSys 0 None (fun _ => PCheck) (fun _ => false).

Definition upd {A} (f : nat -> A) (i : nat) (v : A) : nat -> A := fun j => if Nat.eqb j i then v else f j.

Definition release (s : sys) (i : nat) : option nat :=
  match lock s with Some h => if Nat.eqb h i then None else Some h | None => None end.

(* another transaction has acted and not yet committed *)
Definition pending_other (s : sys) (i : nat) (bound : nat) : bool :=
  existsb (fun j => negb (Nat.eqb j i) && match pcs s j with PCommit true => true | _ => false end) (seq 0 bound).

(* one step of transaction i (no-op when it is blocked or finished); `bound` = number of transactions *)
Definition step (c : cfg) (bound : nat) (s : sys) (i : nat) : sys :=
  match pcs s i with
  | PCheck =>
    let seen := 0 <? committed s in
    mkSys (committed s) (lock s) (upd (pcs s) i (if seen then PDone else PLock)) (upd (snap s) i seen)
  | PLock =>
    if c_locked c then
      match lock s with
      | None => mkSys (committed s) (Some i) (upd (pcs s) i PRecheck) (snap s)
      | Some _ => s                                                     (* blocked *)
      end
    else mkSys (committed s) (lock s) (upd (pcs s) i PRecheck) (snap s)
  | PRecheck =>
    let seen := if c_recheck c then (if c_fresh c then 0 <? committed s else snap s i) else false in
    mkSys (committed s) (lock s) (upd (pcs s) i (if seen then PCommit false else PAct)) (snap s)
  | PAct =>
    if c_unique c then
      if 0 <? committed s then
        (* duplicate key: the transaction is rolled back (lock released) and retried from the start *)
        mkSys (committed s) (release s i) (upd (pcs s) i PCheck) (snap s)
      else if pending_other s i bound then s                              (* blocked on the index entry *)
      else mkSys (committed s) (lock s) (upd (pcs s) i (PCommit true)) (snap s)
    else mkSys (committed s) (lock s) (upd (pcs s) i (PCommit true)) (snap s)
  | PCommit acted =>
    mkSys (if acted then S (committed s) else committed s) (release s i) (upd (pcs s) i PDone) (snap s)
  | PDone => s
  end.

Definition run (c : cfg) (bound : nat) (sched : list nat) : sys :=
  fold_left (fun s i => if i <? bound then step c bound s i else s) sched init.

Definition all_done (s : sys) (bound : nat) : bool :=
  forallb (fun j => match pcs s j with PDone => true | _ => false end) (seq 0 bound).

(* printers for the correspondence suite *)
Definition pc_code (p : pc) : nat :=
  match p with PCheck => 0 | PLock => 1 | PRecheck => 2 | PAct => 3 | PCommit false => 4 | PCommit true => 5 | PDone => 6 end.

Definition show_sys (s : sys) (bound : nat) : nat * list nat :=
  (committed s, map (fun j => pc_code (pcs s j)) (seq 0 bound)).
