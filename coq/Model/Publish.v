(* Model of publishing and of the expression contexts of mistral's data flow.
   Anchors (file:function -> definition here):
     mistral_lib/utils:merge_dicts (overwrite=True)                   -> merge_dicts_v / merge_dicts, pmerge_v / pmerge
     mistral/lang/v2/publish.py:PublishSpec.merge                     -> ps_merge
     mistral/lang/v2/tasks.py:TaskSpec.get_publish,
       DirectWorkflowTaskSpec.get_publish                             -> get_publish
     mistral/expressions/__init__.py:evaluate_recursively (over the
       expression forms the suite generates, YAQL and Jinja spelling) -> eval
     mistral/workflow/data_flow.py:publish_variables                  -> publish_variables (publish_view)
     mistral/workflow/data_flow.py:evaluate_workflow_output           -> workflow_output (output_view)
     mistral/workflow/data_flow.py:add_workflow_variables_to_context  -> add_vars (vars_view)
     mistral/workflow/direct_workflow.py:_find_next_tasks ctx_view    -> next_view
     mistral/engine/tasks.py:Task.get_expression_context              -> expr_view
     mistral/engine/tasks.py:RegularTask._get_target ctx_view         -> target_view
     mistral/engine/tasks.py:RegularTask._get_timeout ctx_view        -> timeout_view
   Expression forms: `<% $.k1.k2 %>` / `{{ _.k1.k2 }}` (PPath; `env().k` is PPath ["__env"; k]),
   `<% $.get(k) %>` / `{{ _.get('k') }}` (PGet), literals, lists and dicts of those.
   An evaluation error (missing key, attribute of a scalar) is None.
   Correspondence suite: harness/suites/C05.py (get_publish, publish, output, vars, views).
   No proofs in this file. *)
From Coq Require Import List ZArith NArith Bool String.
Require Import Mistral.Model.Ctx.
Import ListNotations.
Open Scope string_scope.

(* utils.merge_dicts(left, right): recursive on dict/dict, the right value wins otherwise *)
Fixpoint merge_dicts_v (lv rv : value) {struct rv} : value :=
  match rv with
  | VDict rd =>
      match lv with
      | VDict ld =>
          VDict (fold_left
                   (fun acc kv =>
                      match lookup (fst kv) acc with
                      | None => set (fst kv) (snd kv) acc
                      | Some lv' => set (fst kv) (merge_dicts_v lv' (snd kv)) acc
                      end) rd ld)
      | _ => rv
      end
  | _ => rv
  end.

Definition merge_dicts_step (acc : dict) (kv : string * value) : dict :=
  match lookup (fst kv) acc with
  | None => set (fst kv) (snd kv) acc
  | Some lv' => set (fst kv) (merge_dicts_v lv' (snd kv)) acc
  end.

Definition merge_dicts (l r : dict) : dict := fold_left merge_dicts_step r l.

(* publish clauses: trees whose leaves are literals or expressions *)
Inductive pexpr :=
| PLit (v : value)
| PPath (ks : list string)
| PGet (k : string)
| PList (l : list pexpr)
| PDict (d : list (string * pexpr)).

Definition pd := list (string * pexpr).

Fixpoint pmerge_v (lv rv : pexpr) {struct rv} : pexpr :=
  match rv with
  | PDict rd =>
      match lv with
      | PDict ld =>
          PDict (fold_left
                   (fun acc kv =>
                      match lookup (fst kv) acc with
                      | None => set (fst kv) (snd kv) acc
                      | Some lv' => set (fst kv) (pmerge_v lv' (snd kv)) acc
                      end) rd ld)
      | _ => rv
      end
  | _ => rv
  end.

Definition pmerge_step (acc : pd) (kv : string * pexpr) : pd :=
  match lookup (fst kv) acc with
  | None => set (fst kv) (snd kv) acc
  | Some lv' => set (fst kv) (pmerge_v lv' (snd kv)) acc
  end.

Definition pmerge (l r : pd) : pd := fold_left pmerge_step r l.

(* PublishSpec: branch / global parts; None = the key is absent (self._branch is None) *)
Record pubspec := mkPS { ps_branch : option pd; ps_global : option pd }.

Definition nonempty (o : option pd) : bool :=
  match o with Some (_ :: _) => true | _ => false end.

(* PublishSpec.merge(self, spec_to_merge), per part (fix f28ee2d0):
   `self._x = merge_dicts(deepcopy(self._x), other._x)` when the other part is non-empty;
   merge_dicts(None, right) returns right, so an absent part takes the other side's *)
Definition merge_part (mine theirs : option pd) : option pd :=
  if nonempty theirs then
    match mine, theirs with
    | Some m, Some t => Some (pmerge m t)
    | None, Some t => Some t
    | _, None => mine
    end
  else mine.

Definition ps_merge (self other : pubspec) : pubspec :=
  mkPS (merge_part (ps_branch self) (ps_branch other))
       (merge_part (ps_global self) (ps_global other)).

(* DirectWorkflowTaskSpec.get_publish(state): [tl] = the task-level clause selected by
   the state (publish / publish-on-error / publish-on-skip; [] when absent), [oc] = the
   publish of on-complete, [oncl] = the publish of the on-clause selected by the state *)
Definition get_publish (tl : pd) (oc oncl : option pubspec) : option pubspec :=
  let spec0 := match tl with [] => None | _ => Some (mkPS (Some tl) None) end in
  let spec1 := match oc with
               | Some o => match spec0 with Some s => Some (ps_merge s o) | None => Some o end
               | None => spec0
               end in
  match oncl with
  | Some c => match spec1 with Some s => Some (ps_merge c s) | None => Some c end
  | None => spec1
  end.

(* ---- expression evaluation over a ContextView ---- *)
Fixpoint eval (view : list dict) (e : pexpr) : option value :=
  match e with
  | PLit v => Some v
  | PPath [] => None
  | PPath (k :: t) => match view_lookup k view with Some v => at_path t v | None => None end
  | PGet k => Some (match view_lookup k view with Some v => v | None => VNull end)
  | PList l =>
      match fold_right (fun x acc => match eval view x, acc with
                                     | Some v, Some vs => Some (v :: vs)
                                     | _, _ => None end) (Some []) l with
      | Some vs => Some (VList vs)
      | None => None
      end
  | PDict d =>
      match fold_right (fun kv acc => match eval view (snd kv), acc with
                                      | Some v, Some kvs => Some ((fst kv, v) :: kvs)
                                      | _, _ => None end) (Some []) d with
      | Some kvs => Some (VDict kvs)
      | None => None
      end
  end.

(* evaluate_recursively(None, ctx) = None *)
Definition eval_part (view : list dict) (o : option pd) : option (option dict) :=
  match o with
  | None => Some None
  | Some d => match eval view (PDict d) with
              | Some (VDict kvs) => Some (Some kvs)
              | _ => None
              end
  end.

(* ---- the dictionaries a view is made of ---- *)
Definition task_dict (tid tname : string) : dict :=
  [(TASK_EXECUTION_KEY, VDict [("id", VStr tid); ("name", VStr tname)])].

Definition env_dict (env : dict) : dict := [("__env", VDict env)].

(* publish_variables: task, in_context, env, workflow context (vars + global), input *)
Definition publish_view (tid tname : string) (in_ctx env wctx input : dict) : list dict :=
  [task_dict tid tname; in_ctx; env_dict env; wctx; input].

(* _find_next_tasks: same order with the outbound context in place of in_context *)
Definition next_view (tid tname : string) (out_ctx env wctx input : dict) : list dict :=
  [task_dict tid tname; out_ctx; env_dict env; wctx; input].

(* Task.get_expression_context(ctx): task, env, ctx or {}, in_context, wf context, input *)
Definition expr_view (tid tname : string) (env extra in_ctx wctx input : dict) : list dict :=
  [task_dict tid tname; env_dict env; extra; in_ctx; wctx; input].

(* RegularTask._get_target: action input, self.ctx, env, wf context, input *)
Definition target_view (action_input task_ctx env wctx input : dict) : list dict :=
  [action_input; task_ctx; env_dict env; wctx; input].

(* RegularTask._get_timeout: in_context, wf context, input (no env) *)
Definition timeout_view (in_ctx wctx input : dict) : list dict := [in_ctx; wctx; input].

(* evaluate_workflow_output: final context, env, wf context, input *)
Definition output_view (final env wctx input : dict) : list dict :=
  [final; env_dict env; wctx; input].

(* add_workflow_variables_to_context: env, wf context, input *)
Definition vars_view (env wctx input : dict) : list dict := [env_dict env; wctx; input].

(* ---- publish_variables ---- *)
Inductive pubres :=
| PubNothing                                   (* no publish spec for this state: nothing is written *)
| PubError                                     (* an expression failed *)
| PubOk (published : option dict) (wctx : dict).  (* task_ex.published, wf_ex.context afterwards *)

Definition publish_variables (tid tname : string) (in_ctx env wctx input : dict)
           (tl : pd) (oc oncl : option pubspec) : pubres :=
  match get_publish tl oc oncl with
  | None => PubNothing
  | Some sp =>
      let view := publish_view tid tname in_ctx env wctx input in
      match eval_part view (ps_branch sp) with
      | None => PubError
      | Some b =>
          match eval_part view (ps_global sp) with
          | None => PubError
          | Some None => PubOk b wctx
          | Some (Some g) => PubOk b (merge_dicts wctx g)
          end
      end
  end.

(* evaluate_workflow_output: `output or ctx` (versions cleared) *)
Definition workflow_output (out_spec : pd) (final env wctx input : dict) : option value :=
  match eval (output_view final env wctx input) (PDict out_spec) with
  | Some (VDict []) => Some (VDict final)
  | r => r
  end.

(* add_workflow_variables_to_context *)
Definition add_vars (vars : pd) (env wctx input : dict) : option dict :=
  match eval (vars_view env wctx input) (PDict vars) with
  | Some (VDict vs) => Some (merge_dicts wctx vs)
  | _ => None
  end.

(* ---- printing ---- *)
Definition show_odict (o : option dict) : string :=
  match o with None => "null" | Some d => show_value (VDict d) end.

Definition show_pubres (r : pubres) : string :=
  match r with
  | PubNothing => """nothing"""
  | PubError => """error"""
  | PubOk p w => "{""published"":" ++ show_odict p ++ ",""wctx"":" ++ show_value (VDict w) ++ "}"
  end.

Fixpoint show_pexpr (e : pexpr) : string :=
  match e with
  | PLit v => "{""lit"":" ++ show_value v ++ "}"
  | PPath ks => "{""path"":[" ++ sep_concat "," (map quote ks) ++ "]}"
  | PGet k => "{""get"":" ++ quote k ++ "}"
  | PList l => "{""list"":[" ++ sep_concat "," (map show_pexpr l) ++ "]}"
  | PDict d => "{""dict"":{" ++ sep_concat "," (map (fun kv => quote (fst kv) ++ ":" ++ show_pexpr (snd kv)) d) ++ "}}"
  end.

Definition show_opd (o : option pd) : string :=
  match o with None => "null" | Some d => show_pexpr (PDict d) end.

Definition show_opubspec (o : option pubspec) : string :=
  match o with
  | None => "null"
  | Some s => "{""branch"":" ++ show_opd (ps_branch s) ++ ",""global"":" ++ show_opd (ps_global s) ++ "}"
  end.
