(* Model of the data-flow context algebra of mistral (default configuration:
   context_versioning.enabled = True, engine.merge_strategy = replace).
   Anchors (file:function -> definition here):
     mistral/workflow/context_versioning.py:_get_published_keys_recursively -> pub_paths_v / pub_paths
     mistral/workflow/context_versioning.py:get_in_context_with_versions    -> with_versions (bump_all)
     mistral_lib/utils:update_dict                                           -> update_dict
     mistral/workflow/data_flow.py:evaluate_task_outbound_context            -> outbound
     mistral/workflow/context_versioning.py:_merge_ctx                       -> merge_val / merge_items
     mistral/workflow/context_versioning.py:_merge_versions                  -> merge_vers
     mistral/workflow/context_versioning.py:merge_context_by_version         -> merge_ctx
     mistral/workflow/data_flow.py:evaluate_upstream_context                 -> eval_upstream / eval_upstream_add
     mistral/workflow/direct_workflow.py:evaluate_workflow_final_context     -> final_context
     mistral/workflow/data_flow.py:ContextView.__getitem__/get/__contains__  -> view_lookup / view_has
   A context dict of the code is split here into its data part (every key but
   "__versions") and the version map stored under "__versions".  Version keys are
   the dotted leaf paths; the code stores md5(path) when hash_version_keys is set
   (the default): the suite hashes the model's paths before comparing (md5 is treated
   as injective).
   Correspondence suite: harness/suites/C05.py (outbound, merge, upstream, final, view).
   No proofs in this file. *)
From Coq Require Import List ZArith NArith Bool String Ascii.
Import ListNotations.
Open Scope string_scope.

(* JSON-like values *)
Inductive value :=
| VNull
| VBool (b : bool)
| VNum (z : Z)
| VStr (s : string)
| VList (l : list value)
| VDict (d : list (string * value)).

Definition dict := list (string * value).
Definition vers := list (string * N).

Definition is_dict (v : value) : bool := match v with VDict _ => true | _ => false end.

(* ---- association lists with python-dict behaviour: first match wins on lookup,
        assignment replaces in place or appends (insertion order) ---- *)
Section Assoc.
  Context {A : Type}.

  Fixpoint lookup (k : string) (d : list (string * A)) : option A :=
    match d with
    | [] => None
    | (k', v) :: t => if String.eqb k k' then Some v else lookup k t
    end.

  Fixpoint set (k : string) (v : A) (d : list (string * A)) : list (string * A) :=
    match d with
    | [] => [(k, v)]
    | (k', v') :: t => if String.eqb k k' then (k, v) :: t else (k', v') :: set k v t
    end.

  Definition remove (k : string) (d : list (string * A)) : list (string * A) :=
    filter (fun kv => negb (String.eqb k (fst kv))) d.

  Definition has (k : string) (d : list (string * A)) : bool :=
    match lookup k d with Some _ => true | None => false end.
End Assoc.

Definition getv (p : string) (vs : vers) : N :=
  match lookup p vs with Some n => n | None => 0%N end.

(* `key if not prefix else prefix + "." + key`  (None and "" are both falsy) *)
Definition join_path (p k : string) : string :=
  if String.eqb p "" then k else p ++ "." ++ k.

(* _get_published_keys_recursively: the dotted paths whose version a published value bumps;
   [p] is the path of [v] itself.  A non-dict value bumps its own path; a dict value bumps
   its own path too (fix 883c1b22: the variable itself changes) and then the paths below it. *)
Fixpoint pub_paths_v (p : string) (v : value) : list string :=
  match v with
  | VDict d =>
      p :: (fix go (d : dict) : list string :=
              match d with
              | [] => []
              | (k, v') :: t => (pub_paths_v (join_path p k) v' ++ go t)%list
              end) d
  | _ => [p]
  end.

(* the published dict itself has no path: only its entries are visited *)
Definition pub_paths (pub : dict) : list string :=
  flat_map (fun kv => pub_paths_v (join_path "" (fst kv)) (snd kv)) pub.

Definition bump (p : string) (vs : vers) : vers := set p (getv p vs + 1)%N vs.

Definition bump_all (ps : list string) (vs : vers) : vers :=
  fold_left (fun acc p => bump p acc) ps vs.

Record ctx := mkCtx { cdata : dict; cvers : vers }.

Definition empty_ctx : ctx := mkCtx [] [].

(* get_in_context_with_versions: deep copy of in_context, "__versions" created when
   missing, one increment per published path (leaves and dict nodes) *)
Definition with_versions (c : ctx) (pub : dict) : ctx :=
  mkCtx (cdata c) (bump_all (pub_paths pub) (cvers c)).

(* utils.update_dict: left.update(right) - top-level replacement *)
Definition update_dict (l r : dict) : dict :=
  fold_left (fun acc kv => set (fst kv) (snd kv) acc) r l.

(* evaluate_task_outbound_context (merge_strategy = replace) *)
Definition outbound (c : ctx) (pub : dict) : ctx :=
  mkCtx (update_dict (cdata c) pub) (bump_all (pub_paths pub) (cvers c)).

(* _merge_ctx on two values found under the same key, whose dotted path is [p].
   Both dicts: keys of the right one are merged into the left one in the right one's
   order; otherwise the right value replaces the left one iff its version at [p] is
   strictly greater. *)
Fixpoint merge_val (vl vr : vers) (p : string) (lv rv : value) {struct rv} : value :=
  match rv with
  | VDict rd =>
      match lv with
      | VDict ld =>
          VDict (fold_left
                   (fun acc kv =>
                      match lookup (fst kv) acc with
                      | None => set (fst kv) (snd kv) acc
                      | Some lv' => set (fst kv) (merge_val vl vr (join_path p (fst kv)) lv' (snd kv)) acc
                      end) rd ld)
      | _ => if N.ltb (getv p vl) (getv p vr) then rv else lv
      end
  | _ => if N.ltb (getv p vl) (getv p vr) then rv else lv
  end.

Definition merge_step (vl vr : vers) (p : string) (acc : dict) (kv : string * value) : dict :=
  match lookup (fst kv) acc with
  | None => set (fst kv) (snd kv) acc
  | Some lv' => set (fst kv) (merge_val vl vr (join_path p (fst kv)) lv' (snd kv)) acc
  end.

(* _merge_ctx(ctx_left, ver_left, ctx_right, ver_right, prefix) on dicts *)
Definition merge_items (vl vr : vers) (p : string) (ld rd : dict) : dict :=
  fold_left (merge_step vl vr p) rd ld.

(* _merge_versions: pointwise maximum, keys of the right map added *)
Definition merge_vers (l r : vers) : vers :=
  fold_left (fun acc kn => set (fst kn) (N.max (getv (fst kn) acc) (snd kn)) acc) r l.

Definition TASK_EXECUTION_KEY : string := "__task_execution".

(* merge_context_by_version *)
Definition merge_ctx (l r : ctx) : ctx :=
  mkCtx (merge_items (cvers l) (cvers r) ""
                     (remove TASK_EXECUTION_KEY (cdata l)) (remove TASK_EXECUTION_KEY (cdata r)))
        (merge_vers (cvers l) (cvers r)).

(* a task execution as the data flow sees it: inbound context and published dict *)
Definition tex := (ctx * dict)%type.

Definition out_of (t : tex) : ctx := outbound (fst t) (snd t).

Definition merge_all (base : ctx) (ts : list tex) : ctx :=
  fold_left (fun acc t => merge_ctx acc (out_of t)) ts base.

(* evaluate_upstream_context(upstream) without additive context: the LAST row is
   popped and its outbound context is the base, the others are merged into it in list
   order.  None stands for the `{}` returned on an empty list. *)
Definition eval_upstream (ups : list tex) : option ctx :=
  match rev ups with
  | [] => None
  | b :: rest_rev => Some (merge_all (out_of b) (rev rest_rev))
  end.

(* evaluate_upstream_context(upstream, additive_context=add): `{}` (None here) is
   falsy, so the pop-last path is taken; an empty upstream list returns `{}` whatever
   the additive context is. *)
Definition eval_upstream_add (add : option ctx) (ups : list tex) : option ctx :=
  match ups with
  | [] => None
  | _ => match add with
         | None => eval_upstream ups
         | Some a => Some (merge_all a ups)
         end
  end.

(* evaluate_workflow_final_context over the batches of end tasks *)
Definition final_context (batches : list (list tex)) : option ctx :=
  fold_left eval_upstream_add batches None.

(* ---- ContextView: first dictionary that has the key wins ---- *)
Fixpoint view_lookup (k : string) (ds : list dict) : option value :=
  match ds with
  | [] => None
  | d :: t => match lookup k d with Some v => Some v | None => view_lookup k t end
  end.

Definition view_has (k : string) (ds : list dict) : bool :=
  existsb (has k) ds.

(* navigation along a list of keys through nested dicts *)
Fixpoint at_path (ks : list string) (v : value) : option value :=
  match ks with
  | [] => Some v
  | k :: t => match v with
              | VDict d => match lookup k d with Some v' => at_path t v' | None => None end
              | _ => None
              end
  end.

(* dotted path string of a key list below prefix [p] *)
Fixpoint path_str (p : string) (ks : list string) : string :=
  match ks with
  | [] => p
  | k :: t => path_str (join_path p k) t
  end.

(* ---- printing (used by the correspondence suite only) ---- *)
Fixpoint show_pos_digits (fuel : nat) (n : N) (acc : string) : string :=
  match fuel with
  | O => acc
  | S f =>
      let d := N.modulo n 10 in
      let acc' := String (ascii_of_N (48 + d)) acc in
      if N.eqb (N.div n 10) 0 then acc' else show_pos_digits f (N.div n 10) acc'
  end.

Definition show_N (n : N) : string := show_pos_digits (S (N.to_nat (N.log2 n))) n "".

Definition show_Z (z : Z) : string :=
  match z with
  | Z0 => "0"
  | Zpos p => show_N (Npos p)
  | Zneg p => "-" ++ show_N (Npos p)
  end.

Definition quote (s : string) : string := String """"%char (s ++ String """"%char "").

Fixpoint sep_concat (sep : string) (l : list string) : string :=
  match l with
  | [] => ""
  | [x] => x
  | x :: t => x ++ sep ++ sep_concat sep t
  end.

(* JSON text; strings are printed without escaping (the suite generates only
   [A-Za-z0-9_.-] and space) *)
Fixpoint show_value (v : value) : string :=
  match v with
  | VNull => "null"
  | VBool true => "true"
  | VBool false => "false"
  | VNum z => show_Z z
  | VStr s => quote s
  | VList l => "[" ++ sep_concat "," (map show_value l) ++ "]"
  | VDict d => "{" ++ sep_concat "," (map (fun kv => quote (fst kv) ++ ":" ++ show_value (snd kv)) d) ++ "}"
  end.

Definition show_vers (vs : vers) : string :=
  "{" ++ sep_concat "," (map (fun kn => quote (fst kn) ++ ":" ++ show_N (snd kn)) vs) ++ "}".

Definition show_ctx (c : ctx) : string :=
  "{""data"":" ++ show_value (VDict (cdata c)) ++ ",""vers"":" ++ show_vers (cvers c) ++ "}".

Definition show_octx (c : option ctx) : string :=
  match c with None => "null" | Some c => show_ctx c end.

Definition show_ovalue (v : option value) : string :=
  match v with None => "absent" | Some v => show_value v end.
