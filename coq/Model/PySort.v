(* CPython 3.12 list.sort() for lists shorter than 64 elements (minrun = n): count_run,
   reversal of a strictly descending run, then binary insertion sort; with an arbitrary -
   possibly inconsistent - `lt`.  mistral/engine/dispatcher.py sorts commands with
   functools.cmp_to_key(_compare_task_commands), whose comparator is not a total order
   (it answers -1 whenever the left command is not a waiting RunTask), so the result
   depends on the exact algorithm; this file reproduces it.
   Correspondence: harness/suites/C02.py (py_sort vs the real list.sort and
   _rearrange_commands on generated command lists).  No proofs. *)
From Coq Require Import List Arith Bool.
Import ListNotations.

Section PySort.
Context {A : Type} (lt : A -> A -> bool) (d : A).

(* length of the initial run: desc = compare lt(l[i], l[i-1]) *)
Fixpoint run_len (desc : bool) (prev : A) (l : list A) : nat :=
  match l with
  | [] => 0
  | x :: r => if Bool.eqb (lt x prev) desc then S (run_len desc x r) else 0
  end.

(* insert pivot into the sorted prefix `pre` by CPython's binary search *)
Fixpoint bsearch (fuel : nat) (pre : list A) (pivot : A) (l r : nat) : nat :=
  match fuel with
  | O => l
  | S f =>
    if Nat.ltb l r then
      let p := l + (r - l) / 2 in
      if lt pivot (nth p pre d) then bsearch f pre pivot l p else bsearch f pre pivot (S p) r
    else l
  end.

Definition insert_at (pre : list A) (k : nat) (x : A) : list A := firstn k pre ++ x :: skipn k pre.

Fixpoint binsort (pre rest : list A) : list A :=
  match rest with
  | [] => pre
  | x :: r => binsort (insert_at pre (bsearch (S (length pre)) pre x 0 (length pre)) x) r
  end.

Definition py_sort (l : list A) : list A :=
  match l with
  | [] => []
  | [x] => [x]
  | x :: y :: r =>
    let desc := lt y x in
    let n := 2 + run_len desc y r in
    let run := firstn n l in
    let run := if desc then rev run else run in
    binsort run (skipn n l)
  end.
End PySort.
