(* Model of the decision cores behind "a join starts only when its preconditions hold".
   Anchors (mistral/workflow/direct_workflow.py, class DirectWorkflowController):
     wf_spec.find_inbound_task_specs (lang/v2/workflows.py)   -> inbound_names
     _prepare_task_executions_cache / t_execs_cache lookups     -> lookup (last row of a name; MAX_SEARCH_DEPTH
                                                                  only bounds the PRE-population, misses are re-read)
     _possible_route                                            -> possible_route (fuel = Python recursion depth;
                                                                  `visited` threaded through), possible_route_top
     _get_induced_join_state                                    -> induced
     _get_join_logical_state                                    -> logical
     get_logical_task_state                                     -> logical_task_state
     find_indirectly_affected_task_executions                   -> affected
   Correspondence suite: harness/suites/C04.py (possible_route, induced, logical, affected) drives the REAL
   controller methods on real parsed specs with _get_task_executions served from generated rows.
   No proofs in this file. *)
From Coq Require Import List Arith Bool String.
Require Import Mistral.Gen.States.
Import ListNotations.

(* 'join: all' | 'join: N' ('join: one' is N = 1).  'join: 0' passes validation and is falsy in Python. *)
Inductive jkind := JAll | JNum (k : nat).

(* A task of a direct workflow: name, join clause, union of the targets of on-success / on-error /
   on-complete / on-skip (after task-defaults), in any order.  Targets that are not task names of the
   spec stand for engine commands (fail / succeed / pause / noop). *)
Record task := mkTask { tname : nat; tjoin : option jkind; touts : list nat }.

(* A task execution row as the controller sees it: id, name, state, next_tasks (None until completion
   logic has run; names only, the event is not modelled). *)
Record row := mkRow { rid : nat; rname : nat; rstate : state; rnext : option (list nat) }.

Inductive res (A : Type) := Ok (a : A) | OutOfFuel | Crash.
Arguments Ok {A} a.
Arguments OutOfFuel {A}.
Arguments Crash {A}.

Definition memn (x : nat) (l : list nat) : bool := existsb (Nat.eqb x) l.

Definition next_or_nil (r : row) : list nat := match rnext r with Some l => l | None => [] end.

(* {t_ex.name: t_ex for t_ex in rows}: the LAST row of a name wins *)
Fixpoint lookup (rows : list row) (n : nat) : option row :=
  match rows with
  | [] => None
  | r :: tl => match lookup tl n with
               | Some x => Some x
               | None => if Nat.eqb (rname r) n then Some r else None
               end
  end.

Definition find_task (sp : list task) (n : nat) : option task :=
  find (fun t => Nat.eqb (tname t) n) sp.

(* find_inbound_task_specs: tasks (spec order) having a transition to n *)
Definition inbound_names (sp : list task) (n : nat) : list nat :=
  map tname (filter (fun s => memn n (touts s)) sp).

(* _possible_route(task_spec, cache, depth, visited): the loop over inbound specs; `rec` is the recursive call;
   `vis` is the shared, growing `visited` set *)
Fixpoint pr_loop (rec : list nat -> nat -> nat -> res (bool * nat * list nat)) (rows : list row) (t : nat)
         (ins : list nat) (depth : nat) (vis : list nat) : res (bool * nat * list nat) :=
  match ins with
  | [] => Ok (false, depth, vis)
  | s :: tl =>
    match lookup rows s with
    | None =>
      match rec vis s (S depth) with
      | Ok (true, d, v) => Ok (true, d, v)
      | Ok (false, d, v) => pr_loop rec rows t tl d v
      | OutOfFuel => OutOfFuel
      | Crash => Crash
      end
    | Some r =>
      if negb (is_completed (rstate r)) then Ok (true, depth, vis)
      else if memn t (next_or_nil r) then Ok (true, depth, vis)       (* `t_ex.next_tasks or []` *)
      else pr_loop rec rows t tl depth vis
    end
  end.

Fixpoint possible_route (fuel : nat) (sp : list task) (rows : list row) (vis : list nat) (t : nat) (depth : nat)
  : res (bool * nat * list nat) :=
  match fuel with
  | O => OutOfFuel                               (* RecursionError *)
  | S f =>
    if memn t vis then Ok (false, depth, vis)    (* examined already *)
    else
      match inbound_names sp t with
      | [] => Ok (true, depth, t :: vis)
      | ins => pr_loop (possible_route f sp rows) rows t ins depth (t :: vis)
      end
  end.

(* a top-level call: visited=None *)
Definition possible_route_top (fuel : nat) (sp : list task) (rows : list row) (t : nat) (depth : nat)
  : res (bool * nat) :=
  match possible_route fuel sp rows [] t depth with
  | Ok (b, d, _) => Ok (b, d)
  | OutOfFuel => OutOfFuel
  | Crash => Crash
  end.

Inductive ind := IWait | IErr | IRun.

(* _get_induced_join_state(in_task_spec = s, in_task_ex = cache[s], join = j): (state, depth) *)
Definition induced (fuel : nat) (sp : list task) (rows : list row) (j s : nat) : res (ind * nat) :=
  match lookup rows s with
  | None =>
    match possible_route_top fuel sp rows s 1 with
    | Ok (true, d) => Ok (IWait, d)
    | Ok (false, d) => Ok (IErr, d)
    | OutOfFuel => OutOfFuel
    | Crash => Crash
    end
  | Some r =>
    if negb (is_completed (rstate r)) then Ok (IWait, 1)
    else if memn j (next_or_nil r) then Ok (IRun, 1) else Ok (IErr, 1)
  end.

Fixpoint induced_all (fuel : nat) (sp : list task) (rows : list row) (j : nat) (ins : list nat)
  : res (list (nat * (ind * nat))) :=
  match ins with
  | [] => Ok []
  | s :: tl =>
    match induced fuel sp rows j s with
    | Ok x => match induced_all fuel sp rows j tl with
              | Ok l => Ok ((s, x) :: l)
              | OutOfFuel => OutOfFuel
              | Crash => Crash
              end
    | OutOfFuel => OutOfFuel
    | Crash => Crash
    end
  end.

Definition ind_eqb (a b : ind) : bool :=
  match a, b with IWait, IWait | IErr, IErr | IRun, IRun => true | _, _ => false end.

Definition count_ind (x : ind) (l : list (nat * (ind * nat))) : nat :=
  List.length (filter (fun e => ind_eqb (fst (snd e)) x) l).

Definition depth_ind (x : ind) (l : list (nat * (ind * nat))) : nat :=
  fold_right (fun e acc => if ind_eqb (fst (snd e)) x then snd (snd e) + acc else acc) 0 l.

(* ids for _triggered_by(state): rows of the inbound tasks inducing `x` *)
Definition trig_ids (rows : list row) (x : ind) (l : list (nat * (ind * nat))) : list nat :=
  flat_map (fun e => if ind_eqb (fst (snd e)) x
                     then match lookup rows (fst e) with Some r => [rid r] | None => [] end
                     else []) l.

(* the decision at the end of _get_join_logical_state: (state, cardinality, triggered_by ids) *)
Definition decide (k : jkind) (rows : list row) (l : list (nat * (ind * nat))) : state * nat * list nat :=
  let total := List.length l in
  let runs := count_ind IRun l in
  let errs := count_ind IErr l in
  match k with
  | JNum n =>
    if n <=? runs then (RUNNING, 0, trig_ids rows IRun l)
    else if total <? errs + n then (ERROR, 0, [])          (* errors > total - n, over the integers *)
    else (WAITING, n - runs, [])
  | JAll =>
    if total =? runs then (RUNNING, 0, trig_ids rows IRun l)
    else if 0 <? errs then (ERROR, 0, trig_ids rows IErr l)
    else (WAITING, total - depth_ind IRun l, [])
  end.

(* _get_join_logical_state(task_spec) for the join named j with clause k *)
Definition logical (fuel : nat) (sp : list task) (rows : list row) (j : nat) (k : jkind)
  : res (state * nat * list nat) :=
  match inbound_names sp j with
  | [] => Ok (RUNNING, 0, [])
  | ins => match induced_all fuel sp rows j ins with
           | Ok l => Ok (decide k rows l)
           | OutOfFuel => OutOfFuel
           | Crash => Crash
           end
  end.

(* `if task_spec.get_join()` : None and 0 are falsy *)
Definition join_clause (t : task) : option jkind :=
  match tjoin t with
  | Some (JNum 0) => None
  | x => x
  end.

Definition is_join (t : task) : bool := match join_clause t with Some _ => true | None => false end.

(* get_logical_task_state(task_ex): the state only *)
Definition logical_task_state (fuel : nat) (sp : list task) (rows : list row) (r : row) : res state :=
  match find_task sp (rname r) with
  | None => Crash
  | Some t =>
    match join_clause t with
    | None => Ok (rstate r)
    | Some k => match logical fuel sp rows (tname t) k with
                | Ok (s, _, _) => Ok s
                | OutOfFuel => OutOfFuel
                | Crash => Crash
                end
    end
  end.

(* find_indirectly_affected_task_executions(t_name): names of the join rows found.
   work = `clauses` (a set popped in arbitrary order: the result does not depend on the order),
   visited = visited_task_names. *)
Fixpoint affected_loop (fuel : nat) (sp : list task) (rows : list row)
         (visited work res : list nat) : list nat :=
  match fuel with
  | O => res
  | S f =>
    match work with
    | [] => res
    | n :: w =>
      if memn n visited then affected_loop f sp rows visited w res
      else match find_task sp n with
           | None => affected_loop f sp rows (n :: visited) w res          (* engine command *)
           | Some t =>
             if is_join t && (match lookup rows n with Some _ => true | None => false end)
             then affected_loop f sp rows (n :: visited) w (n :: res)
             else affected_loop f sp rows (n :: visited) (touts t ++ w) res
           end
    end
  end.

Definition outs_of (sp : list task) (n : nat) : list nat :=
  match find_task sp n with Some t => touts t | None => [] end.

Definition affected_fuel (sp : list task) (n : nat) : nat :=
  S (List.length (outs_of sp n) + fold_right (fun t acc => S (List.length (touts t)) + acc) 0 sp).

Definition affected (sp : list task) (rows : list row) (n : nat) : list nat :=
  affected_loop (affected_fuel sp n) sp rows [n] (outs_of sp n) [].

(* ---- printers used by the correspondence suite ---- *)
Definition ind_name (x : ind) : string :=
  match x with IWait => "WAITING" | IErr => "ERROR" | IRun => "RUNNING" end.

Definition show_pr (r : res (bool * nat)) : string * bool * nat :=
  match r with
  | Ok (b, d) => ("ok"%string, b, d)
  | OutOfFuel => ("recursion"%string, false, 0)
  | Crash => ("crash"%string, false, 0)
  end.

Definition show_induced (r : res (ind * nat)) : string * nat :=
  match r with
  | Ok (x, d) => (ind_name x, d)
  | OutOfFuel => ("recursion"%string, 0)
  | Crash => ("crash"%string, 0)
  end.

Definition show_logical (r : res (state * nat * list nat)) : string * nat * list nat :=
  match r with
  | Ok (s, c, t) => (state_name s, c, t)
  | OutOfFuel => ("recursion"%string, 0, [])
  | Crash => ("crash"%string, 0, [])
  end.

Definition show_state (r : res state) : string :=
  match r with Ok s => state_name s | OutOfFuel => "recursion"%string | Crash => "crash"%string end.

(* typed container for one correspondence case (forces the element types of empty lists) *)
Definition direct_out (sp : list task) (rows : list row)
  (f : list task -> list row ->
       list (string * nat * list nat) * list (string * bool * nat) * list (string * nat) * list string * list (list nat))
  := f sp rows.
