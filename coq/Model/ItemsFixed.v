(* Variant of Model/Items.v for the PROPOSED FIX of finding F4 / F7 (mistral/engine/tasks.py
   WithItemsTask._get_next_indexes replaced by

        occupied = set(ex.runtime_context['index'] for ex in self.task_ex.executions
                       if ex.accepted or not states.is_completed(ex.state))
        indices = [i for i in range(count) if i not in occupied]
        return indices[:capacity]
   ).  Everything except the choice of the next indexes is Model/Items.v unchanged; the definitions that
   depend on it are repeated here with suffix _fx.
   Correspondence: harness/suites/C07.py compares `step_fx` with the real WithItemsTask methods in which
   _get_next_indexes is replaced at run time by exactly the function above (suite `fixed_variant`), and uses
   this variant instead of Items.step for the main correspondence when the source already behaves so.
   No proofs in this file. *)
From Coq Require Import List Arith Bool ZArith.
Require Import Mistral.Model.Items.
Import ListNotations.

(* an index is occupied when one of its executions is accepted or not completed *)
Definition occupied (l : list exec) (i : nat) : bool := idx_in p_started l i.

Definition all_next_fx (t : task) : list nat :=
  filter (fun i => negb (occupied (execs t) i)) (seq 0 (count t)).

Definition next_indexes_fx (t : task) : list nat := take_cap (cap t) (all_next_fx t).

Definition schedule_body_fx (t1 : task) : task :=
  match next_indexes_fx t1 with
  | [] => complete TSuccess t1
  | l => set_cap (dec_cap (cap t1) (length l)) (set_execs (execs t1 ++ map new_exec l) t1)
  end.

Definition schedule_fx (t : task) : task := schedule_body_fx (prepare t).

Definition on_action_complete_fx (t : task) : task :=
  if t_completed (tst t) then t
  else
    let t1 := increase_capacity t in
    if items_completed t1 then complete (final_state (execs t1)) t1
    else if has_more t1 && (match conc t1 with Some _ => true | None => false end) then schedule_fx t1
    else t1.

Definition step_fx (t : task) (e : event) : task :=
  match e with
  | Start n c =>
    match tst t with
    | TIdle => schedule_fx (mkTask (execs t) n (policy_conc c) (prepared t) (cap t) (count t) TRunning (jobs t))
    | _ => t
    end
  | Accept i o v => accept i o v t
  | Handle i =>
    if mem i (jobs t) then on_action_complete_fx (set_jobs (remove_first i (jobs t)) t) else t
  | RetryInvalidate =>
    match tst t with
    | TSuccess | TError => set_tst TDelayed (set_execs (invalidate (execs t)) t)
    | _ => t
    end
  | Continue =>
    match tst t with
    | TDelayed => schedule_fx (set_execs (reset_actions false (execs t)) (set_tst TRunning t))
    | _ => t
    end
  | Rerun flag =>
    match tst t with
    | TError => schedule_fx (set_execs (reset_actions flag (execs t)) (set_tst TRunning (cleanup t)))
    | _ => t
    end
  end.

Definition run_fx (evs : list event) : task := fold_left step_fx evs init.

Definition view_fx (t : task) : list Z :=
  [ztst (tst t); zo (conc t); zb (prepared t); zo (cap t); Z.of_nat (count t)]
  ++ zlist (flat_map (fun e => [Z.of_nat (idx e); zest (st e); zb (acc e); out e]) (execs t))
  ++ zlist (map Z.of_nat (jobs t))
  ++ zlist (map Z.of_nat (next_indexes_fx t))
  ++ [zb (items_completed t); ztst (final_state (execs t)); zb (has_more t)]
  ++ zlist (result (execs t)).

Fixpoint views_fx (t : task) (evs : list event) : list (list Z) :=
  match evs with
  | [] => []
  | e :: r => let t' := step_fx t e in view_fx t' :: views_fx t' r
  end.

Fixpoint first_diff_fx (k : Z) (t : task) (evs : list event) (expected : list Z) : Z :=
  match evs, expected with
  | e :: r, x :: xs => let t' := step_fx t e in if Z.eqb (vhash (view_fx t')) x then first_diff_fx (k + 1) t' r xs else k
  | [], [] => (-1)%Z
  | _, _ => k
  end.
