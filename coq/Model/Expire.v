(* Model of the execution expiration policy.
   Anchors (what each definition mirrors)                                   checked by suite (harness/suites/C18.py)
     mistral/services/expiration_policy.py:
       ExecutionExpirationPolicy.__init__ (task registered or not)  -> enabled          [gating]
       _check_ignored_states_config                                -> ignored_ok       [gating]
       run_execution_expiration_policy                             -> evaluate         [evaluate]
       _delete_executions / _delete_until_depleted / _delete       -> deplete, delete_all   [evaluate]
     mistral/db/v2/sqlalchemy/api.py:
       _get_completed_root_executions_query                        -> completed_root   [queries]
       get_expired_executions(expiration_time, limit)              -> expired_q        [queries]
       get_superfluous_executions(max_finished_executions, limit)  -> superfluous_q    [queries]
       delete_workflow_execution(id) as admin                      -> cascade_delete pop [id]   [cascade]
     mistral/db/v2/sqlalchemy/models.py: ForeignKey(..., ondelete='CASCADE') of
       TaskExecution.workflow_execution_id, WorkflowExecution.task_execution_id,
       ActionExecution.task_execution_id                           -> under / cascade_delete    [cascade]
     mistral/workflow/states.py: TERMINAL_STATES                   -> Gen.States.c_TERMINAL_STATES (translated)
     mistral/config.py: IntOpt older_than (no default), max_finished_executions (0), batch_size (0),
       ListOpt ignored_states                                      -> config (unset = None)

   A population is the flat row table of the three execution tables.  Row ids are global
   creation sequence numbers (a parent row is created before its children, which the
   foreign keys enforce), `rparent` is the single CASCADE foreign key of the row
   (task_execution_id for workflow and action executions, workflow_execution_id for tasks).
   Times are seconds (utc_now_sec granularity); `rupd = None` is a NULL updated_at.
   SQL semantics mirrored as sqlite executes them: NULL < t is not true; ORDER BY .. DESC
   puts NULL last; negative OFFSET = 0; negative LIMIT = no limit; ties of the ORDER BY
   are kept in table (creation) order (stable sort) - the suite compares modulo this tie-break.
   No proofs in this file. *)
From Coq Require Import List ZArith Bool String Arith.
Require Import Mistral.Gen.States.
Import ListNotations.
Open Scope Z_scope.

Inductive kind := KWf | KTask | KAct.

Record row := mkRow {
  rid : nat;                 (* global creation sequence number *)
  rkind : kind;
  rparent : option nat;      (* the CASCADE foreign key *)
  rstate : state;
  rupd : option Z;           (* updated_at, seconds; None = NULL *)
  rproj : nat                (* project_id: the policy's queries are not project scoped *)
}.

Record config := mkCfg {
  older_than : option Z;     (* minutes; None = unset *)
  max_finished : option Z;
  batch_size : option Z;
  ignored : list state
}.

Definition memn (n : nat) (l : list nat) : bool := existsb (Nat.eqb n) l.

Definition find_row (p : nat) (pop : list row) : option row :=
  find (fun y => Nat.eqb (rid y) p) pop.

(* ---- cascade delete --------------------------------------------------------- *)

(* x is one of the rows D or has an ancestor among them (following the CASCADE
   foreign key upwards inside the current table). fuel: ids decrease upwards. *)
Fixpoint under (fuel : nat) (pop : list row) (D : list nat) (x : row) : bool :=
  memn (rid x) D ||
  match fuel with
  | O => false
  | S f => match rparent x with
           | None => false
           | Some p => match find_row p pop with
                       | None => false
                       | Some px => under f pop D px
                       end
           end
  end.

(* DELETE of the rows D with ON DELETE CASCADE *)
Definition cascade_delete (pop : list row) (D : list nat) : list row :=
  filter (fun x => negb (under (rid x) pop D x)) pop.

(* _delete(executions): one delete_workflow_execution per fetched row *)
Definition delete_all (b : list row) (pop : list row) : list row :=
  fold_left (fun p r => cascade_delete p [rid r]) b pop.

(* ---- queries ---------------------------------------------------------------- *)

(* Python truthiness of an optional int option: None and 0 are false *)
Definition truthy (o : option Z) : option Z :=
  match o with Some z => if z =? 0 then None else Some z | None => None end.

(* `if limit: query = query.limit(limit)` *)
Definition sql_limit (lim : option Z) (l : list row) : list row :=
  match truthy lim with
  | None => l
  | Some z => if z <? 0 then l else firstn (Z.to_nat z) l
  end.

(* TERMINAL_STATES - set(ignored_states) *)
Definition desired (c : config) : list state :=
  filter (fun s => negb (mem s (ignored c))) c_TERMINAL_STATES.

(* _get_completed_root_executions_query: workflow executions, task_execution_id IS NULL, state IN desired *)
Definition completed_root (c : config) (x : row) : bool :=
  match rkind x, rparent x with
  | KWf, None => mem (rstate x) (desired c)
  | _, _ => false
  end.

Definition older (exp : Z) (x : row) : bool :=
  match rupd x with Some u => u <? exp | None => false end.

Definition expired (c : config) (exp : Z) (x : row) : bool := completed_root c x && older exp x.

Definition expired_q (c : config) (exp : Z) (lim : option Z) (pop : list row) : list row :=
  sql_limit lim (filter (expired c exp) pop).

(* ORDER BY updated_at DESC: a >= b with NULL lowest *)
Definition key_ge (a b : option Z) : bool :=
  match a, b with
  | _, None => true
  | None, Some _ => false
  | Some x, Some y => y <=? x
  end.

Fixpoint insert_desc (x : row) (l : list row) : list row :=
  match l with
  | [] => [x]
  | y :: t => if key_ge (rupd x) (rupd y) then x :: y :: t else y :: insert_desc x t
  end.

Fixpoint sort_desc (l : list row) : list row :=
  match l with
  | [] => []
  | x :: t => insert_desc x (sort_desc t)
  end.

Definition superfluous_q (c : config) (mfe lim : option Z) (pop : list row) : list row :=
  match truthy mfe with
  | None => []
  | Some m => sql_limit lim (skipn (Z.to_nat m) (sort_desc (filter (completed_root c) pop)))
  end.

(* ---- the evaluation ----------------------------------------------------------- *)

(* _delete_until_depleted: fetch, stop when empty, else delete the batch and repeat.
   The bool says the loop ended by itself (fuel not exhausted). *)
Fixpoint deplete (fuel : nat) (fetch : list row -> list row) (pop : list row) : list row * bool :=
  match fuel with
  | O => (pop, false)
  | S f => match fetch pop with
           | [] => (pop, true)
           | x :: t => deplete f fetch (delete_all (x :: t) pop)
           end
  end.

Inductive outcome :=
  | Done (pop : list row)          (* returned normally *)
  | Crash (pop : list row)         (* TypeError from timedelta(minutes=None), before any query *)
  | OutOfFuel (pop : list row).    (* never happens: theorem C18_terminates *)

Definition evaluate (now : Z) (c : config) (pop : list row) : outcome :=
  match older_than c with
  | None => Crash pop
  | Some ot =>
      let exp := now - 60 * ot in
      let '(p1, ok1) := deplete (S (List.length pop)) (expired_q c exp (batch_size c)) pop in
      let '(p2, ok2) := deplete (S (List.length p1)) (superfluous_q c (max_finished c) (batch_size c)) p1 in
      if ok1 && ok2 then Done p2 else OutOfFuel p2
  end.

(* ---- gating ------------------------------------------------------------------- *)

(* `x and x >= 1` *)
Definition ge1 (o : option Z) : bool :=
  match truthy o with Some z => 1 <=? z | None => false end.

(* ExecutionExpirationPolicy.__init__ registers the periodic task *)
Definition enabled (interval : option Z) (c : config) : bool :=
  match truthy interval with
  | None => false
  | Some i => (0 <? i) && (ge1 (older_than c) || ge1 (max_finished c))  (* oslo.service skips a negative spacing *)
  end.

(* _check_ignored_states_config does not raise *)
Definition ignored_ok (c : config) : bool :=
  forallb (fun s => mem s c_TERMINAL_STATES) (ignored c).

(* one period of the deployed service *)
Definition tick (interval : option Z) (now : Z) (c : config) (pop : list row) : outcome :=
  if enabled interval c then evaluate now c pop else Done pop.

(* ---- printing for the correspondence suite ------------------------------------ *)

Definition ids (l : list row) : list nat := map rid l.

Definition show (o : outcome) : string * list nat :=
  match o with
  | Done p => ("done", ids p)
  | Crash p => ("crash", ids p)
  | OutOfFuel p => ("fuel", ids p)
  end%string.
