(* Life cycle of ONE join execution under the events that touch it.
   Anchors:
     mistral/engine/tasks.py:Task.defer            -> on_trigger (create WAITING / keep / re-arm a completed execution)
     mistral/engine/task_handler.py:_refresh_task_state + direct_workflow._get_join_logical_state (cardinality test only)
                                                   -> on_refresh (WAITING and >= k routed: start)
     mistral/engine/tasks.py:Task.complete          -> on_complete
   `rearm` says whether a trigger arriving after the join execution completed puts it back to WAITING
   (Gen/Locks.v: defer_rearm_acyclic / defer_rearm_cyclic / defer_rearm_unstarted, extracted from Task.defer);
   `rearm_unstarted`: the same for a join that failed without ever starting.
   Correspondence suite: harness/suites/C04.py (defer_decision: the REAL Task.defer on an existing row of every state;
   engine oracle: number of action executions of a join in real runs).
   No proofs in this file. *)
From Coq Require Import List Arith Bool.
Import ListNotations.

(* JFailed: completed (ERROR) by the logical state without ever having started; JDone: completed after it ran *)
Inductive jstate := JAbsent | JWaiting | JRunning | JDone | JFailed.

Inductive jevent :=
| Trigger      (* an inbound task completed and routed to the join: RunTask command -> Task.defer *)
| Refresh      (* the scheduled _refresh_task_state job runs *)
| Complete     (* the join's own action completed *)
| Fail.        (* the refresh job evaluated the logical state ERROR: the join completes without starting *)

Record jlife := mkLife { js : jstate; routed_n : nat; starts : nat }.

Definition life0 : jlife := mkLife JAbsent 0 0.

(* what Task.defer does to an existing execution *)
Definition on_trigger (rearm rearm_unstarted : bool) (s : jstate) : jstate :=
  match s with
  | JAbsent => JWaiting
  | JWaiting => JWaiting
  | JRunning => JRunning
  | JDone => if rearm then JWaiting else JDone
  | JFailed => if rearm_unstarted then JWaiting else JFailed
  end.

Definition life_step (rearm ru : bool) (k : nat) (l : jlife) (e : jevent) : jlife :=
  match e with
  | Trigger => mkLife (on_trigger rearm ru (js l)) (S (routed_n l)) (starts l)
  | Refresh =>
    match js l with
    | JWaiting => if k <=? routed_n l then mkLife JRunning (routed_n l) (S (starts l)) else l
    | _ => l
    end
  | Complete =>
    match js l with
    | JRunning => mkLife JDone (routed_n l) (starts l)
    | _ => l
    end
  | Fail =>
    match js l with
    | JWaiting => mkLife JFailed (routed_n l) (starts l)
    | _ => l
    end
  end.

Definition life_run (rearm ru : bool) (k : nat) (evs : list jevent) : jlife :=
  fold_left (life_step rearm ru k) evs life0.

Definition jstate_code (s : jstate) : nat :=
  match s with JAbsent => 0 | JWaiting => 1 | JRunning => 2 | JDone => 3 | JFailed => 4 end.
