(* Model of the REST layer's authorisation / guard structure (property C16).
   Anchors
     mistral/api/controllers/**  every exposed controller method
        -> `method` rows of Gen/ApiTable.v (extracted by translate/tr_apitable.py);
           `run` below is the meaning given to a row's ordered effect list
           (acl.enforce / conditional acl.enforce / guards / first data access)
     mistral/policies/*.py list_rules()                       -> `rule` rows of Gen/ApiTable.v
     mistral/api/access_control.py:enforce (raises NotAllowedException, http 403) -> `Enforce` case of `run`;
        its decision (oslo_policy Enforcer.authorize on the loaded rules)   -> enforce_allows / authorize / eval
        (suites policy_eval, callers)
     mistral/utils/rest_utils.py:wrap_wsme/pecan_controller_exception (http_code of the raised
        Mistral exception becomes the status)                 -> the status component of `run`
     mistral/api/controllers/v2/execution.py:ExecutionsController.put      -> exec_put
     mistral/api/controllers/v2/execution.py:ExecutionsController.delete   -> exec_delete
     mistral/api/controllers/v2/task.py:TasksController.put                -> task_put
     mistral/api/controllers/v2/action_execution.py:ActionExecutionsController.put    -> action_put
     mistral/api/controllers/v2/action_execution.py:ActionExecutionsController.delete -> action_delete
   Correspondence suite: harness/suites/C16.py (suites handle, trace, exec_put, task_put,
   action_put, exec_delete, action_delete) through the real WSGI application.
   No proofs in this file. *)
From Coq Require Import List Bool String Ascii PeanoNat.
Require Import Mistral.Gen.States.
Import ListNotations.
Open Scope string_scope.

(* ------------------------------------------------------------------ *)
(* 1. The table vocabulary                                             *)

Inductive verb := GET | POST | PUT | DELETE | ROUTE.

Definition verb_eqb (a b : verb) : bool :=
  match a, b with
  | GET, GET | POST, POST | PUT, PUT | DELETE, DELETE | ROUTE, ROUTE => true
  | _, _ => false
  end.

(* check string of a registered rule *)
Inductive rkind := AdminOnly | AdminOrOwner | BaseRule | OtherCheck.

Definition rkind_eqb (a b : rkind) : bool :=
  match a, b with
  | AdminOnly, AdminOnly | AdminOrOwner, AdminOrOwner | BaseRule, BaseRule | OtherCheck, OtherCheck => true
  | _, _ => false
  end.

(* a documented operation of a rule: HTTP verb and path segments, "{}" = a path parameter *)
Record op := mkOp { op_verb : verb; op_path : list string }.

Record rule := mkRule { r_name : string; r_kind : rkind; r_ops : list op }.

(* request-dependent condition under which an additional rule is enforced *)
Inductive cond := CAllProjects | CAllProjectsOrProjectId | CScopePublic.

Definition cond_eqb (a b : cond) : bool :=
  match a, b with
  | CAllProjects, CAllProjects | CAllProjectsOrProjectId, CAllProjectsOrProjectId
  | CScopePublic, CScopePublic => true
  | _, _ => false
  end.

Inductive dkind := Db | Rpc | Call.

(* One abstract effect per top-level statement of a controller method, in source
   order, up to and including the first statement that may read or change data. *)
Inductive effect :=
  | Log                                     (* LOG.x(...) *)
  | Pure                                    (* computation on the request only *)
  | PreGuard (name : string) (code : nat)   (* decorator around the exposed function that may refuse *)
  | Guard (code : nat)                      (* if <request-only test>: raise <exception with http code> *)
  | Enforce (r : string)                    (* acl.enforce(r, ctx) *)
  | CondEnforce (r : string) (c : cond)     (* if c: acl.enforce(r, ctx) *)
  | CtxClear                                (* context.set_ctx(None) *)
  | Data (k : dkind) (what : string).       (* first access to the database / engine / unknown callee *)

Inductive wrap := WrapWsme | WrapPecan | NoWrap.

Record method := mkMethod {
  m_cls : string;                  (* controller class *)
  m_name : string;                 (* method name: get, get_all, post, put, delete, index, _lookup *)
  m_verb : verb;
  m_mounts : list (list string);   (* URL templates at which the controller tree mounts the class *)
  m_wrap : wrap;
  m_effects : list effect;
  m_late : list string;            (* rules enforced only after the first data access *)
  m_all_projects : bool;           (* signature has an all_projects parameter *)
  m_takes_scope : bool             (* reads a scope from the request (parameter, query or body attribute) *)
}.

(* ------------------------------------------------------------------ *)
(* 2. Meaning of an effect list                                        *)

(* What the caller and the request decide: which rules the policy denies, which
   request conditions hold, which guards fire (by position). *)
Record env := mkEnv {
  deny : string -> bool;
  holds : cond -> bool;
  fires : nat -> bool
}.

(* `run effs e i body db`: status and database after the method ran on database
   `db`; `body` is everything from the first data access on (arbitrary). *)
Fixpoint run {DB : Type} (effs : list effect) (e : env) (i : nat)
         (body : DB -> nat * DB) (db : DB) : nat * DB :=
  match effs with
  | [] => body db
  | Log :: r | Pure :: r | CtxClear :: r => run r e (S i) body db
  | PreGuard _ code :: r | Guard code :: r =>
      if fires e i then (code, db) else run r e (S i) body db
  | Enforce rl :: r => if deny e rl then (403, db) else run r e (S i) body db
  | CondEnforce rl c :: r =>
      if holds e c && deny e rl then (403, db) else run r e (S i) body db
  | Data _ _ :: _ => body db
  end.

Definition handle {DB : Type} (m : method) (e : env) (body : DB -> nat * DB) (db : DB) : nat * DB :=
  run (m_effects m) e 0 body db.

(* ------------------------------------------------------------------ *)
(* 3. Checks on a table row (booleans, evaluated on the generated table) *)

Definition is_silent (x : effect) : bool :=
  match x with Log | Pure => true | _ => false end.

(* effects that never read or change data and never let a request through unchecked *)
Definition is_harmless (x : effect) : bool :=
  match x with Log | Pure | Guard _ | PreGuard _ _ | CondEnforce _ _ | Enforce _ => true | _ => false end.

(* the rule of the first acl.enforce, provided only Log/Pure/PreGuard precede it *)
Fixpoint first_enforce (effs : list effect) : option string :=
  match effs with
  | Enforce r :: _ => Some r
  | Log :: t | Pure :: t | PreGuard _ _ :: t => first_enforce t
  | _ => None
  end.

(* same, but nothing except Log/Pure may precede it *)
Fixpoint strict_first_enforce (effs : list effect) : option string :=
  match effs with
  | Enforce r :: _ => Some r
  | Log :: t | Pure :: t => strict_first_enforce t
  | _ => None
  end.

(* `CondEnforce r c` occurs before any data access / context reset *)
Fixpoint cond_before_data (r : string) (c : cond) (effs : list effect) : bool :=
  match effs with
  | [] => false
  | CondEnforce r' c' :: t => (String.eqb r r' && cond_eqb c c') || cond_before_data r c t
  | Data _ _ :: _ | CtxClear :: _ => false
  | _ :: t => cond_before_data r c t
  end.

(* all conditional enforcements present before the first data access *)
Fixpoint conds_before_data (effs : list effect) : list (string * cond) :=
  match effs with
  | [] => []
  | CondEnforce r c :: t => (r, c) :: conds_before_data t
  | Data _ _ :: _ | CtxClear :: _ => []
  | _ :: t => conds_before_data t
  end.

Definition has_preguard (effs : list effect) : bool :=
  existsb (fun x => match x with PreGuard _ _ => true | _ => false end) effs.

Definition find_rule (rules : list rule) (n : string) : option rule :=
  find (fun r => String.eqb (r_name r) n) rules.

Definition rule_kind (rules : list rule) (n : string) : option rkind :=
  option_map r_kind (find_rule rules n).

(* --- "documented rule of a method" ---------------------------------- *)

Fixpoint last_literal (p : list string) (acc : string) : string :=
  match p with
  | [] => acc
  | s :: t => last_literal t (if String.eqb s "{}" then acc else s)
  end.

(* Sub-resources of an execution that the registry documents under the
   executions rules (explicit, reviewed list). *)
Definition segment_resource (s : string) : string :=
  if String.eqb s "workflow_executions" then "executions"
  else if String.eqb s "report" then "executions"
  else s.

Definition has_param (p : list string) : bool := existsb (String.eqb "{}") p.

(* second segment of a documented path "/v2/<resource>[/{}]" *)
Definition op_resource (o : op) : string :=
  match op_path o with _ :: r :: _ => r | _ => "" end.

(* the operation `o` documents method `m` mounted at `mount` *)
Definition op_matches (m : method) (mount : list string) (o : op) : bool :=
  verb_eqb (op_verb o) (m_verb m) &&
  String.eqb (op_resource o) (segment_resource (last_literal mount "")) &&
  match m_verb m with
  | GET => Bool.eqb (has_param (op_path o)) (String.eqb (m_name m) "get")
  | _ => true
  end.

(* rule `r` is registered and one of its documented operations is this method, at every mount *)
Definition documented (rules : list rule) (m : method) (r : string) : bool :=
  match find_rule rules r with
  | None => false
  | Some rl => negb (match m_mounts m with [] => true | _ => false end) &&
               forallb (fun mount => existsb (op_matches m mount) (r_ops rl)) (m_mounts m)
  end.

(* the text after the last ':' / before the first ':' of a rule name *)
Fixpoint split_colon (s acc : string) : list string :=
  match s with
  | EmptyString => [acc]
  | String c t => if Ascii.eqb c ":"%char then acc :: split_colon t "" else split_colon t (acc ++ String c "")
  end.

Definition rule_parts (n : string) : list string := split_colon n "".

Definition rule_resource (n : string) : string := hd "" (rule_parts n).
Definition rule_action (n : string) : string :=
  match rule_parts n with _ :: t => String.concat ":" t | [] => "" end.

(* verbs a rule's action may be documented for *)
Definition action_verbs (a : string) : list verb :=
  if String.eqb a "create" then [POST]
  else if String.eqb a "update" then [PUT]
  else if String.eqb a "delete" then [DELETE]
  else if String.eqb a "get" then [GET]
  else if String.eqb a "list" then [GET]
  else if String.eqb a "list:all_projects" then [GET]
  else if String.eqb a "publicize" then [POST; PUT]
  else [].

(* action name the REST naming convention gives a controller method *)
Definition method_action (n : string) : string :=
  if String.eqb n "get" then "get"
  else if String.eqb n "get_all" then "list"
  else if String.eqb n "post" then "create"
  else if String.eqb n "put" then "update"
  else if String.eqb n "delete" then "delete"
  else "".

(* registry row is self-consistent: every documented operation is on the rule's own
   resource, with a verb fitting the rule's action; base rules document nothing *)
Definition rule_wellformed (r : rule) : bool :=
  match r_kind r with
  | BaseRule => match r_ops r with [] => true | _ => false end
  | OtherCheck => false
  | _ =>
      negb (match r_ops r with [] => true | _ => false end) &&
      forallb (fun o => String.eqb (op_resource o) (rule_resource (r_name r)) &&
                        existsb (verb_eqb (op_verb o)) (action_verbs (rule_action (r_name r)))) (r_ops r)
  end.

(* --- per-method checks ---------------------------------------------- *)

Definition unguarded (m : method) : bool :=
  match first_enforce (m_effects m) with None => true | Some _ => false end.

(* the main check: the first enforce is the method's documented rule and carries the
   action name of the method; nothing but Log/Pure/PreGuard precedes it; no enforce
   is left until after the first data access *)
Definition enforce_first_ok (rules : list rule) (m : method) : bool :=
  match first_enforce (m_effects m) with
  | None => false
  | Some r => documented rules m r &&
              String.eqb (rule_action r) (method_action (m_name m)) &&
              match m_late m with [] => true | _ => false end
  end.

(* listing across projects: a get_all with an all_projects parameter enforces an
   admin-only `<resource>:list:all_projects` rule under that condition before any
   data access, or its own list rule is already admin-only *)
Definition is_all_projects_cond (c : cond) : bool :=
  match c with CAllProjects | CAllProjectsOrProjectId => true | _ => false end.

Definition all_projects_ok (rules : list rule) (m : method) : bool :=
  if negb (m_all_projects m) then true else
  match first_enforce (m_effects m) with
  | None => false
  | Some r =>
      let ap := (rule_resource r ++ ":list:all_projects")%string in
      (existsb (fun rc => String.eqb (fst rc) ap && is_all_projects_cond (snd rc))
               (conds_before_data (m_effects m))
       && match rule_kind rules ap with Some AdminOnly => true | _ => false end)
      || match rule_kind rules r with Some AdminOnly => true | _ => false end
  end.

(* making a resource public: a POST/PUT that reads a scope from the request enforces the
   admin-only `<resource>:publicize` rule when scope = public, before any data access *)
Definition publicize_ok (rules : list rule) (m : method) : bool :=
  if negb (m_takes_scope m && (verb_eqb (m_verb m) POST || verb_eqb (m_verb m) PUT)) then true else
  match first_enforce (m_effects m) with
  | None => false
  | Some r =>
      let pr := (rule_resource r ++ ":publicize")%string in
      cond_before_data pr CScopePublic (m_effects m) &&
      match rule_kind rules pr with Some AdminOnly => true | _ => false end
  end.

(* every conditional enforcement names a registered rule documented for this method *)
Definition conds_documented (rules : list rule) (m : method) : bool :=
  forallb (fun rc => documented rules m (fst rc)) (conds_before_data (m_effects m)).

(* registry-driven direction: every documented operation of a conditional rule
   (publicize / list:all_projects) is implemented by a method that enforces it *)
Definition cond_of_action (a : string) : option (cond -> bool) :=
  if String.eqb a "publicize" then Some (fun c => cond_eqb c CScopePublic)
  else if String.eqb a "list:all_projects" then Some is_all_projects_cond
  else None.

Definition op_implemented (methods : list method) (r : rule) (o : op) : bool :=
  match cond_of_action (rule_action (r_name r)) with
  | None => true
  | Some okc =>
      existsb (fun m => existsb (fun mount => op_matches m mount o) (m_mounts m) &&
                        existsb (fun rc => String.eqb (fst rc) (r_name r) && okc (snd rc))
                                (conds_before_data (m_effects m))) methods
  end.

Definition rule_implemented (methods : list method) (r : rule) : bool :=
  forallb (op_implemented methods r) (r_ops r).

(* rules of the registry that no controller method enforces (first or conditionally) *)
Definition enforced_rules (methods : list method) : list string :=
  flat_map (fun m => app (match first_enforce (m_effects m) with Some r => [r] | None => [] end)
                         (map fst (conds_before_data (m_effects m)))) methods.

Definition unused_rules (rules : list rule) (methods : list method) : list string :=
  map r_name (filter (fun r => negb (rkind_eqb (r_kind r) BaseRule) &&
                               negb (existsb (String.eqb (r_name r)) (enforced_rules methods))) rules).

Definition method_id (m : method) : string := (m_cls m ++ "." ++ m_name m)%string.

(* The exposed methods that enforce nothing, as accepted by DESIGN.md section 6 C16:
   version documents, the info file, definition validation (parse only), sub-controller
   routing, and the maintenance switch (observation: it changes the cluster mode and no
   rule is documented for it). *)
Definition unguarded_allowlist : list string :=
  [ "RootController.index";
    "InfoController.get";
    "MaintenanceController.get";
    "MaintenanceController.put";
    "Controller.index";
    "SpecValidationController.post";
    "WorkflowsController._lookup" ].

(* methods whose refusal can come from a decorator before the policy check *)
Definition preguarded_allowlist : list string :=
  [ "MembersController.get"; "MembersController.get_all"; "MembersController.post";
    "MembersController.put"; "MembersController.delete" ].

(* registry rules without a controller at this commit *)
Definition unused_rules_allowlist : list string := [ "services:list" ].

(* ------------------------------------------------------------------ *)
(* 4. Decision functions of the state-changing requests                 *)

(* a state name as sent by a client: the constants of states.py, anything else is Invalid *)
Definition parse_state (s : string) : state :=
  match find (fun c => String.eqb (state_name c) s) all_constants with
  | Some c => c
  | None => Invalid
  end.

Inductive engine_call :=
  | PauseWf
  | ResumeWf (with_env : bool)
  | StopWf (s : state)
  | Rerun (reset : bool) (skip : bool)       (* reset=false is `None` in the code *)
  | ActionComplete (kind : string)           (* "data" | "error" | "cancel" *)
  | ActionUpdate (s : state)
  | NoCall.

Record outcome := mkOut {
  o_status : nat;                (* 200 / 204 / 400 / 403 / 404 *)
  o_call : engine_call;          (* engine RPC issued *)
  o_upd_desc : bool;             (* description written by the controller *)
  o_upd_env : bool;              (* env written by the controller *)
  o_deleted : bool               (* row deleted by the controller *)
}.

Definition reject (code : nat) : outcome := mkOut code NoCall false false false.
Definition accept (c : engine_call) : outcome := mkOut 200 c false false false.

(* ExecutionsController.put: requested state as text ("" = unset/empty: falsy),
   description / env present and non-empty, resource present, current state of the row.
   An env-only update goes through services/workflows.py:update_workflow_execution_env,
   which refuses (NotAllowedException, 403, transaction rolled back) unless the execution
   is IDLE, PAUSED or ERROR. *)
Definition env_updatable (cur : state) : bool := mem cur [IDLE; PAUSED; ERROR].

Definition exec_put (present : bool) (cur : state) (st : string) (desc env : bool) : outcome :=
  let has_st := negb (String.eqb st "") in
  if negb present then reject 404
  else if negb (has_st || desc || env) then reject 400
  else if desc && has_st then reject 400
  else if env && has_st && negb (state_eqb (parse_state st) RUNNING) then reject 400
  else if negb has_st then
    if env && negb (env_updatable cur) then reject 403 else mkOut 200 NoCall desc env false
  else
    let s := parse_state st in
    if is_paused s then accept PauseWf
    else if state_eqb s RUNNING then accept (ResumeWf env)
    else if is_completed s then accept (StopWf s)
    else reject 400.

(* ExecutionsController.delete. `force` is the text of the query parameter (None = absent).
   How the text becomes a boolean is read from the source by the extractor
   (Gen/ApiTable.v: exec_delete_force_conv):
     ConvPyBool    the parameter is declared `bool` to wsme, whose conversion is Python's
                   bool(text): every non-empty text - "false", "0", "no" included - means True;
     ConvStrutils  the parameter is text and the method parses it with
                   oslo_utils.strutils.bool_from_string (1/t/true/on/y/yes, any case -> True). *)
Inductive force_conv := ConvPyBool | ConvStrutils.

(* what a client means by the text (oslo strutils.bool_from_string truth values; the usual spellings) *)
Definition intended_force (force : option string) : bool :=
  match force with
  | Some s => existsb (String.eqb s) ["1"; "t"; "true"; "on"; "y"; "yes"; "True"; "TRUE"; "T"; "Y"; "YES"; "ON"; "Yes"; "On"]
  | None => false
  end.

Definition forced (cv : force_conv) (force : option string) : bool :=
  match cv with
  | ConvPyBool => match force with Some s => negb (String.eqb s "") | None => false end
  | ConvStrutils => intended_force force
  end.

Definition exec_delete (cv : force_conv) (present : bool) (force : option string) (cur : state) : outcome :=
  if negb present then reject 404
  else if negb (forced cv force) && negb (is_completed cur) then reject 403
  else mkOut 204 NoCall false false true.

(* TasksController.put. reset: None = field absent (Unset), Some b = given.
   name_ok / wf_name_ok: the optional name fields are absent or match. *)
Definition task_put (present name_ok wf_name_ok : bool) (st : string) (cur : state)
           (reset : option bool) (with_items : bool) : outcome :=
  let s := parse_state st in
  let reset_v := match reset with Some true => true | _ => false end in
  if negb present then reject 404
  else if negb name_ok then reject 400
  else if negb wf_name_ok then reject 400
  else if negb (state_eqb s RUNNING || state_eqb s SKIPPED) then reject 400
  else if negb (state_eqb cur ERROR) then reject 400
  else if state_eqb s RUNNING && match reset with None => true | _ => false end then reject 400
  else if state_eqb s RUNNING && negb with_items && negb reset_v then reject 400
  else accept (Rerun reset_v (state_eqb s SKIPPED)).

(* ActionExecutionsController.put; `supported` is SUPPORTED_TRANSITION_STATES (Gen/ApiTable.v) *)
Definition action_put (supported : list state) (st : string) : outcome :=
  let s := parse_state st in
  if negb (mem s supported) then reject 400
  else if is_completed s then
    accept (ActionComplete (if state_eqb s SUCCESS then "data"
                            else if state_eqb s ERROR then "error"
                            else if state_eqb s CANCELLED then "cancel" else "?"))
  else if state_eqb s PAUSED || state_eqb s RUNNING then accept (ActionUpdate s)
  else mkOut 500 NoCall false false false.

(* ActionExecutionsController.delete *)
Definition action_delete (allowed_by_config present adhoc : bool) (cur : state) : outcome :=
  if negb allowed_by_config then reject 403
  else if negb present then reject 404
  else if negb adhoc then reject 403
  else if negb (is_completed cur) then reject 403
  else mkOut 204 NoCall false false true.

(* printers for the correspondence *)
Definition call_name (c : engine_call) : string :=
  match c with
  | PauseWf => "pause_workflow"
  | ResumeWf e => if e then "resume_workflow+env" else "resume_workflow"
  | StopWf s => "stop_workflow:" ++ state_name s
  | Rerun r k => "rerun_workflow:" ++ (if r then "reset" else "noreset") ++ (if k then ":skip" else ":run")
  | ActionComplete k => "on_action_complete:" ++ k
  | ActionUpdate s => "on_action_update:" ++ state_name s
  | NoCall => "-"
  end.

Definition show_outcome (o : outcome) : nat * string * (bool * bool * bool) :=
  (o_status o, call_name (o_call o), (o_upd_desc o, o_upd_env o, o_deleted o)).

(* ------------------------------------------------------------------ *)
(* 5. The policy decision behind acl.enforce                            *)
(* mistral/api/access_control.py:enforce delegates to oslo.policy
   Enforcer.authorize(rule, target, creds) with
     target = {project_id: <caller's project>, user_id: <caller's user>}
     creds  = context.to_policy_values() + {is_admin: context.is_admin}
   (shape extracted by translate/tr_apitable.py, which fails closed on anything else, in
   particular on a return before the enforcer call).  The decision is a function of the rule
   expression assigned to the rule in the loaded policy, the caller and the target - there is
   no case for administrators other than what the rule expressions say.
   oslo_policy/_checks.py: TrueCheck "@", FalseCheck "!", RoleCheck "role:x" (case-insensitive),
   RuleCheck "rule:x" (unknown name: False), GenericCheck "key:value" on the creds keys is_admin /
   project_id / user_id with a literal or %(project_id)s / %(user_id)s, and / or / not.
   Correspondence: suites policy_eval (real acl.enforce) and callers (WSGI app) of C16.py. *)

Inductive ckey := KIsAdmin | KProject | KUser.
Inductive cmatch := MLit (s : string) | MTargetProject | MTargetUser.

Inductive check :=
  | CTrue | CFalse
  | CRole (r : string)
  | CRule (n : string)
  | CCred (k : ckey) (m : cmatch)
  | CAnd (a b : check) | COr (a b : check) | CNot (a : check).

Record caller := mkCaller { c_is_admin : bool; c_roles : list string; c_project : string; c_user : string }.
Record ptarget := mkTarget { t_project : string; t_user : string }.

Definition policy := list (string * check).

Fixpoint plookup (pol : policy) (n : string) : option check :=
  match pol with
  | [] => None
  | (k, v) :: t => if String.eqb k n then Some v else plookup t n
  end.

(* an operator's policy file entry replaces the registered default *)
Definition override (pol : policy) (n : string) (k : check) : policy := (n, k) :: pol.

Definition lower_ascii (a : ascii) : ascii :=
  let n := nat_of_ascii a in
  if (Nat.leb 65 n && Nat.leb n 90)%bool then ascii_of_nat (n + 32) else a.

Fixpoint lower (s : string) : string :=
  match s with EmptyString => EmptyString | String a t => String (lower_ascii a) (lower t) end.

Definition cred_text (c : caller) (k : ckey) : string :=
  match k with
  | KIsAdmin => if c_is_admin c then "True" else "False"
  | KProject => c_project c
  | KUser => c_user c
  end.

Definition match_text (t : ptarget) (m : cmatch) : string :=
  match m with MLit s => s | MTargetProject => t_project t | MTargetUser => t_user t end.

(* fuel bounds the depth of rule references and of the expression *)
Fixpoint eval (fuel : nat) (pol : policy) (c : caller) (t : ptarget) (k : check) : bool :=
  match fuel with
  | O => false
  | S f =>
    match k with
    | CTrue => true
    | CFalse => false
    | CRole r => existsb (fun x => String.eqb (lower x) (lower r)) (c_roles c)
    | CRule n => match plookup pol n with Some k' => eval f pol c t k' | None => false end
    | CCred key m => String.eqb (match_text t m) (cred_text c key)
    | CAnd a b => eval f pol c t a && eval f pol c t b
    | COr a b => eval f pol c t a || eval f pol c t b
    | CNot a => negb (eval f pol c t a)
    end
  end.

Definition policy_fuel : nat := 64.

Definition authorize (pol : policy) (c : caller) (t : ptarget) (rule : string) : bool :=
  match plookup pol rule with
  | Some k => eval policy_fuel pol c t k
  | None => false
  end.

Definition own_target (c : caller) : ptarget := mkTarget (c_project c) (c_user c).

(* acl.enforce(rule, ctx) does not raise *)
Definition enforce_allows (pol : policy) (c : caller) (rule : string) : bool :=
  authorize pol c (own_target c) rule.

(* the environment of `run` that a loaded policy and a caller determine *)
Definition policy_env (pol : policy) (c : caller) (holds : cond -> bool) (fires : nat -> bool) : env :=
  mkEnv (fun r => negb (enforce_allows pol c r)) holds fires.

Definition show_bool (b : bool) : string := if b then "allow" else "deny".
