(* Model of the workflow-definition store and of the specification cache that the
   engine consults when it starts a workflow.

   Mirrors  mistral/lang/parser.py:get_workflow_spec_by_definition_id  (cachetools.cached on the
              argument pair (definition id, key component); a miss parses the stored row's spec)
            mistral/lang/parser.py:clear_caches, the LRU eviction of cachetools
            the callers  mistral/engine/workflows.py:Workflow.start, mistral/engine/actions.py:WorkflowAction.schedule,
              mistral/services/triggers.py:create_cron_trigger / create_event_trigger
              (which row fields they pass as key component: GENERATED into Gen/SpecCache.v)
            mistral/services/workflows.py:create_workflows / update_workflows (_get_workflow_values)
            mistral/services/workbooks.py:_create_or_update_workflows  (create_or_update of every `wb.wf`)
            mistral/db/sqlalchemy/model_base.py: updated_at = utc_now_sec() on every UPDATE (None on INSERT)
   Driven against the real services + engine by harness/suites/C14.py (suite `speccache`).

   Abstractions: a definition's content (text, and the spec parsed from it) is a number; the
   checksum is an injective digest of the content (md5 collisions are not modelled); the clock
   counts seconds (the resolution of utc_now_sec).  Deleting definitions is not modelled.
   No proofs here. *)
From Coq Require Import List Arith Bool.
Import ListNotations.

Inductive field := FUpdatedAt | FChecksum | FContent.

(* what the source does: the key component passed by the call sites, and whether the two
   services that write definitions fill `checksum` *)
Record cfg := mkCfg { key_fields : list field; wf_sets_sum : bool; wb_sets_sum : bool }.

Record row := mkRow {
  r_id : nat; r_name : nat;
  r_spec : nat;                 (* stored definition / spec *)
  r_upd : option nat;           (* updated_at, seconds *)
  r_sum : option nat            (* checksum *)
}.

Definition field_val (r : row) (f : field) : option nat :=
  match f with
  | FUpdatedAt => r_upd r
  | FChecksum => r_sum r
  | FContent => Some (r_spec r)
  end.

Definition key (c : cfg) (r : row) : list (option nat) := map (field_val r) (key_fields c).

Definition entry := (nat * list (option nat) * nat)%type.      (* (definition id, key component) -> spec *)

Record state := mkSt { store : list row; cache : list entry; clock : nat; next_id : nat }.

Definition init : state := mkSt [] [] 0 0.

Inductive path := PWf | PWb.       (* services/workflows.py | services/workbooks.py *)

Definition sets_sum (c : cfg) (p : path) : bool :=
  match p with PWf => wf_sets_sum c | PWb => wb_sets_sum c end.

Fixpoint find_row (n : nat) (rows : list row) : option row :=
  match rows with
  | [] => None
  | r :: rest => if Nat.eqb (r_name r) n then Some r else find_row n rest
  end.

(* UPDATE of the row named n *)
Definition updated (c : cfg) (p : path) (now content : nat) (r : row) : row :=
  mkRow (r_id r) (r_name r) content (Some now)
        (if sets_sum c p then Some content else r_sum r).

Fixpoint replace_row (n : nat) (f : row -> row) (rows : list row) : list row :=
  match rows with
  | [] => []
  | r :: rest => if Nat.eqb (r_name r) n then f r :: rest else r :: replace_row n f rest
  end.

(* INSERT *)
Definition created (c : cfg) (p : path) (id n content : nat) : row :=
  mkRow id n content None (if sets_sum c p then Some content else None).

Inductive prim :=
| PCreate (p : path) (n content : nat)      (* db_api.create_workflow_definition; duplicate name = error, no change *)
| PUpdate (p : path) (n content : nat)      (* db_api.update_workflow_definition; unknown name = error, no change *)
| PUpsert (p : path) (n content : nat)      (* db_api.create_or_update_workflow_definition *)
| PTick (d : nat)                           (* d seconds pass *)
| PEvictAll                                 (* clear_caches() / engine restart *)
| PEvictAt (i : nat)                        (* the LRU cache drops one entry *)
| PLookup (n : nat).                        (* a call site loads the row and asks the cache for its spec *)

Fixpoint remove_nth {A} (i : nat) (l : list A) : list A :=
  match l, i with
  | [], _ => []
  | _ :: r, 0 => r
  | x :: r, S i' => x :: remove_nth i' r
  end.

Fixpoint key_eqb (a b : list (option nat)) : bool :=
  match a, b with
  | [], [] => true
  | x :: a', y :: b' =>
      (match x, y with
       | None, None => true
       | Some u, Some v => Nat.eqb u v
       | _, _ => false
       end) && key_eqb a' b'
  | _, _ => false
  end.

Fixpoint cache_get (id : nat) (k : list (option nat)) (es : list entry) : option nat :=
  match es with
  | [] => None
  | (i, k', s) :: rest => if Nat.eqb i id && key_eqb k' k then Some s else cache_get id k rest
  end.

Definition do_create (c : cfg) (p : path) (n content : nat) (st : state) : state :=
  mkSt (store st ++ [created c p (next_id st) n content]) (cache st) (clock st) (S (next_id st)).

Definition do_update (c : cfg) (p : path) (n content : nat) (st : state) : state :=
  mkSt (replace_row n (updated c p (clock st) content) (store st)) (cache st) (clock st) (next_id st).

(* one step; a lookup also yields (spec handed to the caller, spec stored in the row) *)
Definition step (c : cfg) (st : state) (o : prim) : state * option (nat * nat) :=
  match o with
  | PCreate p n content =>
      (match find_row n (store st) with Some _ => st | None => do_create c p n content st end, None)
  | PUpdate p n content =>
      (match find_row n (store st) with Some _ => do_update c p n content st | None => st end, None)
  | PUpsert p n content =>
      (match find_row n (store st) with
       | Some _ => do_update c p n content st
       | None => do_create c p n content st
       end, None)
  | PTick d => (mkSt (store st) (cache st) (clock st + d) (next_id st), None)
  | PEvictAll => (mkSt (store st) [] (clock st) (next_id st), None)
  | PEvictAt i => (mkSt (store st) (remove_nth i (cache st)) (clock st) (next_id st), None)
  | PLookup n =>
      match find_row n (store st) with
      | None => (st, None)
      | Some r =>
          match cache_get (r_id r) (key c r) (cache st) with
          | Some s => (st, Some (s, r_spec r))
          | None => (mkSt (store st) ((r_id r, key c r, r_spec r) :: cache st) (clock st) (next_id st),
                     Some (r_spec r, r_spec r))
          end
      end
  end.

Fixpoint exec (c : cfg) (st : state) (os : list prim) : list (nat * nat) :=
  match os with
  | [] => []
  | o :: rest =>
      let (st', obs) := step c st o in
      match obs with Some x => x :: exec c st' rest | None => exec c st' rest end
  end.

(* the state after a sequence *)
Fixpoint run (c : cfg) (st : state) (os : list prim) : state :=
  match os with [] => st | o :: rest => run c (fst (step c st o)) rest end.

(* ---- the operations of the services, as sequences of primitive steps ---- *)
Inductive op :=
| OCreateWf (n content : nat)                 (* services.workflows.create_workflows *)
| OUpdateWf (n content : nat)                 (* services.workflows.update_workflows *)
| OWorkbook (members : list (nat * nat))      (* create_workbook_v2 / update_workbook_v2: every wb.wf upserted *)
| OTick (d : nat) | OEvictAll | OEvictAt (i : nat)
| OStart (n : nat).                           (* start / sub-workflow / trigger creation: the same lookup *)

Definition prims (o : op) : list prim :=
  match o with
  | OCreateWf n content => [PCreate PWf n content]
  | OUpdateWf n content => [PUpdate PWf n content]
  | OWorkbook ms => map (fun m => PUpsert PWb (fst m) (snd m)) ms
  | OTick d => [PTick d]
  | OEvictAll => [PEvictAll]
  | OEvictAt i => [PEvictAt i]
  | OStart n => [PLookup n]
  end.

Definition exec_ops (c : cfg) (os : list op) : list (nat * nat) := exec c init (flat_map prims os).

(* "spaced": no row is updated twice within the same second (the first write of a row, its
   INSERT, leaves updated_at empty and does not count) *)
Definition spaced_step (st : state) (o : prim) : bool :=
  match o with
  | PUpdate _ n _ | PUpsert _ n _ =>
      match find_row n (store st) with
      | Some r => match r_upd r with Some t => negb (Nat.eqb t (clock st)) | None => true end
      | None => true
      end
  | _ => true
  end.

Fixpoint spaced (c : cfg) (st : state) (os : list prim) : bool :=
  match os with
  | [] => true
  | o :: rest => spaced_step st o && spaced c (fst (step c st o)) rest
  end.

(* the key component identifies the stored content exactly *)
Definition exact_field (c : cfg) (f : field) : bool :=
  match f with
  | FContent => true
  | FChecksum => wf_sets_sum c && wb_sets_sum c
  | FUpdatedAt => false
  end.
Definition exact_cfg (c : cfg) : bool := existsb (exact_field c) (key_fields c).

Definition has_field (f : field) (l : list field) : bool :=
  existsb (fun g => match f, g with
                    | FUpdatedAt, FUpdatedAt | FChecksum, FChecksum | FContent, FContent => true
                    | _, _ => false end) l.

Definition coherent (obs : list (nat * nat)) : bool := forallb (fun p => Nat.eqb (fst p) (snd p)) obs.
