(* Model of a process-wide in-memory store shared by the requests of several projects (property C15).
   Anchors:
     mistral/actions/dynamic_action.py:DynamicActionProvider.ensure_latest_module_version  -> use_resource
        (the slot protocol: reload when the database version is higher than the cached one, else serve the slot)
     mistral/actions/dynamic_action.py:DynamicActionProvider.find / db_api.load_dynamic_action_definition,
        db_api.get_code_source                                                              -> resolve (the caller's own row)
     db_api.create_code_source / update_code_source (version + 1) / delete_code_source      -> TCreate / TUpdate / TDelete
     mistral/lang/parser.py:_WF_DEF_CACHE, _WF_EX_CACHE; DefaultScheduler.in_memory_jobs    -> same slot discipline, keys only
     mistral/event_engine/default_event_engine.py:_loop (owner-or-public filter)           -> multi_lookup
   The composition of each store's key is extracted into Gen/TenantCaches.v by translate/tr_tenantcaches.py.
   Correspondence suite: harness/suites/C15.py (suite tenant_caches: the real provider / parser functions, several
   projects in one process).  No proofs in this file. *)
From Coq Require Import List Bool Arith String.
Import ListNotations.

Inductive key_kind :=
  | KeyId                    (* a row id: unique across projects *)
  | KeyNameOnly              (* a name: unique inside one project only *)
  | KeyNameProject           (* a name together with the owning project *)
  | KeyOther (s : string).   (* anything else: treated as colliding *)

Inductive store_kind :=
  | SlotStore (k : key_kind)     (* one slot per key *)
  | MultiFiltered                (* a list of entries per key, each with its owner; the consumer keeps own-or-public *)
  | MultiUnfiltered.

(* a tenant-owned resource with content: (author, data) stands for the code / definition text *)
Record tres := mkT { t_id : nat; t_name : nat; t_owner : nat; t_ver : nat; t_author : nat; t_data : nat }.

Definition key := (nat * nat)%type.
Definition key_eqb (a b : key) : bool := (fst a =? fst b) && (snd a =? snd b).

Definition key_of (k : key_kind) (r : tres) : key :=
  match k with
  | KeyId => (t_id r, 0)
  | KeyNameOnly => (t_name r, 0)
  | KeyNameProject => (t_name r, t_owner r)
  | KeyOther _ => (0, 0)
  end.

(* slot: author, data, version *)
Definition slot := (nat * nat * nat)%type.

Record tstate := mkS {
  s_db : list tres;
  s_hist : list (nat * nat);        (* every id ever issued, with the project it was issued to *)
  s_cache : list (key * slot) }.

Definition empty_state : tstate := mkS [] [] [].

Inductive top :=
  | TCreate (p n c i : nat)     (* project p creates a resource named n with content c; the db issues id i *)
  | TUpdate (p n c : nat)       (* p updates its resource n: version + 1 *)
  | TDelete (p n : nat)
  | TUse (p n : nat).           (* p uses its resource n through the shared store *)

(* the database resolves a name inside the caller's project (private resources: _secure_query) *)
Definition own (p n : nat) (r : tres) : bool := (t_owner r =? p) && (t_name r =? n).
Definition resolve (p n : nat) (d : list tres) : option tres := find (own p n) d.

Definition cache_lookup (k : key) (c : list (key * slot)) : option slot :=
  match find (fun e => key_eqb (fst e) k) c with Some e => Some (snd e) | None => None end.

Definition use_resource (kind : key_kind) (r : tres) (c : list (key * slot)) : (nat * nat) * list (key * slot) :=
  let k := key_of kind r in
  let reload := ((t_author r, t_data r), (k, (t_author r, t_data r, t_ver r)) :: c) in
  match cache_lookup k c with
  | Some (a, d, v) => if v <? t_ver r then reload else ((a, d), c)
  | None => reload
  end.

Definition tstep (kind : key_kind) (s : tstate) (o : top) : option (nat * nat) * tstate :=
  match o with
  | TCreate p n c i =>
      if existsb (fun h => fst h =? i) (s_hist s) || existsb (own p n) (s_db s) then (None, s)
      else (None, mkS (s_db s ++ [mkT i n p 1 p c]) ((i, p) :: s_hist s) (s_cache s))
  | TUpdate p n c =>
      (None, mkS (map (fun r => if own p n r then mkT (t_id r) (t_name r) (t_owner r) (S (t_ver r)) p c else r) (s_db s))
                 (s_hist s) (s_cache s))
  | TDelete p n => (None, mkS (filter (fun r => negb (own p n r)) (s_db s)) (s_hist s) (s_cache s))
  | TUse p n =>
      match resolve p n (s_db s) with
      | None => (None, s)
      | Some r => let '(res, c') := use_resource kind r (s_cache s) in (Some res, mkS (s_db s) (s_hist s) c')
      end
  end.

Fixpoint trun (kind : key_kind) (ops : list top) (s : tstate) : list (option (nat * nat)) * tstate :=
  match ops with
  | [] => ([], s)
  | o :: t => let '(r, s1) := tstep kind s o in let '(rs, s2) := trun kind t s1 in (r :: rs, s2)
  end.

(* keys that cannot collide between projects *)
Definition key_cross_unique (k : key_kind) : bool :=
  match k with KeyId | KeyNameProject => true | _ => false end.

Definition store_ok (s : store_kind) : bool :=
  match s with SlotStore k => key_cross_unique k | MultiFiltered => true | MultiUnfiltered => false end.

(* multimap entries: (owner, public, payload); the consumer of a MultiFiltered store *)
Definition multi_lookup (p : nat) (entries : list (nat * bool * nat)) : list (nat * bool * nat) :=
  filter (fun e => (fst (fst e) =? p) || snd (fst e)) entries.

(* printing for the correspondence: the results of a run, None as (0, 0) with a flag *)
Definition run_results (kind : key_kind) (ops : list top) : list (bool * nat * nat) :=
  map (fun r => match r with Some (a, d) => (true, a, d) | None => (false, 0, 0) end) (fst (trun kind ops empty_state)).
