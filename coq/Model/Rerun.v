(* Model of the rerun / skip propagation over the execution tree (property C12: "rerunning a
   failed task puts the task, its workflow and all enclosing workflows and parent tasks back to
   RUNNING ...", the refusals, the with-items reset semantics).

   The data base is abstracted to two tables addressed by position:
     wfs   : workflow executions (state, accepted flag, task_execution_id = the parent task)
     tasks : task executions (workflow_execution_id, state, state_info set?, processed flag,
             their action / sub-workflow executions with index, state, accepted flag)
   One function = one committed transaction of the engine; `None` / `Declared` = a declared
   exception escaped, the transaction was rolled back (nothing changes).

   Anchors (source function -> model definition):
     mistral/workflow/states.py:is_valid_transition (Gen/States.v, translated)  -> used by wf_set_running
     mistral/engine/workflows.py:Workflow.set_state(RUNNING)                    -> wf_set_running
         (WorkflowException when the transition is not valid; accepted := is_completed(RUNNING) = False)
     mistral/engine/tasks.py:Task.set_state(RUNNING, None, processed=False)
       via mistral/engine/task_handler.py:mark_task_running                    -> task_set_running
         (no transition check; nothing is written when the row is already RUNNING without state_info)
     mistral/engine/workflows.py:Workflow._recursive_rerun                      -> recursive_rerun
         (set_state(RUNNING); if task_execution_id: parent_wf._recursive_rerun(); mark_task_running(parent task))
     mistral/engine/default_engine.py:rerun_workflow +
       mistral/engine/workflow_handler.py:rerun_workflow (PAUSED -> no-op) +
       mistral/engine/workflows.py:Workflow.rerun / _continue_workflow
         (completed, not processed tasks of that workflow become processed) +
       mistral/engine/dispatcher.py (SkipTask -> task_handler.skip_task -> Task.complete(SKIPPED, skip=True);
         RunExistingTask -> task_handler.create_task (the task is put to RUNNING, fix of finding
         "rerun window") and a start_task request is registered)               -> rerun_workflow, restart_task
     mistral/engine/task_handler.py:run_task(rerun=True) +
       mistral/engine/tasks.py:RegularTask._run_existing / _reset_actions,
       RegularTask._schedule_actions, WithItemsTask._schedule_actions / _get_next_indexes
         (runtime context was cleared by Workflow.rerun: capacity := concurrency) -> start_rerun
     mistral/api/controllers/v2/task.py:TasksController.put (the guards before the engine call) -> api_put
   What a skip CONTINUES with in the same transaction (dispatch of the next tasks, which can create rows or
   re-arm a join of the same workflow) is not part of this model: the core model (Model/Engine.v, ESkipTask)
   covers it; skip_task only records what happens to the skipped row itself.
   Correspondence: harness/engine_rerun.py (called from harness/suites/C12.py) runs the REAL engine
   (harness/engine_driver.py) on generated programs with sub-workflows / with-items / retry / joins,
   abstracts the DB before and after every rerun / skip call and every start_task(rerun) delivery and
   compares with these functions.
   No proofs in this file. *)
From Coq Require Import List Bool Arith.
Require Import Mistral.Gen.States.
Import ListNotations.

Record arow := mkA { a_index : nat; a_state : state; a_accepted : bool }.
Record trow := mkT { t_wf : nat; t_state : state; t_info : bool; t_processed : bool; t_execs : list arow }.
Record wrow := mkW { w_state : state; w_accepted : bool; w_ptask : option nat }.
Record db := mkDb { wfs : list wrow; tasks : list trow }.

Inductive outcome := Ok | Declared.

(* l[n] := f l[n] *)
Fixpoint upd {A : Type} (n : nat) (f : A -> A) (l : list A) : list A :=
  match l, n with
  | [], _ => []
  | x :: r, 0 => f x :: r
  | x :: r, S k => x :: upd k f r
  end.

Definition can_run (s : state) : bool :=
  match is_valid_transition s RUNNING with Some true => true | _ => false end.

Definition wrow_running (r : wrow) : wrow := mkW RUNNING false (w_ptask r).

(* Workflow.set_state(RUNNING) *)
Definition wf_set_running (d : db) (w : nat) : option db :=
  match nth_error (wfs d) w with
  | None => None
  | Some r => if can_run (w_state r) then Some (mkDb (upd w wrow_running (wfs d)) (tasks d)) else None
  end.

(* Task.set_state(RUNNING, None, processed=False) *)
Definition trow_running (r : trow) : trow :=
  if negb (state_eqb (t_state r) RUNNING) || t_info r
  then mkT (t_wf r) RUNNING false false (t_execs r)
  else r.

Definition task_set_running (d : db) (t : nat) : db := mkDb (wfs d) (upd t trow_running (tasks d)).

(* Workflow._recursive_rerun; fuel bounds the nesting depth (the rows form a tree: fuel =
   number of workflow executions + 1 is always enough) *)
Fixpoint recursive_rerun (fuel : nat) (d : db) (w : nat) : option db :=
  match fuel with
  | 0 => None
  | S f =>
    match wf_set_running d w with
    | None => None
    | Some d1 =>
      match nth_error (wfs d) w with
      | None => None
      | Some r =>
        match w_ptask r with
        | None => Some d1
        | Some pt =>
          match nth_error (tasks d) pt with
          | None => None
          | Some ptr =>
            match recursive_rerun f d1 (t_wf ptr) with
            | None => None
            | Some d2 => Some (task_set_running d2 pt)
            end
          end
        end
      end
    end
  end.

(* the enclosing chain: [(workflow, its parent task)] from the workflow of the task upwards *)
Fixpoint chain (fuel : nat) (d : db) (w : nat) : option (list (nat * option nat)) :=
  match fuel with
  | 0 => None
  | S f =>
    match nth_error (wfs d) w with
    | None => None
    | Some r =>
      match w_ptask r with
      | None => Some [(w, None)]
      | Some pt =>
        match nth_error (tasks d) pt with
        | None => None
        | Some ptr =>
          match chain f d (t_wf ptr) with
          | None => None
          | Some l => Some ((w, Some pt) :: l)
          end
        end
      end
    end
  end.

Definition chain_wfs (l : list (nat * option nat)) : list nat := map fst l.
Fixpoint chain_tasks (l : list (nat * option nat)) : list nat :=
  match l with
  | [] => []
  | (_, Some pt) :: r => pt :: chain_tasks r
  | (_, None) :: r => chain_tasks r
  end.

(* Workflow._continue_workflow: completed tasks of the workflow that are not processed become processed *)
Definition mark_processed_row (w : nat) (r : trow) : trow :=
  if (t_wf r =? w) && is_completed (t_state r) && negb (t_processed r)
  then mkT (t_wf r) (t_state r) (t_info r) true (t_execs r) else r.

Definition mark_processed (d : db) (w : nat) : db := mkDb (wfs d) (map (mark_processed_row w) (tasks d)).

(* task_handler.skip_task: Task.complete(SKIPPED, "Task was skipped.", skip=True) in a RUNNING workflow *)
Definition trow_skipped (r : trow) : trow := mkT (t_wf r) SKIPPED true true (t_execs r).
Definition skip_task (d : db) (t : nat) : db := mkDb (wfs d) (upd t trow_skipped (tasks d)).

(* task_handler.create_task for a RunExistingTask command with rerun=True (dispatcher, inside the rerun
   transaction): a WAITING task gets its state_info; a task in ERROR is put to RUNNING at once (until its
   start request is processed it must not look completed to a workflow completion check).  Any other task
   (an engine-level rerun of a CANCELLED task; the REST API accepts ERROR tasks only) keeps its state until
   the start request is processed. *)
Definition trow_restart (r : trow) : trow :=
  if state_eqb (t_state r) WAITING then mkT (t_wf r) WAITING true (t_processed r) (t_execs r)
  else if state_eqb (t_state r) ERROR
       then mkT (t_wf r) RUNNING false false (t_execs r)
       else r.
Definition restart_task (d : db) (t : nat) : db := mkDb (wfs d) (upd t trow_restart (tasks d)).

Definition fuel_of (d : db) : nat := S (length (wfs d)).

(* engine.rerun_workflow(task_ex_id, reset, skip): (new DB, outcome, start_task request registered?) *)
Definition rerun_workflow (d : db) (t : nat) (skip : bool) : db * outcome * bool :=
  match nth_error (tasks d) t with
  | None => (d, Declared, false)
  | Some tr =>
    match nth_error (wfs d) (t_wf tr) with
    | None => (d, Declared, false)
    | Some wr =>
      if state_eqb (w_state wr) PAUSED then (d, Ok, false)
      else match recursive_rerun (fuel_of d) d (t_wf tr) with
           | None => (d, Declared, false)
           | Some d1 =>
             let d2 := mark_processed d1 (t_wf tr) in
             if skip then (skip_task d2 t, Ok, false) else (restart_task d2 t, Ok, true)
           end
    end
  end.

(* ---------------------------------------------------------------- *)
(* start_task(rerun=True, reset): RegularTask._run_existing           *)

Definition unaccept (a : arow) : arow := mkA (a_index a) (a_state a) false.

Definition failed_exec (a : arow) : bool :=
  a_accepted a && (state_eqb (a_state a) ERROR || state_eqb (a_state a) CANCELLED).

(* _reset_actions *)
Definition reset_execs (reset : bool) (l : list arow) : list arow :=
  map (fun a => if reset || failed_exec a then unaccept a else a) l.

(* WithItemsTask._get_next_indexes: an item needs (another) execution only if it has neither an
   accepted execution nor one that is still in progress *)
Definition occupied (l : list arow) (i : nat) : bool :=
  existsb (fun a => (a_index a =? i) && (a_accepted a || negb (is_completed (a_state a)))) l.

Definition free_indexes (count : nat) (l : list arow) : list nat :=
  filter (fun i => negb (occupied l i)) (seq 0 count).

Definition next_indexes (count : nat) (cap : option nat) (l : list arow) : list nat :=
  match cap with None => free_indexes count l | Some c => firstn c (free_indexes count l) end.

(* the items re-executed by the whole rerun (all batches) *)
Definition rerun_items (reset : bool) (count : nat) (l : list arow) : list nat :=
  free_indexes count (reset_execs reset l).

Definition new_exec (i : nat) : arow := mkA i RUNNING false.

(* kind of the task: None = regular task (one action), Some (count, concurrency) = with-items *)
Definition schedule (items : option (nat * option nat)) (l : list arow) : list arow :=
  match items with
  | None => l ++ [new_exec 0]
  | Some (count, cap) => l ++ map new_exec (next_indexes count cap l)
  end.

Definition start_rerun (d : db) (t : nat) (reset : bool) (items : option (nat * option nat)) : db * outcome :=
  match nth_error (tasks d) t with
  | None => (d, Declared)
  | Some tr =>
    if state_eqb (t_state tr) SUCCESS then (d, Declared)     (* 'Rerunning succeeded tasks is not supported.' *)
    else
      let run := fun r => let r1 := trow_running r in
                          mkT (t_wf r1) (t_state r1) (t_info r1) (t_processed r1)
                              (schedule items (reset_execs reset (t_execs r1))) in
      (mkDb (wfs d) (upd t run (tasks d)), Ok)
  end.

(* ---------------------------------------------------------------- *)
(* TasksController.put: guards in front of engine.rerun_workflow      *)
(* new_state = the state in the request body; reset = Some b when the field is set *)
Definition api_put (d : db) (t : nat) (new_state : state) (reset : option bool) (with_items : bool)
  : db * outcome * bool :=
  match nth_error (tasks d) t with
  | None => (d, Declared, false)
  | Some tr =>
    if negb (state_eqb new_state RUNNING) && negb (state_eqb new_state SKIPPED) then (d, Declared, false)
    else if negb (state_eqb (t_state tr) ERROR) then (d, Declared, false)
    else if state_eqb new_state RUNNING &&
            (match reset with None => true | Some b => negb with_items && negb b end)
         then (d, Declared, false)
    else rerun_workflow d t (state_eqb new_state SKIPPED)
  end.

(* a sequence of operator requests *)
Inductive op := ORerun (t : nat) | OSkip (t : nat).
Definition apply_op (d : db) (o : op) : db :=
  match o with
  | ORerun t => fst (fst (rerun_workflow d t false))
  | OSkip t => fst (fst (rerun_workflow d t true))
  end.
Definition op_accepted (d : db) (o : op) : bool :=
  match o with
  | ORerun t => match rerun_workflow d t false with (_, Ok, _) => true | _ => false end
  | OSkip t => match rerun_workflow d t true with (_, Ok, _) => true | _ => false end
  end.
Definition op_task (o : op) : nat := match o with ORerun t => t | OSkip t => t end.

(* ---------------------------------------------------------------- *)
(* printer for the correspondence suite                               *)
Definition view_execs (l : list arow) := map (fun a => (a_index a, a_state a, a_accepted a)) l.
Definition view_db (d : db) :=
  (map (fun w => (w_state w, w_accepted w)) (wfs d),
   map (fun t => (t_state t, t_info t, t_processed t, view_execs (t_execs t))) (tasks d)).
Definition view_rerun (r : db * outcome * bool) := (view_db (fst (fst r)), snd (fst r), snd r).
Definition view_start (r : db * outcome) := (view_db (fst r), snd r).
