(* Model of the legacy scheduler protocol (delayed_calls_v2, `processing` flag), step-granular.
   Anchors:
     mistral/services/legacy_scheduler.py
       _schedule_call / LegacyScheduler.schedule                   -> LPersist (row written in the caller's transaction)
       LegacyScheduler._process_delayed_calls                      -> LSelect / LCapture / LInvoke / LDelete
       LegacyScheduler._capture_calls (time_filter = now + 1s)     -> leligible / lcandidates / lcas
       LegacyScheduler._invoke_calls (all captured calls, in order)-> LInvoke
       LegacyScheduler.delete_calls (one DELETE ... WHERE id IN)   -> LDelete
       LegacyScheduler.has_scheduled_jobs                          -> lhas_jobs
     mistral/db/v2/sqlalchemy/api.py
       get_delayed_calls_to_start, update_delayed_call(query_filter={'processing': False}),
       delete_delayed_calls, get_delayed_calls_count
   There is no capture timeout: a row whose `processing` flag was set by a process that
   died stays captured for ever (see Proofs/SchedLegacyProofs.v: crash_recovery_refuted).
   Correspondence: harness/suites/C13.py - suites "corpus" and "legacy": real LegacyScheduler
   objects driven step by step against `lview (lrun batch steps linit)`; suite "components":
   get_delayed_calls_to_start / _capture_calls against `lcandidates`.  No proofs in this file. *)
From Coq Require Import List NArith Bool Arith.
Require Import Mistral.Model.Sched.
Import ListNotations.
Open Scope N_scope.

(* a row of delayed_calls_v2: id, execution_time, processing, key (0 = no key) *)
Record lrow := mkLRow { lid : jid; lexec : N; lproc : bool; lkey : nat }.

(* a running _process_delayed_calls call of instance ti:
   tsel = selected rows still to be compare-and-swapped, tcap = captured ids (deleted at the end),
   ttodo = captured ids not invoked yet *)
Record lthread := mkLT { ti : iid; tsel : list jid; tcap : list jid; ttodo : list jid }.

Record lstate := mkLSt {
  lnow : N;
  lnext : jid;
  lstore : list lrow;
  lpend : list (txid * lrow);
  lthreads : list lthread;
  llog : list entry;
  lobs : list bool;
  ljobs : list jobinfo;       (* history *)
  lcommitted : list jid;      (* history *)
  lrolled : list jid          (* history *)
}.

Definition linit : lstate := mkLSt 0 0%nat [] [] [] [] [] [] [] [].

Inductive lev :=
| LTick (d : N)
| LPersist (tx : txid) (delay : N) (key : nat)
| LCommit (tx : txid)
| LRollback (tx : txid)
| LSelect (i : iid) (ord : list jid)
| LCapture (k : nat)
| LInvoke (k : nat)
| LDelete (k : nat)
| LCrash (i : iid)
| LQuery (tx : option txid) (key : nat) (processing : bool).

(* execution_time < now + 1 second, processing = false *)
Definition leligible (t : N) (r : lrow) : bool := (lexec r <? t + 1) && negb (lproc r).

Definition lrow_le (ord : list jid) (a b : lrow) : bool :=
  (lexec a <? lexec b) ||
  ((lexec a =? lexec b) && Nat.leb (index_of (lid a) ord) (index_of (lid b) ord)).

Definition lcandidates (b : option nat) (t : N) (ord : list jid) (s : list lrow) : list lrow :=
  take b (isort (lrow_le ord) (filter (leligible t) s)).

Definition lmatches (j : jid) (r : lrow) : bool := Nat.eqb (lid r) j && negb (lproc r).

(* UPDATE ... SET processing = true WHERE id = j AND processing = false *)
Definition lcas (s : list lrow) (j : jid) : option (list lrow) :=
  if existsb (lmatches j) s
  then Some (map (fun r => if lmatches j r then mkLRow (lid r) (lexec r) true (lkey r) else r) s)
  else None.

Definition mem_nat (j : jid) (l : list jid) : bool := existsb (Nat.eqb j) l.

Definition lvisible (st : lstate) (tx : option txid) : list lrow :=
  lstore st ++ match tx with
               | None => []
               | Some t => map snd (filter (fun p => Nat.eqb (fst p) t) (lpend st))
               end.

Definition lhas_jobs (st : lstate) (tx : option txid) (key : nat) (processing : bool) : bool :=
  existsb (fun r => Nat.eqb (lkey r) key && Bool.eqb (lproc r) processing) (lvisible st tx).

Definition ltx_rows (tx : txid) (p : list (txid * lrow)) : list lrow :=
  map snd (filter (fun x => Nat.eqb (fst x) tx) p).
Definition ltx_others (tx : txid) (p : list (txid * lrow)) : list (txid * lrow) :=
  filter (fun x => negb (Nat.eqb (fst x) tx)) p.

Definition lstep (b : option nat) (st : lstate) (s : lev) : lstate :=
  match s with
  | LTick d =>
      mkLSt (lnow st + d) (lnext st) (lstore st) (lpend st) (lthreads st) (llog st) (lobs st)
            (ljobs st) (lcommitted st) (lrolled st)
  | LPersist tx delay key =>
      let j := lnext st in
      mkLSt (lnow st) (S j) (lstore st) (lpend st ++ [(tx, mkLRow j (lnow st + delay) false key)])
            (lthreads st) (llog st) (lobs st)
            (ljobs st ++ [mkJ j (lnow st) delay]) (lcommitted st) (lrolled st)
  | LCommit tx =>
      let rs := ltx_rows tx (lpend st) in
      mkLSt (lnow st) (lnext st) (lstore st ++ rs) (ltx_others tx (lpend st)) (lthreads st) (llog st) (lobs st)
            (ljobs st) (lcommitted st ++ map lid rs) (lrolled st)
  | LRollback tx =>
      let rs := ltx_rows tx (lpend st) in
      mkLSt (lnow st) (lnext st) (lstore st) (ltx_others tx (lpend st)) (lthreads st) (llog st) (lobs st)
            (ljobs st) (lcommitted st) (lrolled st ++ map lid rs)
  | LSelect i ord =>
      if existsb (fun t => Nat.eqb (ti t) i) (lthreads st) then st
      else match lcandidates b (lnow st) ord (lstore st) with
           | [] => st
           | cs =>
               mkLSt (lnow st) (lnext st) (lstore st) (lpend st)
                     (lthreads st ++ [mkLT i (map lid cs) [] []]) (llog st) (lobs st)
                     (ljobs st) (lcommitted st) (lrolled st)
           end
  | LCapture k =>
      match nth_error (lthreads st) k with
      | Some (mkLT i (j :: rest) cap todo) =>
          match lcas (lstore st) j with
          | Some s' =>
              mkLSt (lnow st) (lnext st) s' (lpend st)
                    (set_nth k (mkLT i rest (cap ++ [j]) (todo ++ [j])) (lthreads st)) (llog st) (lobs st)
                    (ljobs st) (lcommitted st) (lrolled st)
          | None =>
              mkLSt (lnow st) (lnext st) (lstore st) (lpend st)
                    (match rest, cap with
                     | [], [] => remove_nth k (lthreads st)     (* nothing captured: "if not db_calls: return" *)
                     | _, _ => set_nth k (mkLT i rest cap todo) (lthreads st)
                     end) (llog st) (lobs st)
                    (ljobs st) (lcommitted st) (lrolled st)
          end
      | _ => st
      end
  | LInvoke k =>
      match nth_error (lthreads st) k with
      | Some (mkLT i [] cap (j :: rest)) =>
          mkLSt (lnow st) (lnext st) (lstore st) (lpend st)
                (set_nth k (mkLT i [] cap rest) (lthreads st)) (llog st ++ [mkE j (lnow st) i]) (lobs st)
                (ljobs st) (lcommitted st) (lrolled st)
      | _ => st
      end
  | LDelete k =>
      match nth_error (lthreads st) k with
      | Some (mkLT i [] cap []) =>
          mkLSt (lnow st) (lnext st) (filter (fun r => negb (mem_nat (lid r) cap)) (lstore st)) (lpend st)
                (remove_nth k (lthreads st)) (llog st) (lobs st)
                (ljobs st) (lcommitted st) (lrolled st)
      | _ => st
      end
  | LCrash i =>
      mkLSt (lnow st) (lnext st) (lstore st) (lpend st)
            (filter (fun t => negb (Nat.eqb (ti t) i)) (lthreads st)) (llog st) (lobs st)
            (ljobs st) (lcommitted st) (lrolled st)
  | LQuery tx key processing =>
      mkLSt (lnow st) (lnext st) (lstore st) (lpend st) (lthreads st) (llog st)
            (lobs st ++ [lhas_jobs st tx key processing])
            (ljobs st) (lcommitted st) (lrolled st)
  end.

Definition lrun (b : option nat) (steps : list lev) (st : lstate) : lstate := fold_left (lstep b) steps st.

Definition lview (st : lstate) :=
  (lnow st,
   map (fun r => (lid r, lexec r, lproc r, lkey r)) (lstore st),
   map (fun p => (fst p, lid (snd p))) (lpend st),
   map (fun e => (ej e, et e, ei e)) (llog st),
   lobs st,
   map (fun t => (ti t, tsel t, tcap t, ttodo t)) (lthreads st)).
