(* Model of the default scheduler protocol (scheduled_jobs_v2), step-granular.
   Anchors (what each definition mirrors):
     mistral/scheduler/default_scheduler.py
       DefaultScheduler.schedule / _persist_job / _schedule_in_memory  -> Persist
       DefaultScheduler._dispatcher (pop every due heap entry, submit)  -> Dispatch
       DefaultScheduler._process_memory_job                             -> MemStart / MemInvoke / MemDelete
       DefaultScheduler._process_store_jobs                             -> PollSelect / PollCapture / PollInvoke / PollDelete
       DefaultScheduler._capture_scheduled_job                          -> cas
       DefaultScheduler._delete_scheduled_job                           -> del_row (DBEntityNotFoundError when absent)
       DefaultScheduler.has_scheduled_jobs                              -> has_jobs
     mistral/db/v2/sqlalchemy/api.py
       get_scheduled_jobs_to_start                                      -> eligible / candidates
       update_scheduled_job(query_filter=...) (update_on_match)         -> cas
       create_scheduled_job inside the caller's transaction             -> pend, Commit, Rollback
   Time is the scheduler's own clock (mistral_lib.utils.utc_now_sec: whole seconds).
   A process crash (Crash i) drops everything instance i holds in memory.
   Fields jobs/committed/rolled are history variables (not present in the code); they
   only record what happened so that theorems can speak about it.
   Correspondence: harness/suites/C13.py - suites "corpus", "systematic", "default": real
   DefaultScheduler objects driven step by step against `view (run cfg steps init)`; suite
   "components": get_scheduled_jobs_to_start against `candidates`, _capture_scheduled_job
   against `cas`.  No proofs in this file. *)
From Coq Require Import List NArith Bool Arith.
Import ListNotations.
Open Scope N_scope.

Definition jid := nat.
Definition iid := nat.
Definition txid := nat.

(* [scheduler] pickup_job_after, captured_job_timeout, batch_size; qmem: has_scheduled_jobs answers
   from the in-memory job copies before it asks the store (Gen/SchedQuery.v says what the code does) *)
Record cfg := mkCfg { pickup : N; timeout : N; batch : option nat; qmem : bool }.

(* a row of scheduled_jobs_v2: id, execute_at, captured_at, key (0 = no key) *)
Record row := mkRow { rid : jid; rexec : N; rcap : option N; rkey : nat }.

Inductive phase := PInv | PDel.   (* captured: about to invoke | invoked: about to delete *)

Definition phase_eqb (a b : phase) : bool :=
  match a, b with PInv, PInv => true | PDel, PDel => true | _, _ => false end.

(* an entry of DefaultScheduler.in_memory_jobs (the in-memory job object) *)
Record memjob := mkMem { mi : iid; mid : jid; mkey : nat; mcap : option N }.
(* a thread that captured job hj at time hc and has not deleted it yet *)
Record holder := mkH { hj : jid; hc : N; hp : phase }.
Record worker := mkW { wi : iid; wh : holder }.
(* a row selected by get_scheduled_jobs_to_start, with captured_at as read *)
Record cand := mkCand { cj : jid; cexp : option N }.
(* a running _process_store_jobs call of instance pi *)
Record poll := mkPoll { pi : iid; psel : list cand; pjobs : list holder }.
Record entry := mkE { ej : jid; et : N; ei : iid }.
Record jobinfo := mkJ { jj : jid; jat : N; jdelay : N }.

Record state := mkSt {
  now : N;
  next : jid;
  store : list row;               (* committed rows *)
  pend : list (txid * row);       (* rows written by still open transactions *)
  mem : list memjob;              (* in_memory_jobs of all instances *)
  heap : list (iid * jid * N);    (* _heap of all instances, insertion order *)
  pool : list (iid * jid);        (* submitted to the executor, not started *)
  workers : list worker;          (* _process_memory_job calls after a successful capture *)
  polls : list poll;
  log : list entry;               (* invocations of the target function *)
  obs : list bool;                (* answers of has_scheduled_jobs *)
  jobs : list jobinfo;            (* history: every schedule() call *)
  committed : list jid;           (* history *)
  rolled : list jid               (* history *)
}.

Definition init : state := mkSt 0 0%nat [] [] [] [] [] [] [] [] [] [] [] [].

Inductive ev :=
| Tick (d : N)
| Persist (i : iid) (tx : txid) (delay : N) (key : nat)
| Commit (tx : txid)
| Rollback (tx : txid)
| Dispatch (i : iid)
| MemStart (k : nat)            (* k-th element of pool *)
| MemInvoke (k : nat)           (* k-th element of workers *)
| MemDelete (k : nat)
| PollSelect (i : iid) (ord : list jid)   (* ord: tie-break order chosen by the database *)
| PollCapture (k : nat)         (* k-th element of polls *)
| PollInvoke (k : nat)
| PollDelete (k : nat)
| Crash (i : iid)
| Query (i : iid) (tx : option txid) (key : nat) (processing : bool).

(* ---- list helpers ---- *)
Fixpoint remove_nth {A} (k : nat) (l : list A) : list A :=
  match l with
  | [] => []
  | h :: t => match k with O => t | S k' => h :: remove_nth k' t end
  end.

Fixpoint set_nth {A} (k : nat) (x : A) (l : list A) : list A :=
  match l with
  | [] => []
  | h :: t => match k with O => x :: t | S k' => h :: set_nth k' x t end
  end.

Fixpoint insert {A} (le : A -> A -> bool) (x : A) (l : list A) : list A :=
  match l with
  | [] => [x]
  | h :: t => if le x h then x :: h :: t else h :: insert le x t
  end.

Definition isort {A} (le : A -> A -> bool) (l : list A) : list A := fold_right (insert le) [] l.

Fixpoint index_of (j : jid) (ord : list jid) : nat :=
  match ord with
  | [] => O
  | x :: t => if Nat.eqb x j then O else S (index_of j t)
  end.

Definition opt_eqb (a b : option N) : bool :=
  match a, b with
  | None, None => true
  | Some x, Some y => x =? y
  | _, _ => false
  end.

(* ---- store operations ---- *)

(* get_scheduled_jobs_to_start filter: execute_at < now - pickup_job_after and
   (captured_at IS NULL or captured_at <= now - captured_job_timeout) *)
Definition eligible (c : cfg) (t : N) (r : row) : bool :=
  (rexec r + pickup c <? t) &&
  match rcap r with None => true | Some x => x + timeout c <=? t end.

(* ORDER BY execute_at (ties: order chosen by the database = position in ord) LIMIT batch *)
Definition row_le (ord : list jid) (a b : row) : bool :=
  (rexec a <? rexec b) ||
  ((rexec a =? rexec b) && Nat.leb (index_of (rid a) ord) (index_of (rid b) ord)).

Definition take {A} (b : option nat) (l : list A) : list A :=
  match b with None => l | Some n => firstn n l end.

Definition candidates (c : cfg) (t : N) (ord : list jid) (s : list row) : list row :=
  take (batch c) (isort (row_le ord) (filter (eligible c t) s)).

Definition row_matches (j : jid) (e : option N) (r : row) : bool :=
  Nat.eqb (rid r) j && opt_eqb (rcap r) e.

(* UPDATE ... SET captured_at = t WHERE id = j AND captured_at = e; None when no row matched *)
Definition cas (s : list row) (j : jid) (e : option N) (t : N) : option (list row) :=
  if existsb (row_matches j e) s
  then Some (map (fun r => if row_matches j e r then mkRow (rid r) (rexec r) (Some t) (rkey r) else r) s)
  else None.

Definition has_row (s : list row) (j : jid) : bool := existsb (fun r => Nat.eqb (rid r) j) s.
Definition del_row (s : list row) (j : jid) : list row := filter (fun r => negb (Nat.eqb (rid r) j)) s.

(* ---- in-memory helpers ---- *)
Definition mem_is (i : iid) (j : jid) (m : memjob) : bool := Nat.eqb (mi m) i && Nat.eqb (mid m) j.
Definition mem_drop (i : iid) (j : jid) (l : list memjob) : list memjob := filter (fun m => negb (mem_is i j m)) l.
Definition mem_capture (i : iid) (j : jid) (t : N) (l : list memjob) : list memjob :=
  map (fun m => if mem_is i j m then mkMem (mi m) (mid m) (mkey m) (Some t) else m) l.

Definition heap_due (i : iid) (t : N) (e : iid * jid * N) : bool :=
  match e with (i', _, x) => Nat.eqb i' i && (x <=? t) end.
Definition heap_le (a b : iid * jid * N) : bool := snd a <=? snd b.

(* has_scheduled_jobs(key=k, processing=p): in-memory jobs of the instance first (if qmem),
   then a count over the rows visible to the caller (committed + own transaction) *)
Definition visible (st : state) (tx : option txid) : list row :=
  store st ++ match tx with
              | None => []
              | Some t => map snd (filter (fun p => Nat.eqb (fst p) t) (pend st))
              end.

Definition cap_is (processing : bool) (c : option N) : bool :=
  match c with None => negb processing | Some _ => processing end.

Definition has_jobs (c : cfg) (st : state) (i : iid) (tx : option txid) (key : nat) (processing : bool) : bool :=
  (qmem c && existsb (fun m => Nat.eqb (mi m) i && Nat.eqb (mkey m) key && cap_is processing (mcap m)) (mem st)) ||
  existsb (fun r => Nat.eqb (rkey r) key && cap_is processing (rcap r)) (visible st tx).

(* ---- the step function ---- *)
Definition upd_time (st : state) (t : N) : state :=
  mkSt t (next st) (store st) (pend st) (mem st) (heap st) (pool st) (workers st) (polls st)
       (log st) (obs st) (jobs st) (committed st) (rolled st).

Definition tx_rows (tx : txid) (p : list (txid * row)) : list row :=
  map snd (filter (fun x => Nat.eqb (fst x) tx) p).
Definition tx_others (tx : txid) (p : list (txid * row)) : list (txid * row) :=
  filter (fun x => negb (Nat.eqb (fst x) tx)) p.

Definition finished (p : poll) : bool :=
  match psel p, pjobs p with [], [] => true | _, _ => false end.

Definition put_poll (k : nat) (p : poll) (l : list poll) : list poll :=
  if finished p then remove_nth k l else set_nth k p l.

Definition step (c : cfg) (st : state) (s : ev) : state :=
  match s with
  | Tick d => upd_time st (now st + d)
  | Persist i tx delay key =>
      let j := next st in
      let e := now st + delay in
      mkSt (now st) (S j) (store st) (pend st ++ [(tx, mkRow j e None key)])
           (mem st ++ [mkMem i j key None]) (heap st ++ [(i, j, e)]) (pool st) (workers st) (polls st)
           (log st) (obs st) (jobs st ++ [mkJ j (now st) delay]) (committed st) (rolled st)
  | Commit tx =>
      let rs := tx_rows tx (pend st) in
      mkSt (now st) (next st) (store st ++ rs) (tx_others tx (pend st))
           (mem st) (heap st) (pool st) (workers st) (polls st)
           (log st) (obs st) (jobs st) (committed st ++ map rid rs) (rolled st)
  | Rollback tx =>
      let rs := tx_rows tx (pend st) in
      mkSt (now st) (next st) (store st) (tx_others tx (pend st))
           (mem st) (heap st) (pool st) (workers st) (polls st)
           (log st) (obs st) (jobs st) (committed st) (rolled st ++ map rid rs)
  | Dispatch i =>
      let due := isort heap_le (filter (heap_due i (now st)) (heap st)) in
      mkSt (now st) (next st) (store st) (pend st) (mem st)
           (filter (fun e => negb (heap_due i (now st) e)) (heap st))
           (pool st ++ map fst due) (workers st) (polls st)
           (log st) (obs st) (jobs st) (committed st) (rolled st)
  | MemStart k =>
      match nth_error (pool st) k with
      | None => st
      | Some (i, j) =>
          match cas (store st) j None (now st) with
          | Some s' =>
              mkSt (now st) (next st) s' (pend st) (mem_capture i j (now st) (mem st)) (heap st)
                   (remove_nth k (pool st)) (workers st ++ [mkW i (mkH j (now st) PInv)]) (polls st)
                   (log st) (obs st) (jobs st) (committed st) (rolled st)
          | None =>
              mkSt (now st) (next st) (store st) (pend st) (mem_drop i j (mem st)) (heap st)
                   (remove_nth k (pool st)) (workers st) (polls st)
                   (log st) (obs st) (jobs st) (committed st) (rolled st)
          end
      end
  | MemInvoke k =>
      match nth_error (workers st) k with
      | Some (mkW i (mkH j cp PInv)) =>
          mkSt (now st) (next st) (store st) (pend st) (mem st) (heap st) (pool st)
               (set_nth k (mkW i (mkH j cp PDel)) (workers st)) (polls st)
               (log st ++ [mkE j (now st) i]) (obs st) (jobs st) (committed st) (rolled st)
      | _ => st
      end
  | MemDelete k =>
      match nth_error (workers st) k with
      | Some (mkW i (mkH j cp PDel)) =>
          mkSt (now st) (next st) (del_row (store st) j) (pend st) (mem_drop i j (mem st)) (heap st) (pool st)
               (remove_nth k (workers st)) (polls st)
               (log st) (obs st) (jobs st) (committed st) (rolled st)
      | _ => st
      end
  | PollSelect i ord =>
      if existsb (fun p => Nat.eqb (pi p) i) (polls st) then st
      else match candidates c (now st) ord (store st) with
           | [] => st
           | cs =>
               mkSt (now st) (next st) (store st) (pend st) (mem st) (heap st) (pool st) (workers st)
                    (polls st ++ [mkPoll i (map (fun r => mkCand (rid r) (rcap r)) cs) []])
                    (log st) (obs st) (jobs st) (committed st) (rolled st)
           end
  | PollCapture k =>
      match nth_error (polls st) k with
      | Some (mkPoll i (cd :: rest) js) =>
          match cas (store st) (cj cd) (cexp cd) (now st) with
          | Some s' =>
              mkSt (now st) (next st) s' (pend st) (mem st) (heap st) (pool st) (workers st)
                   (put_poll k (mkPoll i rest (js ++ [mkH (cj cd) (now st) PInv])) (polls st))
                   (log st) (obs st) (jobs st) (committed st) (rolled st)
          | None =>
              mkSt (now st) (next st) (store st) (pend st) (mem st) (heap st) (pool st) (workers st)
                   (put_poll k (mkPoll i rest js) (polls st))
                   (log st) (obs st) (jobs st) (committed st) (rolled st)
          end
      | _ => st
      end
  | PollInvoke k =>
      match nth_error (polls st) k with
      | Some (mkPoll i [] (mkH j cp PInv :: rest)) =>
          mkSt (now st) (next st) (store st) (pend st) (mem st) (heap st) (pool st) (workers st)
               (set_nth k (mkPoll i [] (mkH j cp PDel :: rest)) (polls st))
               (log st ++ [mkE j (now st) i]) (obs st) (jobs st) (committed st) (rolled st)
      | _ => st
      end
  | PollDelete k =>
      match nth_error (polls st) k with
      | Some (mkPoll i [] (mkH j cp PDel :: rest)) =>
          if has_row (store st) j
          then mkSt (now st) (next st) (del_row (store st) j) (pend st) (mem st) (heap st) (pool st) (workers st)
                    (put_poll k (mkPoll i [] rest) (polls st))
                    (log st) (obs st) (jobs st) (committed st) (rolled st)
          else (* delete_scheduled_job raises: _process_store_jobs is abandoned *)
               mkSt (now st) (next st) (store st) (pend st) (mem st) (heap st) (pool st) (workers st)
                    (remove_nth k (polls st))
                    (log st) (obs st) (jobs st) (committed st) (rolled st)
      | _ => st
      end
  | Crash i =>
      mkSt (now st) (next st) (store st) (pend st)
           (filter (fun m => negb (Nat.eqb (mi m) i)) (mem st))
           (filter (fun e => negb (Nat.eqb (fst (fst e)) i)) (heap st))
           (filter (fun e => negb (Nat.eqb (fst e) i)) (pool st))
           (filter (fun w => negb (Nat.eqb (wi w) i)) (workers st))
           (filter (fun p => negb (Nat.eqb (pi p) i)) (polls st))
           (log st) (obs st) (jobs st) (committed st) (rolled st)
  | Query i tx key processing =>
      mkSt (now st) (next st) (store st) (pend st) (mem st) (heap st) (pool st) (workers st) (polls st)
           (log st) (obs st ++ [has_jobs c st i tx key processing]) (jobs st) (committed st) (rolled st)
  end.

Definition run (c : cfg) (steps : list ev) (st : state) : state := fold_left (step c) steps st.

(* every thread that currently holds a captured job *)
Definition holders (st : state) : list holder :=
  map wh (workers st) ++ flat_map pjobs (polls st).

(* ---- view compared with the implementation by the harness ---- *)
Definition view_row (r : row) := (rid r, rexec r, rcap r, rkey r).
Definition view_holder (h : holder) := (hj h, hc h, phase_eqb (hp h) PDel).
Definition view (st : state) :=
  (now st,
   map view_row (store st),
   map (fun p => (fst p, view_row (snd p))) (pend st),
   map (fun e => (ej e, et e, ei e)) (log st),
   obs st,
   (map (fun m => (mi m, mid m, mkey m, mcap m)) (mem st),
    heap st,
    pool st,
    map (fun w => (wi w, view_holder (wh w))) (workers st),
    map (fun p => (pi p, map (fun cd => (cj cd, cexp cd)) (psel p), map view_holder (pjobs p))) (polls st))).
