(* Model of the cron-trigger processing protocol, one atomic model step per database / RPC step.
   Anchors:
     mistral/services/periodic.py:process_cron_triggers_v2   -> Read / Adv / Start / Drop (one pass = Read, then for
                                                              every snapshot Adv and, if it won, Start)
     mistral/services/periodic.py:advance_cron_trigger       -> adv (decrement, delete on last execution, else
                                                              conditional UPDATE on the read next_execution_time)
     mistral/services/triggers.py:get_next_cron_triggers     -> due  (next_execution_time < now + 2 s)
     mistral/services/triggers.py:get_next_execution_time    -> nxt  (croniter: an oracle, tabulated per case)
     mistral/services/triggers.py:create_cron_trigger, validate_cron_trigger_input -> create
     mistral/api/controllers/v2/resources.py:CronTrigger.remaining_executions (IntegerType(minimum=1)) -> rest_count_ok
     mistral/db/v2/sqlalchemy/api.py:get_cron_trigger (lookup by name-or-id among the rows visible to the trigger's
        project: own project or scope public, `.first()`), update_cron_trigger(query_filter), delete_cron_trigger
        (check_db_obj_access)                                -> resolve / select / write; whether advance_cron_trigger
                                                              passes t.name or t.id: Gen/CronCfg.v (translate/tr_croncfg.py)
     the two database calls of advance_cron_trigger are NOT atomic: each one is a SELECT (get_cron_trigger) followed
        by a separate DELETE / UPDATE statement, and another processor can commit in between.  `Sel i k` is the part up
        to and including the SELECT (+ check_db_obj_access), `Wr i` is the DELETE / UPDATE statement with what the
        call then REPORTS to advance_cron_trigger (modified_count; the processor starts the workflow iff it is > 0).
        What a writer that lost the race reports is the compare-and-swap shape of the two functions, extracted on
        every run into Gen/CronCfg.v:
          delete_reports_rowcount = true : delete_cron_trigger returns the row count of `DELETE ... WHERE id = <id>`
                                           (0 for the loser); false: it reports 1 whatever was deleted
          update_reports_match    = true : update_cron_trigger(query_filter) reports 0 when the conditional UPDATE
                                           matches no row (NoRowsMatched); false: it reports 1
        `Adv i k` = Sel immediately followed by Wr (one processor running the whole call undisturbed).
     mistral/services/security.py:create_context             -> the project / trust of a start event (e_proj, e_payload)
   Correspondence suite: harness/suites/C17.py (create, run, inside).
   No proofs in this file. *)
From Coq Require Import List NArith ZArith Bool.
Import ListNotations.
Open Scope N_scope.

(* A row of cron_triggers_v2. Static: name, project, scope, payload (stands for workflow, input, params,
   trust: whatever a start must carry). Dynamic: next_execution_time (seconds), remaining_executions. *)
Record trig := mkTrig {
  t_name : nat; t_proj : nat; t_public : bool; t_payload : nat;
  t_next : N; t_rem : option Z }.

Definition set_dyn (t : trig) (n : N) (r : option Z) : trig :=
  mkTrig (t_name t) (t_proj t) (t_public t) (t_payload t) n r.

(* a start_workflow call received by the engine client *)
Record ev := mkEv { e_proc : nat; e_key : nat; e_occ : N; e_payload : nat; e_proj : nat }.

Definition occ_of (e : ev) : nat * N := (e_key e, e_occ e).

(* Processors (API / periodic processes) are numbered; per processor: what its last read returned and is not
   processed yet (snap i k = its copy of row k), the database call it is in the middle of (sel i = (k, sn, k', nv):
   for its snapshot sn of row k it has SELECTed row k' and will write next_execution_time nv, computed before the
   call), and the trigger it has advanced but whose workflow it has not started yet (pend i). *)
Record state := mkS {
  now : N;
  db : nat -> option trig;
  snap : nat -> nat -> option trig;
  sel : nat -> option (nat * trig * nat * N);
  pend : nat -> option (nat * trig);
  starts : list ev;
  won : list (nat * N);    (* ghost: (row, value of next_execution_time it was moved away from / deleted at) *)
  lost : list (nat * N) }. (* ghost: occurrences whose winner died / whose RPC failed before the start *)

Inductive op :=
| Tick (d : N)
| Read (i : nat)
| Adv (i k : nat)      (* a whole database call of advance_cron_trigger, undisturbed: Sel i k then Wr i *)
| Sel (i k : nat)      (* ... its SELECT: get_cron_trigger + check_db_obj_access *)
| Wr (i : nat)         (* ... its DELETE / conditional UPDATE statement, commit, and the reported count *)
| Start (i : nat)
| Drop (i : nat)      (* start_workflow / create_context raises: logged, the pass goes on *)
| Crash (i : nat).    (* the process dies *)

Definition upd {A} (f : nat -> A) (k : nat) (v : A) : nat -> A :=
  fun j => if Nat.eqb j k then v else f j.

(* if t.remaining_executions is not None and t.remaining_executions > 0: t.remaining_executions -= 1 *)
Definition dec (r : option Z) : option Z :=
  match r with
  | Some c => if (0 <? c)%Z then Some (c - 1)%Z else Some c
  | None => None
  end.

Definition is_zero (r : option Z) : bool :=
  match r with Some c => (c =? 0)%Z | None => false end.

(* get_next_cron_triggers: next_execution_time < utcnow() + 2 s *)
Definition due (nw : N) (t : trig) : bool := t_next t <? nw + 2.

(* a row is visible to a context of project p: own project or public (_secure_query) *)
Definition visible (p : nat) (d : trig) : bool := Nat.eqb (t_proj d) p || t_public d.

(* get_cron_trigger(identifier) under the context of t's project, for the snapshot s of row k.
   byname = true  (the code passes t.name): the FIRST visible row with that name, in the order `keys` in which
                  the database enumerates rows;
   byname = false (the code passes t.id): the row itself, if it still exists.
   Which one the code does is extracted on every run into Gen/CronCfg.v (lookup_by_name). *)
Definition resolve (byname : bool) (keys : list nat) (dbf : nat -> option trig) (k : nat) (s : trig) : option nat :=
  if byname then
    find (fun k' => match dbf k' with
                    | Some d => Nat.eqb (t_name d) (t_name s) && visible (t_proj s) d
                    | None => false
                    end) keys
  else match dbf k with Some _ => Some k | None => None end.

Definition count_key (k : nat) (l : list (nat * N)) : nat :=
  length (filter (fun x => Nat.eqb (fst x) k) l).

Section WithNxt.
Variable byname : bool.
Variable drc : bool.            (* Gen.CronCfg.delete_reports_rowcount *)
Variable urm : bool.            (* Gen.CronCfg.update_reports_match *)
Variable keys : list nat.
Variable nxt : nat -> N -> N.   (* croniter(pattern of trigger k, t).get_next() *)

Definition clear_snap (s : state) (i k : nat) : nat -> nat -> option trig :=
  upd (snap s) i (upd (snap s i) k None).

(* the snapshot of row k is consumed by processor i without winning, at the SELECT *)
Definition lose (s : state) (i k : nat) : state :=
  mkS (now s) (db s) (clear_snap s i k) (sel s) (pend s) (starts s) (won s) (lost s).

(* the SELECT half of triggers.delete_cron_trigger(t.id) / db_api.update_cron_trigger(t.id, values, query_filter)
   for the snapshot sn of row k held by processor i.  next_time (the value the UPDATE will write) is computed by
   advance_cron_trigger right before the call: croniter(pattern, max(utcnow(), t.next_execution_time)). *)
Definition select (s : state) (i k : nat) : state :=
  match pend s i, sel s i, snap s i k with
  | None, None, Some sn =>
    match resolve byname keys (db s) k sn with
    | None => lose s i k                              (* DBEntityNotFoundError: caught, modified_count = 0 *)
    | Some k' =>
      match db s k' with
      | None => lose s i k
      | Some d =>
        if is_zero (dec (t_rem sn)) && negb (Nat.eqb (t_proj d) (t_proj sn))
        then lose s i k                               (* NotAllowedException: logged by the caller *)
        else mkS (now s) (db s) (clear_snap s i k)
                 (upd (sel s) i (Some (k, sn, k', nxt k (N.max (now s) (t_next sn)))))
                 (pend s) (starts s) (won s) (lost s)
      end
    end
  | _, _, _ => s
  end.

(* the write reports 0: advance_cron_trigger returns False *)
Definition wr_lose (s : state) (i : nat) : state :=
  mkS (now s) (db s) (snap s) (upd (sel s) i None) (pend s) (starts s) (won s) (lost s).

(* the write changes row k' (content d before, v after) and reports 1: the start is pending (`if modified:`) *)
Definition wr_win (s : state) (i k : nat) (sn : trig) (k' : nat) (d : trig) (v : option trig) : state :=
  mkS (now s) (upd (db s) k' v) (snap s) (upd (sel s) i None) (upd (pend s) i (Some (k, sn)))
      (starts s) ((k', t_next d) :: won s) (lost s).

(* the write changes nothing and still reports 1 (only when drc / urm = false) *)
Definition wr_phantom (s : state) (i k : nat) (sn : trig) : state :=
  mkS (now s) (db s) (snap s) (upd (sel s) i None) (upd (pend s) i (Some (k, sn))) (starts s) (won s) (lost s).

(* the DELETE / UPDATE half, followed by the bookkeeping of process_cron_triggers_v2 *)
Definition write (s : state) (i : nat) : state :=
  match sel s i with
  | Some (k, sn, k', nv) =>
    let r' := dec (t_rem sn) in
    if is_zero r' then
      (* DELETE FROM cron_triggers_v2 WHERE id = <selected row>; reported: its row count *)
      match db s k' with
      | Some d => wr_win s i k sn k' d None
      | None => if drc then wr_lose s i else wr_phantom s i k sn
      end
    else
      (* UPDATE ... SET next_execution_time, remaining_executions WHERE id = <selected row> AND
         next_execution_time = <read value>; no row matched: NoRowsMatched -> 0 *)
      match db s k' with
      | Some d => if t_next d =? t_next sn then wr_win s i k sn k' d (Some (set_dyn d nv r'))
                  else if urm then wr_lose s i else wr_phantom s i k sn
      | None => if urm then wr_lose s i else wr_phantom s i k sn
      end
  | None => s
  end.

(* advance_cron_trigger(t) running both halves of its database call with no other processor in between *)
Definition adv (s : state) (i k : nat) : state :=
  match sel s i with
  | None => write (select s i k) i
  | Some _ => s
  end.

Definition step (s : state) (o : op) : state :=
  match o with
  | Tick d => mkS (now s + d) (db s) (snap s) (sel s) (pend s) (starts s) (won s) (lost s)
  | Read i =>
    mkS (now s) (db s)
        (upd (snap s) i (fun k => match db s k with
                                  | Some t => if due (now s) t then Some t else None
                                  | None => None end))
        (sel s) (pend s) (starts s) (won s) (lost s)
  | Adv i k => adv s i k
  | Sel i k => select s i k
  | Wr i => write s i
  | Start i =>
    match pend s i with
    | Some (k, sn) =>
      mkS (now s) (db s) (snap s) (sel s) (upd (pend s) i None)
          (mkEv i k (t_next sn) (t_payload sn) (t_proj sn) :: starts s) (won s) (lost s)
    | None => s
    end
  | Drop i =>
    match pend s i with
    | Some (k, sn) =>
      mkS (now s) (db s) (snap s) (sel s) (upd (pend s) i None) (starts s) (won s) ((k, t_next sn) :: lost s)
    | None => s
    end
  | Crash i =>
    mkS (now s) (db s) (upd (snap s) i (fun _ => None)) (upd (sel s) i None) (upd (pend s) i None) (starts s) (won s)
        (match pend s i with Some (k, sn) => (k, t_next sn) :: lost s | None => lost s end)
  end.

Definition run (s : state) (ops : list op) : state := fold_left step ops s.

End WithNxt.

Definition init (t0 : N) (db0 : nat -> option trig) : state :=
  mkS t0 db0 (fun _ _ => None) (fun _ => None) (fun _ => None) [] [] [].

(* ---- creation (triggers.create_cron_trigger + validate_cron_trigger_input) ----
   pat: None = no pattern (None or ''), Some true = valid, Some false = croniter rejects it.
   Returns the (next_execution_time, remaining_executions) stored, or None = InvalidModelException. *)
Definition count_gt1 (c : option Z) : bool := match c with Some z => (1 <? z)%Z | None => false end.
Definition count_truthy (c : option Z) : bool := match c with Some z => negb (z =? 0)%Z | None => false end.

Definition create (nw : N) (nx : N -> N) (pat : option bool) (first : option N) (count : option Z)
           (start : option N) : option (N * option Z) :=
  let has_pat := match pat with Some _ => true | None => false end in
  match first, has_pat with
  | None, false => None
  | _, _ =>
    if match first with Some f => (f <? nw + 60) || (negb has_pat && count_gt1 count) | None => false end then None
    else if match pat with Some false => true | _ => false end then None
    else match first with
         | Some f => Some (f, if has_pat || count_truthy count then count else Some 1%Z)
         | None => Some (nx (match start with Some st => st | None => nw end), count)
         end
  end.

(* wsme IntegerType(minimum=1) on CronTrigger.remaining_executions *)
Definition rest_count_ok (c : option Z) : bool := match c with Some z => (1 <=? z)%Z | None => true end.

(* ---- executable driver used by the correspondence suite ---- *)

Definition nxt_of (tbl : list (nat * (N * N))) (k : nat) (t : N) : N :=
  match find (fun e => Nat.eqb (fst e) k && (fst (snd e) =? t)) tbl with
  | Some e => snd (snd e)
  | None => t + 1
  end.

Fixpoint db_of (rows : list (nat * trig)) : nat -> option trig :=
  match rows with
  | [] => fun _ => None
  | (k, t) :: r => upd (db_of r) k (Some t)
  end.

Definition zrem (r : option Z) : list Z := match r with Some c => [1%Z; c] | None => [0%Z; 0%Z] end.

Definition db_view (keys : list nat) (s : state) : list Z :=
  flat_map (fun k => match db s k with
                     | Some t => [1%Z; Z.of_N (t_next t)] ++ zrem (t_rem t)
                     | None => [0%Z; 0%Z; 0%Z; 0%Z] end) keys.

Definition obs (keys : list nat) (s : state) (o : op) (s' : state) : list Z :=
  match o with
  | Read i => 1%Z :: map Z.of_nat (filter (fun k => match snap s' i k with Some _ => true | None => false end) keys)
  | Adv i _ | Wr i =>       (* what advance_cron_trigger returns: a start became pending *)
    [2%Z; match pend s i, pend s' i with None, Some _ => 1%Z | _, _ => 0%Z end]
  | Sel i _ => [4%Z; match sel s i, sel s' i with None, Some _ => 1%Z | _, _ => 0%Z end]
  | Start i =>
    if Nat.ltb (length (starts s)) (length (starts s')) then
      match starts s' with
      | e :: _ => [3%Z; Z.of_nat (e_key e); Z.of_N (e_occ e); Z.of_nat (e_payload e); Z.of_nat (e_proj e)]
      | [] => [3%Z]
      end
    else [3%Z]
  | _ => [0%Z]
  end.

Fixpoint trace (byname drc urm : bool) (keys : list nat) (nxt : nat -> N -> N) (s : state) (ops : list op)
  : list (list Z * list Z) :=
  match ops with
  | [] => []
  | o :: r => let s' := step byname drc urm keys nxt s o in
              (obs keys s o s', db_view keys s') :: trace byname drc urm keys nxt s' r
  end.

Definition run_trace (byname drc urm : bool) (keys : list nat) (tbl : list (nat * (N * N))) (t0 : N)
           (rows : list (nat * trig)) (ops : list op) : list (list Z * list Z) :=
  trace byname drc urm keys (nxt_of tbl) (init t0 (db_of rows)) ops.

(* rows of a case: key, (name, project, public, payload), what `create` stored (None = rejected: no row) *)
Definition mk_rows (l : list (nat * (nat * nat * bool * nat) * option (N * option Z))) : list (nat * trig) :=
  flat_map (fun e => match e with
                     | (k, (nm, pr, pb, pl), Some (n, r)) => [(k, mkTrig nm pr pb pl n r)]
                     | (_, _, None) => []
                     end) l.
