(* Model of the reverse workflow controller's choice of the tasks to start.
   Anchors (mistral/workflow/reverse_workflow.py, class ReverseWorkflowController):
     wf_spec.get_task_requires (lang/v2/workflows.py: own requires + task-defaults, without itself) -> rreq
     _build_graph + traversal.dfs_postorder_nodes(graph.reverse(), target)  -> candidates (the set; the order of the
                                                                               real traversal depends on object hashes)
     _is_satisfied_task                                                     -> satisfied
     _find_task_specs_with_satisfied_dependencies                           -> next_tasks
     _find_next_commands + dispatch (one RunTask per returned spec)         -> rstep (Continue)
   Correspondence suite: harness/suites/C04.py (reverse).
   No proofs in this file. *)
From Coq Require Import List Arith Bool String.
Require Import Mistral.Gen.States.
Import ListNotations.

Record rtask := mkRT { rtname : nat; rreq : list nat }.

(* a task execution of a reverse workflow: name and state *)
Record rrow := mkRR { rrname : nat; rrstate : state }.

Definition memb (x : nat) (l : list nat) : bool := existsb (Nat.eqb x) l.

Definition rfind (sp : list rtask) (n : nat) : option rtask := find (fun t => Nat.eqb (rtname t) n) sp.

Definition in_spec (sp : list rtask) (n : nat) : bool := match rfind sp n with Some _ => true | None => false end.

(* _get_dependency_tasks: required names that are tasks of the workflow *)
Definition deps (sp : list rtask) (n : nat) : list nat :=
  match rfind sp n with
  | Some t => filter (in_spec sp) (rreq t)
  | None => []
  end.

(* everything reachable from n along requires edges, n last (a postorder with repetitions) *)
Fixpoint reach (fuel : nat) (sp : list rtask) (n : nat) : list nat :=
  match fuel with
  | O => []
  | S f => flat_map (reach f sp) (deps sp n) ++ [n]
  end.

Definition candidates (sp : list rtask) (target : nat) : list nat :=
  nodup Nat.eq_dec (reach (List.length sp) sp target).

Definition has_row (rows : list rrow) (n : nat) : bool := existsb (fun r => Nat.eqb (rrname r) n) rows.

Definition succeeded (rows : list rrow) (n : nat) : bool :=
  existsb (fun r => Nat.eqb (rrname r) n && state_eqb (rrstate r) SUCCESS) rows.

(* _is_satisfied_task *)
Definition satisfied (sp : list rtask) (rows : list rrow) (n : nat) : bool :=
  negb (has_row rows n) &&
  match rfind sp n with
  | Some t => forallb (succeeded rows) (rreq t)
  | None => true
  end.

(* _find_task_specs_with_satisfied_dependencies *)
Definition next_tasks (sp : list rtask) (rows : list rrow) (target : nat) : list nat :=
  filter (satisfied sp rows) (candidates sp target).

(* a run: the controller is asked to continue (every returned task gets an execution), or a not yet
   completed execution changes its state *)
Inductive rop := Continue | SetState (n : nat) (s : state).

(* completed executions are final (no rerun) *)
Definition set_state (rows : list rrow) (n : nat) (s : state) : list rrow :=
  map (fun r => if Nat.eqb (rrname r) n && negb (is_completed (rrstate r)) then mkRR (rrname r) s else r) rows.

Definition rstep (sp : list rtask) (target : nat) (rows : list rrow) (op : rop) : list rrow :=
  match op with
  | Continue => rows ++ map (fun n => mkRR n RUNNING) (next_tasks sp rows target)
  | SetState n s => set_state rows n s
  end.

Definition rrun (sp : list rtask) (target : nat) (ops : list rop) : list rrow :=
  fold_left (rstep sp target) ops [].

Definition reverse_out (sp : list rtask) (rows : list rrow) (f : list rtask -> list rrow -> list nat * list (nat * bool))
  := f sp rows.

Definition show_rrows (rows : list rrow) : list (nat * string) := map (fun r => (rrname r, state_name (rrstate r))) rows.
