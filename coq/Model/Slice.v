(* Model of the text slicer that cuts one member (workflow / action) out of a
   workbook definition.

   Mirrors  mistral/lang/parser.py:_parse_def_from_wb
            mistral/lang/parser.py:get_workflow_definition  (section "workflows:", item name ++ ":")
            mistral/lang/parser.py:get_action_definition    (section "actions:",   item name ++ ":")
   Driven against the real functions by harness/suites/C14.py (suite `slice`).

   The text is a list of lines (split on "\n", the only separator io.StringIO uses);
   the model works on bytes: whitespace is what str.strip() removes within ASCII.
   No proofs here. *)
From Coq Require Import List String Ascii Bool Arith.
Import ListNotations.
Open Scope string_scope.

(* str.strip()/lstrip() whitespace, ASCII part: 9-13, 28-31, 32 *)
Definition is_ws (c : ascii) : bool :=
  let n := nat_of_ascii c in
  Nat.eqb n 32 || (Nat.leb 9 n && Nat.leb n 13) || (Nat.leb 28 n && Nat.leb n 31).

Definition is_empty (s : string) : bool := match s with "" => true | _ => false end.

(* number of leading whitespace characters = line.index(line.lstrip()) *)
Fixpoint lead_ws (s : string) : nat :=
  match s with
  | String c r => if is_ws c then S (lead_ws r) else 0
  | "" => 0
  end.

Fixpoint drop (n : nat) (s : string) : string :=      (* s[n:] *)
  match n, s with
  | 0, _ => s
  | S n', String _ r => drop n' r
  | S _, "" => ""
  end.

Definition lstrip (s : string) : string := drop (lead_ws s) s.

Fixpoint rstrip (s : string) : string :=
  match s with
  | "" => ""
  | String c r => let r' := rstrip r in
                  if is_empty r' && is_ws c then "" else String c r'
  end.

Definition strip (s : string) : string := rstrip (lstrip s).

Fixpoint is_prefix (p s : string) : bool :=
  match p, s with
  | "", _ => true
  | String a p', String b s' => Ascii.eqb a b && is_prefix p' s'
  | String _ _, "" => false
  end.

(* `sub in s` *)
Fixpoint contains (sub s : string) : bool :=
  is_prefix sub s || match s with "" => false | String _ r => contains sub r end.

Definition starts_hash (s : string) : bool :=
  match s with String c _ => Ascii.eqb c "#" | "" => false end.

(* wb_def[wb_def.index(section):] followed by io.readline(): the lines after the
   first line in which the section name occurs; None = ValueError (substring not found) *)
Fixpoint after_section (sec : string) (lines : list string) : option (list string) :=
  match lines with
  | [] => None
  | l :: r => if contains sec l then Some r else after_section sec r
  end.

(* first loop: the first line whose strip() equals the item name;
   yields (indentation, the line lstripped, the remaining lines) *)
Fixpoint find_item (item : string) (lines : list string) : option (nat * string * list string) :=
  match lines with
  | [] => None
  | l :: r => if String.eqb item (strip l) then Some (lead_ws l, lstrip l, r)
              else find_item item r
  end.

(* second loop: keep lines until one with same/less indentation is found *)
Fixpoint body (ident : nat) (lines : list string) : list string :=
  match lines with
  | [] => []
  | l :: r =>
      let st := strip l in
      if is_empty st then l :: body ident r
      else if starts_hash st then
        (if Nat.ltb (lead_ws l) ident then l else drop ident l) :: body ident r
      else if Nat.ltb ident (lead_ws l) then drop ident l :: body ident r
      else []
  end.

Definition nl : string := String (ascii_of_nat 10) "".

Fixpoint join_lines (ls : list string) : string :=
  match ls with
  | [] => ""
  | l :: r => l ++ nl ++ join_lines r
  end.

(* ''.join(definition).rstrip() + '\n' *)
Definition finish (ls : list string) : string := rstrip (join_lines ls) ++ nl.

Definition slice_lines (sec item : string) (lines : list string) : option (list string) :=
  match after_section sec lines with
  | None => None
  | Some r =>
      Some (match find_item item r with
            | None => []
            | Some (ident, first, rest) => first :: body ident rest
            end)
  end.

Definition slice (sec item : string) (lines : list string) : option string :=
  option_map finish (slice_lines sec item lines).

Definition get_workflow_definition (lines : list string) (name : string) : option string :=
  slice "workflows:" (name ++ ":") lines.

Definition get_action_definition (lines : list string) (name : string) : option string :=
  slice "actions:" (name ++ ":") lines.

(* ---- canonical rendering of a workbook section (used by the theorems) ---- *)

Fixpoint pad (k : nat) : string :=
  match k with 0 => "" | S k' => String " " (pad k') end.

Record member := mkMember { m_name : string; m_body : list string }.

(* body lines are given as they read with the member name in column 0;
   blank lines are not padded *)
Definition indent_line (k : nat) (b : string) : string :=
  if is_empty (strip b) then b else pad k ++ b.

Definition render_member (k : nat) (m : member) : list string :=
  (pad k ++ m_name m ++ ":") :: map (indent_line k) (m_body m).

(* a body line belongs to the member: blank, a comment, or indented *)
Definition body_line_ok (b : string) : bool :=
  is_empty (strip b) || starts_hash (strip b) || Nat.ltb 0 (lead_ws b).

(* the line that ends the member: non-blank, not a comment, not deeper than k *)
Definition ends_member (k : nat) (l : string) : bool :=
  negb (is_empty (strip l)) && negb (starts_hash (strip l)) && Nat.leb (lead_ws l) k.

Definition no_line_is (item : string) (lines : list string) : bool :=
  forallb (fun l => negb (String.eqb item (strip l))) lines.

Definition no_line_contains (sec : string) (lines : list string) : bool :=
  forallb (fun l => negb (contains sec l)) lines.

(* compares with an expected text given as lines (used by the correspondence suite) *)
Definition slice_is (sec item : string) (lines expected : list string) : bool :=
  match slice sec item lines with
  | Some s => String.eqb s (finish expected)
  | None => false
  end.

Definition slice_raises (sec item : string) (lines : list string) : bool :=
  match slice sec item lines with Some _ => false | None => true end.
