(* Model of the text slicer that cuts one member (workflow / action) out of a
   workbook definition.

   Mirrors  mistral/lang/parser.py:_parse_def_from_wb  (the slicer of fix 1e28c643: the section is a key at
              the indentation of the first key; members are the keys directly under it)
            mistral/lang/parser.py:_key_of (the regular expression _KEY_PTRN, implemented here), _indent_of, _is_content
            mistral/lang/parser.py:get_workflow_definition  (section "workflows:", item name ++ ":")
            mistral/lang/parser.py:get_action_definition    (section "actions:",   item name ++ ":")
   Driven against the real functions by harness/suites/C14.py (suite `slice`).

   The text is a list of lines (split on "\n", the only separator io.StringIO uses);
   the model works on bytes: whitespace is what str.strip() removes within ASCII.
   No proofs here. *)
From Coq Require Import List String Ascii Bool Arith.
Import ListNotations.
Open Scope string_scope.

(* str.strip()/lstrip() whitespace, ASCII part: 9-13, 28-31, 32 *)
Definition is_ws (c : ascii) : bool :=
  let n := nat_of_ascii c in
  Nat.eqb n 32 || (Nat.leb 9 n && Nat.leb n 13) || (Nat.leb 28 n && Nat.leb n 31).

Definition is_empty (s : string) : bool := match s with "" => true | _ => false end.

(* number of leading whitespace characters = line.index(line.lstrip()) *)
Fixpoint lead_ws (s : string) : nat :=
  match s with
  | String c r => if is_ws c then S (lead_ws r) else 0
  | "" => 0
  end.

Fixpoint drop (n : nat) (s : string) : string :=      (* s[n:] *)
  match n, s with
  | 0, _ => s
  | S n', String _ r => drop n' r
  | S _, "" => ""
  end.

Definition lstrip (s : string) : string := drop (lead_ws s) s.

Fixpoint rstrip (s : string) : string :=
  match s with
  | "" => ""
  | String c r => let r' := rstrip r in
                  if is_empty r' && is_ws c then "" else String c r'
  end.

Definition strip (s : string) : string := rstrip (lstrip s).

Fixpoint is_prefix (p s : string) : bool :=
  match p, s with
  | "", _ => true
  | String a p', String b s' => Ascii.eqb a b && is_prefix p' s'
  | String _ _, "" => false
  end.

(* `sub in s` *)
Fixpoint contains (sub s : string) : bool :=
  is_prefix sub s || match s with "" => false | String _ r => contains sub r end.

Definition starts_hash (s : string) : bool :=
  match s with String c _ => Ascii.eqb c "#" | "" => false end.

(* ---- _key_of: the regular expression _KEY_PTRN on one line (without its newline):
   leading blanks, an optional quote (double or single), a lazy non-empty run of characters
   other than the two quotes, hash and colon, the same quote again, blanks, a colon, then a
   blank or the end ---- *)

Definition is_quote (c : ascii) : bool :=
  let n := nat_of_ascii c in Nat.eqb n 34 || Nat.eqb n 39.
Definition is_delim (c : ascii) : bool :=
  is_quote c || Ascii.eqb c "#" || Ascii.eqb c ":".

(* longest prefix without quote, hash, colon; and the rest *)
Fixpoint span_key (s : string) : string * string :=
  match s with
  | "" => ("", "")
  | String c r => if is_delim c then ("", s)
                  else let (a, b) := span_key r in (String c a, b)
  end.

(* after the colon: whitespace or the end of the line *)
Definition after_colon_ok (s : string) : bool :=
  match s with "" => true | String c _ => is_ws c end.

(* blanks, a colon, then a blank or the end *)
Definition colon_follows (s : string) : bool :=
  match lstrip s with
  | String c r => Ascii.eqb c ":" && after_colon_ok r
  | "" => false
  end.

(* the match that starts after the leading whitespace *)
Definition key_main (r : string) : option string :=
  match r with
  | "" => None
  | String q r' =>
      if is_quote q then
        let (body, rest) := span_key r' in
        match rest with
        | String q' after =>
            if Ascii.eqb q q' && negb (is_empty body) && colon_follows after
            then Some (body ++ ":") else None
        | "" => None
        end
      else
        let (body, rest) := span_key r in
        match rest with
        | String c after =>
            if Ascii.eqb c ":" && after_colon_ok after && negb (is_empty (rstrip body))
            then Some (rstrip body ++ ":") else None
        | "" => None
        end
  end.

Fixpoint nth_char (n : nat) (s : string) : option ascii :=
  match s, n with
  | "", _ => None
  | String c _, 0 => Some c
  | String _ r, S n' => nth_char n' r
  end.

(* a line that is only blanks, a colon, ...: the regex engine gives the last leading blank back to the key group *)
Definition key_blank (l : string) : option string :=
  match lead_ws l, lstrip l with
  | S n, String c after =>
      if Ascii.eqb c ":" && after_colon_ok after
      then match nth_char n l with Some w => Some (String w ":") | None => None end
      else None
  | _, _ => None
  end.

Definition key_of (l : string) : option string :=
  match key_main (lstrip l) with
  | Some k => Some k
  | None => key_blank l
  end.

Definition key_is (l item : string) : bool :=
  match key_of l with Some k => String.eqb k item | None => false end.

(* _is_content: not blank, not a comment, not the document marker *)
Definition is_content (l : string) : bool :=
  let t := strip l in
  negb (is_empty t) && negb (starts_hash t) && negb (String.eqb t "---").

(* first loop: the section is a key at the indentation of the first content line;
   yields (that indentation, the lines after the section line); None = ValueError *)
Fixpoint find_section (sec : string) (top : option nat) (lines : list string)
  : option (nat * list string) :=
  match lines with
  | [] => None
  | l :: r =>
      if negb (is_content l) then find_section sec top r
      else
        let t := match top with Some t => t | None => lead_ws l end in
        if key_is l sec && Nat.eqb (lead_ws l) t then Some (t, r)
        else find_section sec (Some t) r
  end.

Inductive found :=
| Found (ident : nat) (first : string) (rest : list string)
| NotFound (rest : list string).     (* the section is over (rest = lines after the line that ended it) or the text is *)

(* second loop: members are the keys at the indentation of the first content line under the section *)
Fixpoint find_member (item : string) (top : nat) (mi : option nat) (lines : list string) : found :=
  match lines with
  | [] => NotFound []
  | l :: r =>
      if negb (is_content l) then find_member item top mi r
      else if Nat.leb (lead_ws l) top then NotFound r
      else
        let m := match mi with Some m => m | None => lead_ws l end in
        if key_is l item && Nat.eqb (lead_ws l) m then Found m (lstrip l) r
        else find_member item top (Some m) r
  end.

(* third loop: keep lines until one with same/less indentation is found *)
Fixpoint body (ident : nat) (lines : list string) : list string :=
  match lines with
  | [] => []
  | l :: r =>
      let st := strip l in
      if is_empty st then l :: body ident r
      else if starts_hash st then
        (if Nat.ltb (lead_ws l) ident then l else drop ident l) :: body ident r
      else if Nat.ltb ident (lead_ws l) then drop ident l :: body ident r
      else []
  end.

Definition nl : string := String (ascii_of_nat 10) "".

Fixpoint join_lines (ls : list string) : string :=
  match ls with
  | [] => ""
  | l :: r => l ++ nl ++ join_lines r
  end.

(* ''.join(definition).rstrip() + '\n' *)
Definition finish (ls : list string) : string := rstrip (join_lines ls) ++ nl.

Definition slice_lines (sec item : string) (lines : list string) : option (list string) :=
  match find_section sec None lines with
  | None => None
  | Some (top, r) =>
      Some (match find_member item top None r with
            | Found ident first rest => first :: body ident rest
            | NotFound rest => body 0 rest          (* the third loop still runs, with ident = 0 *)
            end)
  end.

Definition slice (sec item : string) (lines : list string) : option string :=
  option_map finish (slice_lines sec item lines).

Definition get_workflow_definition (lines : list string) (name : string) : option string :=
  slice "workflows:" (name ++ ":") lines.

Definition get_action_definition (lines : list string) (name : string) : option string :=
  slice "actions:" (name ++ ":") lines.

(* ---- canonical rendering of a workbook section (used by the theorems) ---- *)

Fixpoint pad (k : nat) : string :=
  match k with 0 => "" | S k' => String " " (pad k') end.

Record member := mkMember { m_name : string; m_body : list string }.

(* body lines are given as they read with the member name in column 0;
   blank lines are not padded *)
Definition indent_line (k : nat) (b : string) : string :=
  if is_empty (strip b) then b else pad k ++ b.

Definition render_member (k : nat) (m : member) : list string :=
  (pad k ++ m_name m ++ ":") :: map (indent_line k) (m_body m).

(* a body line belongs to the member: blank, a comment, or indented *)
Definition body_line_ok (b : string) : bool :=
  is_empty (strip b) || starts_hash (strip b) || Nat.ltb 0 (lead_ws b).

(* the line that ends the member: non-blank, not a comment, not deeper than k *)
Definition ends_member (k : nat) (l : string) : bool :=
  negb (is_empty (strip l)) && negb (starts_hash (strip l)) && Nat.leb (lead_ws l) k.

(* indentation of the first content line *)
Fixpoint first_indent (lines : list string) : option nat :=
  match lines with
  | [] => None
  | l :: r => if is_content l then Some (lead_ws l) else first_indent r
  end.

Definition indent_is (o : option nat) (k : nat) : bool :=
  match o with Some t => Nat.eqb t k | None => true end.

(* the lines before the section line: none of them is the section key at the top indentation *)
Definition header_ok (sec : string) (top : nat) (header : list string) : bool :=
  indent_is (first_indent header) top &&
  forallb (fun l => negb (is_content l) || negb (key_is l sec && Nat.eqb (lead_ws l) top)) header.

(* the lines between the section line and the member: they stay inside the section (deeper than
   top), the members among them are at indentation k and none of those is called like the item *)
Definition before_ok (item : string) (top k : nat) (before : list string) : bool :=
  indent_is (first_indent before) k &&
  forallb (fun l => negb (is_content l) ||
                    (Nat.ltb top (lead_ws l) && negb (key_is l item && Nat.eqb (lead_ws l) k))) before.

(* compares with an expected text given as lines (used by the correspondence suite) *)
Definition slice_is (sec item : string) (lines expected : list string) : bool :=
  match slice sec item lines with
  | Some s => String.eqb s (finish expected)
  | None => false
  end.

Definition slice_raises (sec item : string) (lines : list string) : bool :=
  match slice sec item lines with Some _ => false | None => true end.
