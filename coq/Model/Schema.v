(* Interpreter for the JSON-schema subset used by the Mistral spec classes.

   Mirrors  jsonschema.validate(data, cls.get_schema()) as called by
            mistral/lang/base.py:BaseSpec.validate_schema
   for the keywords that occur in the schemas of mistral/lang/v2/*.py and
   mistral/lang/types.py (translate/tr_schemas.py fails closed on any other keyword):
   type, enum, minLength, pattern, minimum, minProperties, maxProperties, required,
   properties, patternProperties, additionalProperties, items, uniqueItems, minItems,
   oneOf, anyOf, not.   The schemas themselves are generated into Gen/Schemas.v.
   Driven against the real validator by harness/suites/C14.py (suite `schema`, on
   the instances the real constructors pass to jsonschema.validate).

   Regular expressions are an oracle: `re p s` = bool(re.search(pattern number p, s)),
   supplied per case by the harness (table computed with Python's `re`).
   No proofs here. *)
From Coq Require Import List String ZArith Bool Arith.
Require Import Mistral.Model.Jv.
Import ListNotations.
Open Scope string_scope.

Inductive jtype := TNull | TBool | TInt | TNum | TStr | TArr | TObj.

Inductive kw : Type :=
| KType (t : jtype)
| KEnum (vals : list jv)
| KMinLength (n : nat)
| KPattern (p : nat)
| KMinimum (m : Z)
| KMinProps (n : nat)
| KMaxProps (n : nat)
| KRequired (ks : list string)
| KProps (ps : list (string * list kw))
| KPatProps (ps : list (nat * list kw))
| KAddl (names : list string) (pats : list nat) (s : option (list kw))   (* None = false *)
| KItems (s : list kw)
| KUnique
| KMinItems (n : nat)
| KOneOf (ss : list (list kw))
| KAnyOf (ss : list (list kw))
| KNot (s : list kw).

Definition schema := list kw.

Definition has_type (t : jtype) (v : jv) : bool :=
  match t, v with
  | TNull, JNull => true
  | TBool, JBool _ => true
  | TInt, JNum _ d => Pos.eqb d 1
  | TNum, JNum _ _ => true
  | TStr, JStr _ => true
  | TArr, JArr _ => true
  | TObj, JObj _ => true
  | _, _ => false
  end.

Fixpoint uniq (l : list jv) : bool :=
  match l with
  | [] => true
  | x :: r => negb (existsb (jv_eqb x) r) && uniq r
  end.

Definition str_in (k : string) (ks : list string) : bool := existsb (String.eqb k) ks.

Fixpoint count_true (l : list bool) : nat :=
  match l with [] => 0 | b :: r => (if b then 1 else 0) + count_true r end.

Section Validate.
  Variable re : nat -> string -> bool.

  Fixpoint check (k : kw) (v : jv) {struct k} : bool :=
    match k with
    | KType t => has_type t v
    | KEnum vals => existsb (jv_eqb v) vals
    | KMinLength n => match v with JStr s => Nat.leb n (String.length s) | _ => true end
    | KPattern p => match v with JStr s => re p s | _ => true end
    | KMinimum m => match v with JNum n _ => Z.leb m n | _ => true end
    | KMinProps n => match v with JObj kvs => Nat.leb n (List.length kvs) | _ => true end
    | KMaxProps n => match v with JObj kvs => Nat.leb (List.length kvs) n | _ => true end
    | KRequired ks =>
        match v with
        | JObj kvs => forallb (fun k => match lookup k kvs with Some _ => true | None => false end) ks
        | _ => true
        end
    | KProps ps =>
        match v with
        | JObj kvs =>
            forallb (fun p => match lookup (fst p) kvs with
                              | Some x => forallb (fun k' => check k' x) (snd p)
                              | None => true
                              end) ps
        | _ => true
        end
    | KPatProps ps =>
        match v with
        | JObj kvs =>
            forallb (fun p =>
                       forallb (fun kx => if re (fst p) (fst kx)
                                          then forallb (fun k' => check k' (snd kx)) (snd p)
                                          else true) kvs) ps
        | _ => true
        end
    | KAddl names pats s =>
        match v with
        | JObj kvs =>
            forallb (fun kx =>
                       if str_in (fst kx) names || existsb (fun p => re p (fst kx)) pats then true
                       else match s with
                            | None => false
                            | Some s' => forallb (fun k' => check k' (snd kx)) s'
                            end) kvs
        | _ => true
        end
    | KItems s => match v with
                  | JArr l => forallb (fun x => forallb (fun k' => check k' x) s) l
                  | _ => true
                  end
    | KUnique => match v with JArr l => uniq l | _ => true end
    | KMinItems n => match v with JArr l => Nat.leb n (List.length l) | _ => true end
    | KOneOf ss => Nat.eqb (count_true (map (fun s => forallb (fun k' => check k' v) s) ss)) 1
    | KAnyOf ss => existsb (fun s => forallb (fun k' => check k' v) s) ss
    | KNot s => negb (forallb (fun k' => check k' v) s)
    end.

  Definition validate (s : schema) (v : jv) : bool := forallb (fun k => check k v) s.

End Validate.

(* oracle from rows (subject, numbers of the patterns that match it); default false *)
Fixpoint re_of_rows (t : list (string * list nat)) (p : nat) (s : string) : bool :=
  match t with
  | [] => false
  | (s', ps) :: r => if String.eqb s s' then existsb (Nat.eqb p) ps else re_of_rows r p s
  end.

(* oracle from a table of (pattern number, subject, result); default false *)
Fixpoint re_of_table (t : list (nat * string * bool)) (p : nat) (s : string) : bool :=
  match t with
  | [] => false
  | (p', s', b) :: r => if Nat.eqb p p' && String.eqb s s' then b else re_of_table r p s
  end.
