(* JSON-like values: what safe_yaml.load returns for a definition whose mapping
   keys are all strings (and what is stored in the `spec` columns).
   Used by Model/Norm.v, Model/Schema.v, Model/Build.v (property C14).
   Numbers are exact rationals n/d in lowest terms (ints have d = 1); Python's
   1 == 1.0 is therefore structural equality. Mapping = association list in
   insertion order (Python dict order). Documents with non-string keys, dates,
   binaries, sets, nan/inf are outside this type: the suite counts them as
   `outside the model class` and judges them by the oracle only.
   No proofs here. *)
From Coq Require Import List String ZArith Bool.
Import ListNotations.
Open Scope string_scope.

Inductive jv : Type :=
| JNull
| JBool (b : bool)
| JNum (n : Z) (d : positive)
| JStr (s : string)
| JArr (l : list jv)
| JObj (kvs : list (string * jv)).

Definition obj := list (string * jv).

Fixpoint lookup (k : string) (kvs : obj) : option jv :=
  match kvs with
  | [] => None
  | (k', v) :: r => if String.eqb k k' then Some v else lookup k r
  end.

(* d[k] = v : replace in place, or append *)
Fixpoint set (k : string) (v : jv) (kvs : obj) : obj :=
  match kvs with
  | [] => [(k, v)]
  | (k', v') :: r => if String.eqb k k' then (k', v) :: r else (k', v') :: set k v r
  end.

Definition jget (k : string) (d : jv) : option jv :=
  match d with JObj kvs => lookup k kvs | _ => None end.

(* d[k] = v when d is a dict; other values are left alone (the code would raise:
   Model/Build.v states those demands) *)
Definition jset (k : string) (v : jv) (d : jv) : jv :=
  match d with JObj kvs => JObj (set k v kvs) | _ => d end.

Definition is_obj (d : jv) : bool := match d with JObj _ => true | _ => false end.
Definition is_str (d : jv) : bool := match d with JStr _ => true | _ => false end.
Definition is_arr (d : jv) : bool := match d with JArr _ => true | _ => false end.

(* Python truthiness of a loaded value *)
Definition truthy (d : jv) : bool :=
  match d with
  | JNull => false
  | JBool b => b
  | JNum n _ => negb (Z.eqb n 0)
  | JStr s => match s with "" => false | _ => true end
  | JArr l => match l with [] => false | _ => true end
  | JObj k => match k with [] => false | _ => true end
  end.

Fixpoint jv_eqb (a b : jv) {struct a} : bool :=
  match a, b with
  | JNull, JNull => true
  | JBool x, JBool y => Bool.eqb x y
  | JNum n d, JNum n' d' => Z.eqb n n' && Pos.eqb d d'
  | JStr s, JStr t => String.eqb s t
  | JArr l, JArr l' =>
      (fix go (l l' : list jv) : bool :=
         match l, l' with
         | [], [] => true
         | x :: r, y :: r' => jv_eqb x y && go r r'
         | _, _ => false
         end) l l'
  | JObj k, JObj k' =>
      (fix go (k k' : list (string * jv)) : bool :=
         match k, k' with
         | [], [] => true
         | (s, x) :: r, (t, y) :: r' => String.eqb s t && jv_eqb x y && go r r'
         | _, _ => false
         end) k k'
  | _, _ => false
  end.
