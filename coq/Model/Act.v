(* Model of the component-level decision cores behind property C06
   (duplicate / redelivered messages act once).

   Anchors (source function -> model definition):
     mistral/executors/default_executor.py:DefaultExecutor._do_run_action  -> do_run_action
         (incl. the nested send_error_back                                  -> send_error_back)
     mistral/executors/executor_server.py:ExecutorServer.run_action         -> derive_redelivered
         (`redelivered = rpc_ctx.redelivered or False`)
     mistral/engine/actions.py:RegularAction.complete                       -> action_complete
     mistral/engine/tasks.py:Task.complete (guards before the completion logic) -> task_complete
     mistral/engine/tasks.py:RegularTask._run_new                           -> run_new
     mistral/engine/default_engine.py:DefaultEngine.start_workflow
         (wf_ex_id given, DBDuplicateEntryError path)                       -> start_workflow
   Correspondence suite: harness/suites/C06.py (executor, executor_server, action_complete,
   task_complete, run_new, start_workflow_id).
   The state predicates (is_completed, is_idle, is_skipped) are the ones translated from
   mistral/workflow/states.py (Gen/States.v).
   No proofs in this file. *)
From Coq Require Import List Bool String Arith.
Require Import Mistral.Gen.States.
Import ListNotations.

(* ------------------------------------------------------------------ *)
(* Executor: DefaultExecutor._do_run_action                            *)

(* what action.run does (inside the worker thread) *)
Inductive act_outcome :=
| RetOk        (* returns Result(data=..) *)
| RetErr       (* returns Result(error=..) *)
| RetCancel    (* returns Result(error=.., cancel=True): is_error() is False for it *)
| RetPlain     (* returns a value that is not a Result: wrapped into Result(data=..) *)
| Raises       (* raises *)
| TimesOut.    (* still running when join(timeout) returns: joined, then "Timeout" is raised *)

(* what one call of engine_client.on_action_complete does *)
Inductive eng_outcome := EOk | EMistral (* MistralException *) | EOther (* any other Exception *).

(* class of a Result object *)
Inductive res_kind := KOk | KErr | KCancel.

(* how _do_run_action ends *)
Inductive returned :=
| RNone                      (* returns None *)
| RResult (k : res_kind)     (* returns a Result *)
| RRaiseMistral              (* a MistralException escapes *)
| RRaiseOther.               (* another exception escapes *)

Record exec_in := mkExecIn {
  redelivered : bool;
  safe_rerun  : bool;
  has_id      : bool;          (* action_ex_id is truthy *)
  outcome     : act_outcome;
  sync        : bool;          (* action.is_sync() *)
  eng1        : eng_outcome;   (* outcome of the first engine-client call, if one is made *)
  eng2        : eng_outcome    (* outcome of the second one, if one is made *)
}.

Record exec_out := mkExecOut {
  runs  : nat;                              (* how many times action.run was invoked *)
  calls : list (res_kind * eng_outcome);    (* on_action_complete calls made, in order, with what each did *)
  ret   : returned
}.

Definition res_kind_eqb (a b : res_kind) : bool :=
  match a, b with KOk, KOk => true | KErr, KErr => true | KCancel, KCancel => true | _, _ => false end.

Definition eng_is_ok (e : eng_outcome) : bool := match e with EOk => true | _ => false end.

(* send_error_back(msg) after `prior` calls and `n` runs; e = what the engine call does *)
Definition send_error_back (hasid : bool) (e : eng_outcome) (n : nat)
           (prior : list (res_kind * eng_outcome)) : exec_out :=
  if hasid then
    mkExecOut n (prior ++ [(KErr, e)])
              (match e with EOk => RNone | EMistral => RRaiseMistral | EOther => RRaiseOther end)
  else mkExecOut n prior (RResult KErr).

Definition kind_of (o : act_outcome) : res_kind :=
  match o with RetErr => KErr | RetCancel => KCancel | _ => KOk end.

Definition do_run_action (i : exec_in) : exec_out :=
  if redelivered i && negb (safe_rerun i) then
    send_error_back (has_id i) (eng1 i) 0 []
  else
    match outcome i with
    | Raises | TimesOut => send_error_back (has_id i) (eng1 i) 1 []
    | o =>
      let k := kind_of o in
      (* `if action_ex_id and (action.is_sync() or result.is_error())` *)
      if has_id i && (sync i || res_kind_eqb k KErr) then
        match eng1 i with
        | EOk => mkExecOut 1 [(k, EOk)] (RResult k)
        | EMistral => send_error_back (has_id i) (eng2 i) 1 [(k, EMistral)]
        | EOther => mkExecOut 1 [(k, EOther)] (RResult k)      (* logged only *)
        end
      else mkExecOut 1 [] (RResult k)
    end.

(* ExecutorServer.run_action: `rpc_ctx.redelivered or False`; None = attribute is None *)
Definition derive_redelivered (v : option bool) : bool :=
  match v with Some true => true | _ => false end.

(* the complete input domain (finite) *)
Definition bools := [false; true].
Definition all_outcomes := [RetOk; RetErr; RetCancel; RetPlain; Raises; TimesOut].
Definition all_eng := [EOk; EMistral; EOther].

Definition all_exec_in : list exec_in :=
  flat_map (fun r => flat_map (fun s => flat_map (fun h => flat_map (fun o => flat_map (fun y =>
  flat_map (fun e1 => map (fun e2 => mkExecIn r s h o y e1 e2) all_eng) all_eng) bools) all_outcomes)
  bools) bools) bools.

(* counters used by the statements *)
Definition ok_calls (o : exec_out) : nat := List.length (filter (fun c => eng_is_ok (snd c)) (calls o)).
Definition err_calls (o : exec_out) : nat := List.length (filter (fun c => res_kind_eqb (fst c) KErr) (calls o)).
Definition returns_error (o : exec_out) : bool :=
  match ret o with RResult KErr => true | _ => false end.

(* printers for the correspondence suite *)
Definition kind_name (k : res_kind) : string :=
  match k with KOk => "ok" | KErr => "err" | KCancel => "cancel" end.
Definition eng_name (e : eng_outcome) : string :=
  match e with EOk => "ok" | EMistral => "mistral" | EOther => "other" end.
Definition ret_name (r : returned) : string :=
  match r with RNone => "None" | RResult k => append "R" (kind_name k)
             | RRaiseMistral => "raiseM" | RRaiseOther => "raiseO" end.
Fixpoint calls_str (l : list (res_kind * eng_outcome)) : string :=
  match l with
  | [] => ""
  | (k, e) :: t => append (kind_name k) (append ":" (append (eng_name e) (append ";" (calls_str t))))
  end.
Definition show_exec (o : exec_out) : (nat * string * string) := (runs o, calls_str (calls o), ret_name (ret o)).

(* ------------------------------------------------------------------ *)
(* Engine: RegularAction.complete (accept-once)                        *)

(* the columns of an action execution row the method touches; a result's payload is
   abstracted to a number so that "whose data was taken" is observable *)
Record action_row := mkARow {
  a_state    : state;
  a_accepted : bool;
  a_output   : option nat
}.

Definition state_of_kind (k : res_kind) : state :=
  match k with KOk => SUCCESS | KCancel => CANCELLED | KErr => ERROR end.

(* returns the row and whether ValueError("... already completed") was raised *)
Definition action_complete (r : action_row) (res : res_kind * nat) : action_row * bool :=
  if is_completed (a_state r) then (r, true)
  else (mkARow (state_of_kind (fst res)) true (Some (snd res)), false).

(* deliver a sequence of results to one action execution; each delivery is its own
   transaction, a raising one is rolled back (row unchanged). Returns the final row and
   the number of accepted (non-raising) deliveries. *)
Fixpoint deliver_all (r : action_row) (l : list (res_kind * nat)) : action_row * nat :=
  match l with
  | [] => (r, 0)
  | x :: t =>
    let '(r1, raised) := action_complete r x in
    let '(r2, n) := deliver_all r1 t in
    (r2, if raised then n else S n)
  end.

(* ------------------------------------------------------------------ *)
(* Engine: Task.complete guards, RegularTask._run_new                   *)

Inductive complete_path :=
| Ignored      (* `if self.is_completed() and not states.is_skipped(state): return` *)
| CasLost      (* set_state returned False: another process changed the row *)
| Logic.       (* publishing, continue_workflow, dispatch of follow-up commands run *)

(* cur = task_ex.state; new = requested state; same_info = state_info equal to the stored one;
   cas_ok = whether update_task_execution_state changes the row *)
Definition task_complete (cur new : state) (same_info cas_ok : bool) : state * complete_path :=
  if is_completed cur && negb (is_skipped new) then (cur, Ignored)
  else if state_eqb cur new && same_info then (cur, Logic)       (* set_state: nothing to change, returns True *)
  else if cas_ok then (new, Logic) else (cur, CasLost).

(* _run_new: pol = what the task state is after _before_task_start (None: left RUNNING);
   returns the state and how many times _schedule_actions ran *)
Definition run_new (waiting : bool) (pol : option state) (cur : state) : state * nat :=
  if waiting then (cur, 0)
  else if is_idle cur then
    match pol with
    | None => (RUNNING, 1)
    | Some s => if state_eqb s RUNNING then (RUNNING, 1) else (s, 0)
    end
  else (cur, 0).

(* a sequence of first-run start_task deliveries for one task *)
Fixpoint run_new_all (cur : state) (l : list (bool * option state)) : state * nat :=
  match l with
  | [] => (cur, 0)
  | (w, p) :: t =>
    let '(s1, n1) := run_new w p cur in
    let '(s2, n2) := run_new_all s1 t in
    (s2, n1 + n2)
  end.

(* a sequence of completion requests for one task (what on_action_complete / complete_task pass) *)
Fixpoint complete_all (cur : state) (l : list (state * bool * bool)) : state * nat :=
  match l with
  | [] => (cur, 0)
  | (new, si, cas) :: t =>
    let '(s1, p) := task_complete cur new si cas in
    let '(s2, n) := complete_all s1 t in
    (s2, match p with Logic => S n | _ => n end)
  end.

(* ------------------------------------------------------------------ *)
(* Engine: start_workflow carrying an execution id                      *)

(* the table of workflow executions: (id, payload) in creation order; payload abstracts
   the input the execution was created with *)
Definition wf_table := list (nat * nat).

Fixpoint find_wf (id : nat) (t : wf_table) : option nat :=
  match t with
  | [] => None
  | (i, p) :: r => if Nat.eqb i id then Some p else find_wf id r
  end.

(* start_workflow(wf_ex_id=id, input=p): the insert violates the primary key when the id
   exists -> DBDuplicateEntryError -> the transaction is rolled back and the existing row is
   returned.  Returns (table, payload of the returned execution, created?) *)
Definition start_workflow (t : wf_table) (id p : nat) : wf_table * nat * bool :=
  match find_wf id t with
  | Some q => (t, q, false)
  | None => (t ++ [(id, p)], p, true)
  end.

Fixpoint start_all (t : wf_table) (l : list (nat * nat)) : wf_table * list (nat * bool) :=
  match l with
  | [] => (t, [])
  | (id, p) :: r =>
    let '(t1, q, c) := start_workflow t id p in
    let '(t2, outs) := start_all t1 r in
    (t2, (q, c) :: outs)
  end.

Definition count_id (id : nat) (t : wf_table) : nat :=
  List.length (filter (fun x => Nat.eqb (fst x) id) t).
