(* Control-flow core of the mistral engine as an executable state machine.

   Class modelled ("core"): ONE direct-workflow execution; tasks run one action each
   (outcome class given by an oracle per attempt); on-success / on-error / on-complete
   clauses whose entries target a task or an engine command (fail / succeed / pause /
   noop) and carry a guard whose value is part of the program (true / false / raises);
   joins (all / one / N).  Data flow (publish, contexts, output expressions), policies,
   with-items and sub-workflows are NOT in this model (see DESIGN.md 5, MANIFEST notes):
   they are covered by the component models (Ctx, Items, Policy, Act) and by the
   implementation-side oracles of the trace harness.

   One event = one committed transaction of the real engine, or one post-commit queue
   run as a whole, exactly as harness/engine_driver.py fires them:
     mistral/engine/default_engine.py  DefaultEngine.start_workflow / start_task /
        on_action_complete / pause_workflow / resume_workflow / stop_workflow / rerun_workflow
     mistral/engine/workflows.py       Workflow.start/stop/pause/resume/rerun/set_state/
        check_and_complete/_succeed/_fail/_cancel_workflow/_continue_workflow
     mistral/engine/workflow_handler.py check_and_complete, stop/pause/resume/rerun_workflow
     mistral/engine/task_handler.py    run_task, _on_action_complete, force_fail_task,
        continue_task, complete_task, _check_affected_tasks, _refresh_task_state, create_task
     mistral/engine/tasks.py           Task.defer/set_state/complete, RegularTask._run_new/
        _run_existing/_reset_actions/_schedule_actions/on_action_complete
     mistral/engine/dispatcher.py      _rearrange_commands, _process_commands, backlog
     mistral/engine/actions.py         RegularAction.complete (accept once) / schedule
     mistral/workflow/direct_workflow.py _find_next_tasks, _find_next_commands,
        _get_join_logical_state, _get_induced_join_state, _possible_route,
        find_indirectly_affected_task_executions, all_errors_handled, may_complete_workflow
     mistral/workflow/base.py          continue_workflow, rerun_tasks, skip_tasks, any_cancels
   Correspondence suite: harness/suites/engine_trace.py (used by C01-C04, C06, C10-C12).
   No proofs in this file. *)
From Coq Require Import List Bool Arith.
Require Import Mistral.Gen.States Mistral.Model.PySort.
Import ListNotations.

(* ---------------------------------------------------------------- programs *)
Inductive target := TTask (n : nat) | TFail | TSucceed | TPause | TNoop.
Inductive guard := GTrue | GFalse | GRaise.
Inductive joink := JNone | JAll | JOne | JNum (k : nat).
Inductive outcome := OOk | OErr | OCancel.
Inductive evkind := OnSuccess | OnError | OnComplete | OnSkip.

Record tspec := mkTspec {
  ts_join : joink;
  ts_succ : list (target * guard);
  ts_err : list (target * guard);
  ts_compl : list (target * guard);
  ts_skip : list (target * guard);
  ts_outs : list outcome        (* outcome of attempt 0,1,2,... ; OOk beyond the list *)
}.
Definition spec := list tspec.

Definition dummy_tspec := mkTspec JNone [] [] [] [] [].
Definition get_ts (sp : spec) (n : nat) : tspec := nth n sp dummy_tspec.

(* ------------------------------------------------------------------- state *)
Record trow := mkTrow {
  t_name : nat;                       (* index into the spec *)
  t_state : state;
  t_processed : bool;
  t_next : list (nat * evkind);       (* next_tasks as saved by Task.complete *)
  t_has_next : bool;
  t_err_handled : bool;
  t_unique : bool;                    (* has a unique_key (join) *)
  t_uid : nat;                        (* position of the row's random id in the DB's id order *)
  t_trig : list nat                   (* runtime_context['triggered_by']: ids of the task executions that triggered it *)
}.

Record arow := mkArow { a_task : nat; a_state : state; a_accepted : bool }.

(* workflow commands (mistral/workflow/commands.py) *)
Inductive cmd :=
| CRunTask (name : nat) (ev : evkind) (waiting : bool) (trig : option nat)
| CRunExisting (tid : nat) (reset rerun : bool)
| CSkip (tid : nat)
| CSetState (s : state)               (* fail / succeed / pause *)
| CNoop.

(* post-commit operations *)
Inductive op :=
| OStartTask (tid : nat) (first rerun reset : bool)
| ORunAction (aid : nat)
| OCheck
| OSchedRefresh (tid : nat).

Inductive item :=
| IStartTask (tid : nat) (first rerun reset : bool)   (* rpc start_task *)
| IExec (aid : nat)                                    (* executor request *)
| IResult (aid : nat) (r : outcome)                    (* rpc on_action_complete *)
| IPtq (ops : list op)                                 (* one post-commit queue *)
| IRefresh (tid : nat).                                (* scheduler job _refresh_task_state *)

Record st := mkSt {
  wf_created : bool;
  wf_state : state;
  backlog : list cmd;
  tasks : list trow;
  acts : list arow;
  calls : list nat;                   (* per task name: action runs so far (oracle attempt no.) *)
  pend : list item;
  uids : list nat                     (* oracle: k-th created task row gets id rank (nth k uids k); the DB
                                         lists rows ORDER BY id (random uuids), see find_last_by_name *)
}.

Definition init_with (u : list nat) : st := mkSt false IDLE [] [] [] [] [] u.
Definition init : st := init_with [].
Definition next_uid (s : st) : nat := nth (length (tasks s)) (uids s) (length (tasks s)).

Inductive outc := Ok | Declared | Internal | NotEnabled.

(* ----------------------------------------------------------------- helpers *)
Fixpoint set_nth {A} (n : nat) (x : A) (l : list A) : list A :=
  match l, n with
  | [], _ => []
  | _ :: r, O => x :: r
  | y :: r, S k => y :: set_nth k x r
  end.

Definition dummy_trow := mkTrow 0 Invalid false [] false false false 0 [].
Definition get_task (s : st) (tid : nat) : trow := nth tid (tasks s) dummy_trow.
Definition dummy_arow := mkArow 0 Invalid false.
Definition get_act (s : st) (aid : nat) : arow := nth aid (acts s) dummy_arow.

Definition upd_task (s : st) (tid : nat) (r : trow) : st :=
  mkSt (wf_created s) (wf_state s) (backlog s) (set_nth tid r (tasks s)) (acts s) (calls s) (pend s) (uids s).
Definition upd_act (s : st) (aid : nat) (r : arow) : st :=
  mkSt (wf_created s) (wf_state s) (backlog s) (tasks s) (set_nth aid r (acts s)) (calls s) (pend s) (uids s).
Definition set_wf_state (s : st) (x : state) : st :=
  mkSt (wf_created s) x (backlog s) (tasks s) (acts s) (calls s) (pend s) (uids s).
Definition set_backlog (s : st) (b : list cmd) : st :=
  mkSt (wf_created s) (wf_state s) b (tasks s) (acts s) (calls s) (pend s) (uids s).
Definition add_task (s : st) (r : trow) : st :=
  mkSt (wf_created s) (wf_state s) (backlog s) (tasks s ++ [r]) (acts s) (calls s) (pend s) (uids s).
Definition add_act (s : st) (r : arow) : st :=
  mkSt (wf_created s) (wf_state s) (backlog s) (tasks s) (acts s ++ [r]) (calls s) (pend s) (uids s).
Definition add_pend (s : st) (i : item) : st :=
  mkSt (wf_created s) (wf_state s) (backlog s) (tasks s) (acts s) (calls s) (pend s ++ [i]) (uids s).
Definition set_pend (s : st) (p : list item) : st :=
  mkSt (wf_created s) (wf_state s) (backlog s) (tasks s) (acts s) (calls s) p (uids s).
Definition set_calls (s : st) (c : list nat) : st :=
  mkSt (wf_created s) (wf_state s) (backlog s) (tasks s) (acts s) c (pend s) (uids s).

Definition t_set_state (r : trow) (x : state) : trow :=
  mkTrow (t_name r) x (t_processed r) (t_next r) (t_has_next r) (t_err_handled r) (t_unique r) (t_uid r) (t_trig r).
Definition t_set_trig (r : trow) (l : list nat) : trow :=
  mkTrow (t_name r) (t_state r) (t_processed r) (t_next r) (t_has_next r) (t_err_handled r) (t_unique r) (t_uid r) l.
Definition t_set_processed (r : trow) (b : bool) : trow :=
  mkTrow (t_name r) (t_state r) b (t_next r) (t_has_next r) (t_err_handled r) (t_unique r) (t_uid r) (t_trig r).

(* a transaction: new state + post-commit operations registered so far *)
Definition tx := (st * list op)%type.

Definition evkind_eqb (a b : evkind) : bool :=
  match a, b with
  | OnSuccess, OnSuccess | OnError, OnError | OnComplete, OnComplete | OnSkip, OnSkip => true
  | _, _ => false
  end.

(* ---------------------------------------------------- workflow state moves *)
(* Workflow.set_state: valid transition (translated table) then compare-and-swap.
   None = WorkflowException (declared error). *)
Definition wf_set_state (s : st) (x : state) : option st :=
  match is_valid_transition (wf_state s) x with
  | Some true => Some (set_wf_state s x)
  | _ => None
  end.

(* Workflow._fail_workflow / _succeed_workflow / _cancel_workflow (no output expressions in core) *)
Definition fail_workflow (s : st) : option st :=
  if is_completed (wf_state s) then Some s else wf_set_state s ERROR.
(* F21 fix: a workflow that has already succeeded is not completed once again *)
Definition succeed_workflow (s : st) : option st :=
  if state_eqb (wf_state s) SUCCESS then Some s else wf_set_state s SUCCESS.
Definition cancel_workflow (s : st) : option st :=
  if is_completed (wf_state s) then Some s else wf_set_state s CANCELLED.

(* workflow_handler.stop_workflow (no sub-workflows in core) *)
Definition stop_workflow (s : st) (x : state) : option st :=
  match x with
  | SUCCESS => succeed_workflow s
  | ERROR => fail_workflow s
  | CANCELLED => cancel_workflow s
  | _ => Some s
  end.

(* Workflow.pause *)
Definition pause_workflow (s : st) : option st :=
  if is_paused (wf_state s) then Some s else wf_set_state s PAUSED.

(* workflow_handler.set_workflow_state (engine commands fail/succeed/pause) *)
Definition set_workflow_state (s : st) (x : state) : option st :=
  if is_completed x then stop_workflow s x
  else if is_paused x then pause_workflow s
  else None.

(* ------------------------------------------------------------ spec queries *)
Definition clause_targets (l : list (target * guard)) : list nat :=
  flat_map (fun c => match fst c with TTask n => [n] | _ => [] end) l.

(* find_outbound_task_names restricted to real tasks *)
Definition outbound (sp : spec) (n : nat) : list nat :=
  let t := get_ts sp n in
  clause_targets (ts_err t) ++ clause_targets (ts_succ t) ++ clause_targets (ts_compl t) ++ clause_targets (ts_skip t).

Definition mem_nat (x : nat) (l : list nat) : bool := existsb (Nat.eqb x) l.

(* find_inbound_task_specs: all tasks with a transition to n, in spec order *)
Definition inbound (sp : spec) (n : nat) : list nat :=
  filter (fun m => mem_nat n (outbound sp m)) (seq 0 (length sp)).

Definition is_join (sp : spec) (n : nat) : bool :=
  match ts_join (get_ts sp n) with JNone => false | _ => true end.

Definition start_tasks (sp : spec) : list nat :=
  filter (fun n => match inbound sp n with [] => true | _ => false end) (seq 0 (length sp)).

(* -------------------------------------------------------------- task lookup *)
(* The task execution with the given name that comes LAST in the DB's row order.  The
   controller builds {t_ex.name: t_ex for t_ex in rows} (the last row wins) and rows come
   ORDER BY id, i.e. by random uuid: the row with the greatest uid. *)
Fixpoint find_last_by_name_aux (l : list trow) (name : nat) (i : nat) (acc : option (nat * nat)) : option (nat * nat) :=
  match l with
  | [] => acc
  | r :: rest =>
    find_last_by_name_aux rest name (S i)
      (if Nat.eqb (t_name r) name
       then match acc with
            | Some (j, u) => if Nat.leb u (t_uid r) then Some (i, t_uid r) else acc
            | None => Some (i, t_uid r)
            end
       else acc)
  end.
Definition find_last_by_name (s : st) (name : nat) : option nat :=
  match find_last_by_name_aux (tasks s) name 0 None with Some (i, _) => Some i | None => None end.

(* first task execution with this name and unique key, optionally in a given state
   (Task.defer: get_task_executions(unique_key=..., state=WAITING) then [0]) *)
Fixpoint find_first_aux (l : list trow) (p : trow -> bool) (i : nat) : option nat :=
  match l with
  | [] => None
  | r :: rest => if p r then Some i else find_first_aux rest p (S i)
  end.
Definition find_join_exec (s : st) (name : nat) (only_waiting : bool) : option nat :=
  find_first_aux (tasks s)
    (fun r => Nat.eqb (t_name r) name && t_unique r &&
              (negb only_waiting || state_eqb (t_state r) WAITING)) 0.

(* --------------------------------------------------------- join logical state *)
Inductive induced := IndWaiting | IndRunning | IndError.

Definition routes_to (r : trow) (name : nat) : bool :=
  existsb (fun p => Nat.eqb (fst p) name) (t_next r).

(* _possible_route (after the F13 fix: names already examined are not examined again).
   `path` = names on the current recursion path; revisiting one gives false, which equals
   the shared visited set of the source because a negative answer never changes within
   one evaluation.  Fuel = number of task specs + 1 is never exhausted (each level adds a
   new name to the path). *)
Fixpoint possible_route (fuel : nat) (sp : spec) (s : st) (path : list nat) (name : nat) : bool :=
  match fuel with
  | O => false
  | S f =>
    if mem_nat name path then false else
    match inbound sp name with
    | [] => true
    | ins =>
      existsb (fun m =>
        match find_last_by_name s m with
        | None => possible_route f sp s (name :: path) m
        | Some tid =>
          let r := get_task s tid in
          negb (is_completed (t_state r)) || routes_to r name
        end) ins
    end
  end.

Definition induced_state (sp : spec) (s : st) (inb join : nat) : induced :=
  match find_last_by_name s inb with
  | None => if possible_route (S (length sp)) sp s [] inb then IndWaiting else IndError
  | Some tid =>
    let r := get_task s tid in
    if negb (is_completed (t_state r)) then IndWaiting
    else if routes_to r join then IndRunning else IndError
  end.

Definition count_ind (x : induced) (l : list induced) : nat :=
  length (filter (fun y => match x, y with
                           | IndWaiting, IndWaiting | IndRunning, IndRunning | IndError, IndError => true
                           | _, _ => false end) l).

(* _get_join_logical_state: RUNNING / ERROR / WAITING *)
Definition join_logical (sp : spec) (s : st) (name : nat) : state :=
  let ins := inbound sp name in
  match ins with
  | [] => RUNNING
  | _ =>
    let inds := map (fun m => induced_state sp s m name) ins in
    let runs := count_ind IndRunning inds in
    let errs := count_ind IndError inds in
    let total := length inds in
    match ts_join (get_ts sp name) with
    | JAll => if Nat.eqb total runs then RUNNING else if Nat.ltb 0 errs then ERROR else WAITING
    | JOne => if Nat.leb 1 runs then RUNNING else if Nat.ltb (total - 1) errs then ERROR else WAITING
    | JNum k => if Nat.leb k runs then RUNNING else if Nat.ltb (total - k) errs then ERROR else WAITING
    | JNone => RUNNING
    end
  end.

(* get_logical_task_state *)
Definition logical_state (sp : spec) (s : st) (tid : nat) : state :=
  let r := get_task s tid in
  if is_join sp (t_name r) then join_logical sp s (t_name r) else t_state r.

(* TaskLogicalState.triggered_by: the inbound executions inducing the verdict *)
Definition induced_tid (sp : spec) (s : st) (inb join : nat) (want : induced) : list nat :=
  match find_last_by_name s inb with
  | Some tid =>
    match induced_state sp s inb join, want with
    | IndRunning, IndRunning | IndError, IndError => [tid]
    | _, _ => []
    end
  | None => []
  end.

Definition logical_triggered_by (sp : spec) (s : st) (tid : nat) (lg : state) : list nat :=
  let name := t_name (get_task s tid) in
  if negb (is_join sp name) then []
  else match inbound sp name with
       | [] => []
       | ins =>
         if state_eqb lg RUNNING then flat_map (fun m => induced_tid sp s m name IndRunning) ins
         else if state_eqb lg ERROR then
           match ts_join (get_ts sp name) with
           | JAll => flat_map (fun m => induced_tid sp s m name IndError) ins
           | _ => []
           end
         else []
       end.

(* find_indirectly_affected_task_executions: join executions reachable through
   outbound edges; the walk stops at joins that have an execution. *)
Fixpoint affected_walk (fuel : nat) (sp : spec) (s : st) (work visited acc : list nat) : list nat :=
  match fuel with
  | O => acc
  | S f =>
    match work with
    | [] => acc
    | n :: rest =>
      if mem_nat n visited then affected_walk f sp s rest visited acc
      else
        match (if is_join sp n then find_last_by_name s n else None) with
        | Some tid => affected_walk f sp s rest (n :: visited) (if mem_nat tid acc then acc else acc ++ [tid])
        | None => affected_walk f sp s (rest ++ outbound sp n) (n :: visited) acc
        end
    end
  end.

Definition sum_out (sp : spec) : nat := fold_right (fun n a => length (outbound sp n) + a) 0 (seq 0 (length sp)).

Definition affected (sp : spec) (s : st) (name : nat) : list nat :=
  affected_walk (S (length sp + sum_out sp + length (outbound sp name))) sp s (outbound sp name) [name] [].

(* ------------------------------------------------------------ task operations *)
(* Task.set_state: compare-and-swap on the current state (always succeeds inside one
   serial transaction) *)
Definition task_set_state (s : st) (tid : nat) (x : state) : st :=
  upd_task s tid (t_set_state (get_task s tid) x).

(* RegularTask._schedule_actions: create a RUNNING action execution, register _run_action *)
Definition schedule_action (t : tx) (tid : nat) : tx :=
  let s := fst t in
  let aid := length (acts s) in
  (add_act s (mkArow tid RUNNING false), snd t ++ [ORunAction aid]).

(* RegularTask._reset_actions *)
Definition reset_actions (s : st) (tid : nat) (reset : bool) : st :=
  mkSt (wf_created s) (wf_state s) (backlog s) (tasks s)
       (map (fun a => if Nat.eqb (a_task a) tid &&
                         (reset || (a_accepted a && (state_eqb (a_state a) ERROR || state_eqb (a_state a) CANCELLED)))
                      then mkArow (a_task a) (a_state a) false else a) (acts s))
       (calls s) (pend s) (uids s).

(* _find_next_tasks: None = a guard raised *)
Fixpoint eval_clause (l : list (target * guard)) (e : evkind) : option (list (target * evkind)) :=
  match l with
  | [] => Some []
  | (tg, g) :: rest =>
    match g with
    | GRaise => None
    | GFalse => eval_clause rest e
    | GTrue => match eval_clause rest e with Some r => Some ((tg, e) :: r) | None => None end
    end
  end.

Definition obind {A B} (x : option A) (f : A -> option B) : option B :=
  match x with Some a => f a | None => None end.

Definition find_next_tasks (sp : spec) (r : trow) : option (list (target * evkind)) :=
  let t := get_ts sp (t_name r) in
  let x := t_state r in
  obind (if state_eqb x ERROR then eval_clause (ts_err t) OnError else Some []) (fun l1 =>
  obind (if state_eqb x SKIPPED then eval_clause (ts_skip t) OnSkip else Some []) (fun l2 =>
  let skip_empty := state_eqb x SKIPPED && match l2 with [] => true | _ => false end in
  obind (if state_eqb x SUCCESS || skip_empty then eval_clause (ts_succ t) OnSuccess else Some []) (fun l3 =>
  obind (if is_completed x && negb (is_cancelled_or_skipped x) then eval_clause (ts_compl t) OnComplete else Some []) (fun l4 =>
  Some (l1 ++ l2 ++ l3 ++ l4))))).

Definition to_cmd (sp : spec) (by_tid : nat) (p : target * evkind) : cmd :=
  match fst p with
  | TTask n => CRunTask n (snd p) (is_join sp n) (Some by_tid)
  | TFail => CSetState ERROR
  | TSucceed => CSetState SUCCESS
  | TPause => CSetState PAUSED
  | TNoop => CNoop
  end.

(* dispatcher._rearrange_commands: list.sort with the (inconsistent) comparator
   _compare_task_commands, reproduced exactly by Model/PySort.v. *)
Definition is_waiting_cmd (c : cmd) : bool := match c with CRunTask _ _ true _ => true | _ => false end.
Definition cmd_key (c : cmd) : nat := match c with CRunTask n _ _ _ => n | _ => 0 end.

(* functools.cmp_to_key(_compare_task_commands): lt a b = (cmp a b < 0) *)
Definition cmd_lt (a b : cmd) : bool :=
  negb (is_waiting_cmd a) || (is_waiting_cmd b && Nat.ltb (cmd_key a) (cmd_key b)).
Definition sort_cmds (l : list cmd) : list cmd := py_sort cmd_lt CNoop l.

Fixpoint split_at_state (l : list cmd) (pre : list cmd) : option (list cmd * cmd * list cmd) :=
  match l with
  | [] => None
  | (CSetState x) :: r => Some (pre, CSetState x, r)
  | c :: r => split_at_state r (pre ++ [c])
  end.

Definition rearrange (l : list cmd) : list cmd :=
  let l := filter (fun c => match c with CNoop => false | _ => true end) l in
  match split_at_state l [] with
  | None => sort_cmds l
  | Some (pre, sc, post) =>
    match pre, sc with
    | [], CSetState PAUSED => sort_cmds pre ++ [sc] ++ post
    | [], _ => [sc]
    | _, CSetState PAUSED => sort_cmds pre ++ [sc] ++ post
    | _, _ => sort_cmds pre ++ [sc]
    end
  end.

(* Task.defer for a join RunTask command: returns the task id *)
Definition trig_list (trig : option nat) : list nat := match trig with Some t => [t] | None => [] end.

(* Task._is_triggered_by_known_tasks (F7c fix) *)
Definition triggered_by_known (r : trow) (trig : option nat) : bool :=
  match trig with
  | None => false
  | Some t => mem_nat t (t_trig r)
  end.

(* Task._can_be_reentered: the task is reachable from itself through outbound transitions *)
Fixpoint reach_walk (fuel : nat) (sp : spec) (goal : nat) (work visited : list nat) : bool :=
  match fuel with
  | O => false
  | S f =>
    match work with
    | [] => false
    | n :: rest =>
      if Nat.eqb n goal then true
      else if mem_nat n visited then reach_walk f sp goal rest visited
      else reach_walk f sp goal (rest ++ outbound sp n) (n :: visited)
    end
  end.

Definition can_be_reentered (sp : spec) (name : nat) : bool :=
  reach_walk (S (length sp + sum_out sp + length (outbound sp name))) sp name (outbound sp name) [].

(* task_ex.executions non-empty: the task has started at least once *)
Definition has_execs (s : st) (tid : nat) : bool := existsb (fun a => Nat.eqb (a_task a) tid) (acts s).

(* returns the state, the task id, and whether a workflow completion check is registered *)
Definition defer (sp : spec) (s : st) (name : nat) (trig : option nat) : st * nat * bool :=
  match find_join_exec s name true with
  | Some tid => (s, tid, false)
  | None =>
    match find_join_exec s name false with
    | Some tid =>
      (* existing and not WAITING: back to WAITING only if it completed before (F7a fix: a join
         that is still running is left alone) and either never started and can run now (its
         preconditions have changed, e.g. after the rerun of a failed inbound task; F22 fix: a join
         that still cannot run is not failed - and its routes followed - again) or it lies on a cycle
         (F7b fix: otherwise a late inbound branch of a partial join would run it again) and the
         trigger is not one that already triggered its previous run (F7c fix: recalculated
         commands, e.g. on resume); a completed join that is not re-armed registers a workflow
         completion check *)
      if is_completed (t_state (get_task s tid)) &&
         ((negb (has_execs s tid) && negb (state_eqb (join_logical sp s name) ERROR)) ||
          (can_be_reentered sp name && negb (triggered_by_known (get_task s tid) trig)))
      then (task_set_state s tid WAITING, tid, false)
      else (s, tid, is_completed (t_state (get_task s tid)))
    | None => (add_task s (mkTrow name WAITING false [] false false true (next_uid s) (trig_list trig)),
               length (tasks s), false)
    end
  end.

(* The mutually dependent part: dispatching commands can complete tasks (skip), which
   dispatches further commands.  Fuel bounds the nesting; FUEL below is large enough
   for it never to run out.  flag FForce = a MistralException was raised (a guard that
   fails to evaluate, or an invalid workflow state change): the transaction goes on with
   the partial state, the caller decides (task_handler force-fails the task; an operator
   entry point lets it escape and rolls back). *)
Inductive flag := FOk | FForce.
Definition result := (tx * flag)%type.

Section Dispatch.
Variable sp : spec.

(* Task.complete up to the dispatch of the follow-up commands *)
Inductive pre_res :=
| PreIgnored (t : tx)                       (* nothing dispatched: task already completed, or workflow paused *)
| PreRaised (t : tx)                        (* a guard raised after the state was set *)
| PreCmds (t : tx) (cmds : list cmd).

Definition complete_pre (t : tx) (tid : nat) (x : state) : pre_res :=
  let s := fst t in
  let r := get_task s tid in
  if is_completed (t_state r) && negb (is_skipped x) then PreIgnored t
  else
    let s1 := task_set_state s tid x in
    let r1 := get_task s1 tid in
    (* continue_workflow: nothing if the workflow is completed *)
    let nexts := if is_completed (wf_state s1) then Some [] else find_next_tasks sp r1 in
    match nexts with
    | None => PreRaised (s1, snd t)
    | Some nx =>
      let cmds := map (to_cmd sp tid) nx in
      let nt := flat_map (fun p => match fst p with TTask n => [(n, snd p)] | _ => [] end) nx in
      let has := match nt with [] => false | _ => true end in
      let eh := if state_eqb x ERROR then existsb (fun p => evkind_eqb (snd p) OnError) nx else t_err_handled r1 in
      let r2 := mkTrow (t_name r1) x (t_processed r1) nt has eh (t_unique r1) (t_uid r1) (t_trig r1) in
      let s2 := upd_task s1 tid r2 in
      if is_paused (wf_state s2) then PreIgnored (s2, snd t)   (* Task.complete returns: not processed, the
                                                                  dispatcher (and the backlog) is not touched *)
      else
        let s3 := upd_task s2 tid (t_set_processed r2 true) in
        let ops := if negb has then snd t ++ [OCheck] else snd t in
        PreCmds (s3, ops) cmds
    end.

(* the non-recursive commands, as transaction transformers *)
Definition backlog_push (t : tx) (c : cmd) : tx :=
  (set_backlog (fst t) (backlog (fst t) ++ [c]), snd t).

Definition run_task_cmd (sp : spec) (t : tx) (name : nat) (waiting : bool) (trig : option nat) : tx :=
  let s := fst t in
  let '(s1, tid, chk) := if waiting then defer sp s name trig
                         else (add_task s (mkTrow name IDLE false [] false false false (next_uid s) (trig_list trig)),
                               length (tasks s), false) in
  (s1, snd t ++ (if chk then [OCheck] else []) ++ [OStartTask tid true false false]).

Definition run_existing_cmd (t : tx) (tid : nat) (reset rerun : bool) : tx :=
  let s := fst t in
  let r := get_task s tid in
  let waiting := state_eqb (t_state r) WAITING in
  (* create_task: a WAITING task being rerun gets its refresh job scheduled directly; a failed task being
     rerun is RUNNING (not processed) from the rerun transaction on (fix 8879519e: otherwise a completion
     check made before its start request is processed fails the workflow again) *)
  let s1 := if waiting && rerun then add_pend s (IRefresh tid)
            else if rerun && state_eqb (t_state r) ERROR
                 then upd_task s tid (t_set_processed (t_set_state r RUNNING) false)
                 else s in
  (s1, snd t ++ [OStartTask tid false rerun reset]).

Fixpoint process_cmds (fuel : nat) (t : tx) (cmds : list cmd) : result :=
  match fuel with
  | O => (t, FOk)
  | S f =>
    match cmds with
    | [] => (t, FOk)
    | c :: rest =>
      let s := fst t in
      if is_completed (wf_state s) then (t, FOk)
      else if state_eqb (wf_state s) PAUSED then process_cmds f (backlog_push t c) rest
      else
        match c with
        | CRunTask name _ waiting trig => process_cmds f (run_task_cmd sp t name waiting trig) rest
        | CRunExisting tid reset rerun => process_cmds f (run_existing_cmd t tid reset rerun) rest
        | CSkip tid =>
          match complete_task f t tid SKIPPED with
          | (t2, FOk) => process_cmds f t2 rest
          | r => r
          end
        | CSetState x =>
          match set_workflow_state s x with
          | Some s1 => process_cmds f (s1, snd t) rest
          | None => (t, FForce)
          end
        | CNoop => process_cmds f t rest
        end
    end
  end
(* dispatch_workflow_commands: backlog first, then the new commands *)
with dispatch (fuel : nat) (t : tx) (cmds : list cmd) : result :=
  match fuel with
  | O => (t, FOk)
  | S f =>
    let s := fst t in
    match backlog s with
    | [] => process_cmds f t (rearrange cmds)
    | bl =>
      match process_cmds f (set_backlog s [], snd t) (rearrange bl) with
      | (t1, FOk) => process_cmds f t1 (rearrange cmds)
      | r => r
      end
    end
  end
(* Task.complete *)
with complete_task (fuel : nat) (t : tx) (tid : nat) (x : state) : result :=
  match fuel with
  | O => (t, FOk)
  | S f =>
    match complete_pre t tid x with
    | PreIgnored t1 => (t1, FOk)
    | PreRaised t1 => (t1, FForce)
    | PreCmds t1 cmds => dispatch f t1 cmds
    end
  end.
End Dispatch.

(* task_handler.force_fail_task *)
Definition force_fail (s : st) (tid : nat) : st :=
  let s1 := upd_task s tid (t_set_state (nth tid (tasks s) (mkTrow 0 Invalid false [] false false false 0 [])) ERROR) in
  match fail_workflow s1 with Some s2 => s2 | None => s1 end.

(* total number of clause entries of a program: bounds the commands one completion can produce *)
Definition spec_size (sp : spec) : nat :=
  fold_right (fun t a => length (ts_succ t) + length (ts_err t) + length (ts_compl t) + length (ts_skip t) + a) 0 sp.

(* resume recomputes the commands of every task execution completed while paused: at most
   spec_size commands each *)
Definition FUEL (sp : spec) (s : st) : nat :=
  4 * (length sp + spec_size sp + length (tasks s) + length (backlog s)) + 16 + length (tasks s) * spec_size sp.

(* _check_affected_tasks *)
Definition check_affected (sp : spec) (t : tx) (tid : nat) : tx :=
  let s := fst t in
  let r := get_task s tid in
  if negb (is_completed (t_state r)) then t
  else if is_completed (wf_state s) then t
  else (s, snd t ++ map OSchedRefresh (affected sp s (t_name r))).

(* commit: a transaction's registered operations become one pending post-commit queue *)
Definition commit (t : tx) : st :=
  match snd t with
  | [] => fst t
  | ops => add_pend (fst t) (IPtq ops)
  end.

(* Workflow.check_and_complete via workflow_handler.check_and_complete *)
Definition incomplete_count (s : st) : nat :=
  length (filter (fun r => negb (is_completed (t_state r))) (tasks s)).
Definition any_cancels (s : st) : bool := existsb (fun r => state_eqb (t_state r) CANCELLED) (tasks s).
Definition all_errors_handled (s : st) : bool :=
  negb (existsb (fun r => state_eqb (t_state r) ERROR && negb (t_err_handled r)) (tasks s)).

Definition check_and_complete (s : st) : option st :=
  if is_completed (wf_state s) then Some s
  else if is_paused_or_completed (wf_state s) then Some s
  else if Nat.ltb 0 (incomplete_count s) then Some s
  else if any_cancels s then cancel_workflow s
  else if all_errors_handled s then succeed_workflow s
  else fail_workflow s.

Definition has_refresh_job (s : st) (tid : nat) : bool :=
  existsb (fun i => match i with IRefresh t => Nat.eqb t tid | _ => false end) (pend s).

(* Workflow._continue_workflow *)
Definition mark_processed (s : st) : st :=
  mkSt (wf_created s) (wf_state s) (backlog s)
       (map (fun r => if is_completed (t_state r) && negb (t_processed r) then t_set_processed r true else r) (tasks s))
       (acts s) (calls s) (pend s) (uids s).

Definition continue_workflow_cmds (sp : spec) (t : tx) (cmds : list cmd) : result :=
  (* 'pause' commands are dropped, and (F16 fix) 'noop' commands too, so that commands starting
     nothing do not bypass the completion check *)
  let cmds := filter (fun c => match c with CSetState PAUSED => false | CNoop => false | _ => true end) cmds in
  let s := mark_processed (fst t) in
  match cmds, backlog s with
  | [], [] => match check_and_complete s with
              | Some s1 => ((s1, snd t), FOk)
              | None => ((s, snd t), FForce)
              end
  | _, _ => dispatch sp (FUEL sp s) (s, snd t) cmds
  end.

(* after the F10 fix: Workflow._continue_workflow schedules a state refresh for every
   WAITING task execution (de-duplicated against uncaptured jobs) *)
Definition schedule_waiting_refresh (s : st) : st :=
  fold_left (fun acc p => if state_eqb (t_state (snd p)) WAITING && negb (has_refresh_job acc (fst p))
                          then add_pend acc (IRefresh (fst p)) else acc)
            (combine (seq 0 (length (tasks s))) (tasks s)) s.

Definition continue_workflow (sp : spec) (t : tx) (cmds : list cmd) : result :=
  match continue_workflow_cmds sp t cmds with
  | (t1, FOk) => ((schedule_waiting_refresh (fst t1), snd t1), FOk)
  | r => r
  end.

(* ------------------------------------------------------------------ events *)
Inductive ev :=
| EStart
| EFire (i : item)                   (* deliver the first pending item equal to i; for IPtq: the n-th queue *)
| EFirePtq (n : nat)
| EPause | EResume | EStop (x : state)
| ERerun (tid : nat) (reset : bool)
| ESkipTask (tid : nat)
| EDup (i : item)                    (* redeliver a message that was delivered before *)
| EEvict.                            (* parser.clear_caches(): the engine's in-memory definition caches dropped *)

Definition outcome_eqb (a b : outcome) : bool :=
  match a, b with OOk, OOk | OErr, OErr | OCancel, OCancel => true | _, _ => false end.

Definition item_eqb (a b : item) : bool :=
  match a, b with
  | IStartTask t f r x, IStartTask t' f' r' x' => Nat.eqb t t' && Bool.eqb f f' && Bool.eqb r r' && Bool.eqb x x'
  | IExec a, IExec a' => Nat.eqb a a'
  | IResult a r, IResult a' r' => Nat.eqb a a' && outcome_eqb r r'
  | IRefresh t, IRefresh t' => Nat.eqb t t'
  | _, _ => false
  end.

Fixpoint remove_first (p : item -> bool) (l : list item) : option (item * list item) :=
  match l with
  | [] => None
  | x :: r => if p x then Some (x, r)
              else match remove_first p r with Some (y, r') => Some (y, x :: r') | None => None end
  end.

Fixpoint remove_nth_ptq (n : nat) (l : list item) : option (list op * list item) :=
  match l with
  | [] => None
  | IPtq ops :: r => match n with
                     | O => Some (ops, r)
                     | S k => match remove_nth_ptq k r with Some (o, r') => Some (o, IPtq ops :: r') | None => None end
                     end
  | x :: r => match remove_nth_ptq n r with Some (o, r') => Some (o, x :: r') | None => None end
  end.

Definition state_of_outcome (r : outcome) : state :=
  match r with OOk => SUCCESS | OErr => ERROR | OCancel => CANCELLED end.

(* DefaultEngine.start_task -> task_handler.run_task (after RPC `waiting` is always false) *)
Definition do_start_task (sp : spec) (s : st) (tid : nat) (first rerun reset : bool) : st * outc :=
  let r := get_task s tid in
  if Nat.leb (length (tasks s)) tid then (s, Internal)
  else if first then
    (* _run_new *)
    if is_idle (t_state r)
    then (commit (check_affected sp (schedule_action (task_set_state s tid RUNNING, []) tid) tid), Ok)
    else (commit (check_affected sp (s, []) tid), Ok)
  else if negb rerun && negb (is_idle (t_state r)) then
    (* F18 fix: a resume-issued request for a task that has started meanwhile is ignored;
       F20 fix: but it may have been the last thing the workflow waited for: a completion check
       is registered *)
    (commit (s, [OCheck]), Ok)
  else if negb rerun then
    (* F17 fix: a task that never started is started like a new one (_run_new) *)
    (commit (check_affected sp (schedule_action (task_set_state s tid RUNNING, []) tid) tid), Ok)
  else
    (* _run_existing *)
    if state_eqb (t_state r) SUCCESS then
      (* exc.MistralError('Rerunning succeeded tasks is not supported.') is not a
         MistralException: run_task does not catch it, the entry point fails, rollback *)
      (s, Declared)
    else
      let s1 := upd_task s tid (t_set_processed (t_set_state r RUNNING)
                                 (if state_eqb (t_state r) RUNNING then t_processed r else false)) in
      (commit (check_affected sp (schedule_action (reset_actions s1 tid reset, []) tid) tid), Ok).

(* action completion: RegularAction.complete + RegularTask.on_action_complete + affected *)
Definition do_result (sp : spec) (s : st) (aid : nat) (res : outcome) : st * outc :=
  if Nat.leb (length (acts s)) aid then (s, Internal)
  else
  let a := get_act s aid in
  if is_completed (a_state a) then (s, Internal)        (* ValueError: already completed; rollback *)
  else
    let x := state_of_outcome res in
    let s1 := upd_act s aid (mkArow (a_task a) x true) in
    let tid := a_task a in
    match complete_task sp (FUEL sp s1) (s1, []) tid x with
    | (t1, FOk) => (commit (check_affected sp t1 tid), Ok)
    | (t1, FForce) => (commit (force_fail (fst t1) tid, snd t1), Ok)
    end.

(* executing one post-commit queue as a whole *)

Fixpoint run_ops (sp : spec) (s : st) (ops : list op) : st :=
  match ops with
  | [] => s
  | o :: rest =>
    let s1 :=
      match o with
      | OStartTask tid f r x => add_pend s (IStartTask tid f r x)
      | ORunAction aid => add_pend s (IExec aid)
      | OCheck => match check_and_complete s with Some s' => s' | None => s end
      | OSchedRefresh tid => if has_refresh_job s tid then s else add_pend s (IRefresh tid)
      end in
    run_ops sp s1 rest
  end.

(* _refresh_task_state job: the part after the logical state has been computed *)
Definition refresh_body (sp : spec) (s : st) (tid : nat) (lg : state) : st * outc :=
  if state_eqb lg RUNNING then
    (* continue_task: set RUNNING, run() = _run_existing *)
    let s1 := task_set_state s tid RUNNING in
    let t1 := schedule_action (reset_actions s1 tid false, []) tid in
    (commit (check_affected sp t1 tid), Ok)
  else if state_eqb lg ERROR then
    match complete_task sp (FUEL sp s) (s, []) tid ERROR with
    | (t1, FOk) => (commit (check_affected sp t1 tid), Ok)
    | (t1, FForce) => (commit (force_fail (fst t1) tid, snd t1), Ok)
    end
  else (s, Ok).

Definition do_refresh (sp : spec) (s : st) (tid : nat) : st * outc :=
  let r := get_task s tid in
  if is_completed (t_state r) || state_eqb (t_state r) RUNNING then (s, Ok)
  else if is_completed (wf_state s) then (s, Ok)
  else
    let lg := logical_state sp s tid in
    (* task_ex.runtime_context['triggered_by'] = log_state.triggered_by *)
    refresh_body sp (upd_task s tid (t_set_trig r (logical_triggered_by sp s tid lg))) tid lg.

Definition nth_call (s : st) (name : nat) : nat := nth name (calls s) 0.
Fixpoint bump (l : list nat) (n : nat) : list nat :=
  match l, n with
  | [], O => [1]
  | [], S k => 0 :: bump [] k
  | x :: r, O => S x :: r
  | x :: r, S k => x :: bump r k
  end.

Definition step (sp : spec) (s : st) (e : ev) : st * outc :=
  match e with
  | EStart =>
    if wf_created s then (s, NotEnabled)
    else
      let s0 := mkSt true RUNNING [] [] [] [] (pend s) (uids s) in
      let cmds := map (fun n => CRunTask n OnSuccess false None) (start_tasks sp) in
      match dispatch sp (FUEL sp s0) (s0, []) cmds with
      | (t1, FOk) =>
        match check_and_complete (fst t1) with
        | Some s2 => (commit (s2, snd t1), Ok)
        | None => (s, Declared)
        end
      | (_, FForce) => (s, Declared)
      end
  | EFire i =>
    match remove_first (item_eqb i) (pend s) with
    | None => (s, NotEnabled)
    | Some (it, rest) =>
      let s0 := set_pend s rest in
      match it with
      | IStartTask tid f r x => do_start_task sp s0 tid f r x
      | IExec aid =>
        (* the executor runs the action: the oracle gives the outcome of this attempt *)
        let name := t_name (get_task s0 (a_task (get_act s0 aid))) in
        let res := nth (nth_call s0 name) (ts_outs (get_ts sp name)) OOk in
        (add_pend (set_calls s0 (bump (calls s0) name)) (IResult aid res), Ok)
      | IResult aid res =>
        match do_result sp s0 aid res with
        | (s1, Ok) => (s1, Ok)
        | (_, o) => (s0, o)
        end
      | IRefresh tid => do_refresh sp s0 tid
      | IPtq _ => (s, NotEnabled)
      end
    end
  | EFirePtq n =>
    match remove_nth_ptq n (pend s) with
    | None => (s, NotEnabled)
    | Some (ops, rest) => (run_ops sp (set_pend s rest) ops, Ok)
    end
  | EDup i =>
    match i with
    | IStartTask tid f r x => do_start_task sp s tid f r x
    | IResult aid res => match do_result sp s aid res with (s1, Ok) => (s1, Ok) | (_, o) => (s, o) end
    | _ => (s, NotEnabled)
    end
  | EEvict => (s, Ok)                (* specs are rebuilt from the stored definition: no state, nothing changes *)
  | EPause =>
    if negb (wf_created s) then (s, NotEnabled) else
    match pause_workflow s with Some s1 => (s1, Ok) | None => (s, Declared) end
  | EResume =>
    if negb (wf_created s) then (s, NotEnabled) else
    if negb (is_paused_or_idle (wf_state s)) then (s, Ok)
    else
      match wf_set_state s RUNNING with
      | None => (s, Declared)
      | Some s1 =>
        (* continue_workflow(): RunExisting for IDLE tasks + next commands of completed unprocessed tasks *)
        let idle := flat_map (fun p => if is_idle (t_state (snd p)) then [CRunExisting (fst p) true false] else [])
                             (combine (seq 0 (length (tasks s1))) (tasks s1)) in
        let unproc := filter (fun p => is_completed (t_state (snd p)) && negb (t_processed (snd p)))
                             (combine (seq 0 (length (tasks s1))) (tasks s1)) in
        let nx := fold_right (fun p acc => match acc, find_next_tasks sp (snd p) with
                                           | Some l, Some m => Some (map (to_cmd sp (fst p)) m ++ l)
                                           | _, _ => None end) (Some []) unproc in
        match nx with
        | None => (s, Declared)
        | Some more =>
          match continue_workflow sp (s1, []) (idle ++ more) with
          | (t1, FOk) => (commit t1, Ok)
          | (_, FForce) => (s, Declared)
          end
        end
      end
  | EStop x =>
    if negb (wf_created s) then (s, NotEnabled) else
    match stop_workflow s x with Some s1 => (s1, Ok) | None => (s, Declared) end
  | ERerun tid reset =>
    if negb (wf_created s) then (s, NotEnabled) else
    if Nat.leb (length (tasks s)) tid then (s, NotEnabled) else
    if state_eqb (wf_state s) PAUSED then (s, Ok)
    else
      match wf_set_state s RUNNING with
      | None => (s, Declared)
      | Some s1 =>
        let cmds := [CRunExisting tid reset true] in
        (* task.cleanup_runtime_context() *)
        let s1 := upd_task s1 tid (t_set_trig (get_task s1 tid) []) in
        match continue_workflow sp (s1, []) cmds with
        | (t1, FOk) => (commit t1, Ok)
        | (_, FForce) => (s, Declared)
        end
      end
  | ESkipTask tid =>
    if negb (wf_created s) then (s, NotEnabled) else
    if Nat.leb (length (tasks s)) tid then (s, NotEnabled) else
    if state_eqb (wf_state s) PAUSED then (s, Ok)
    else
      match wf_set_state s RUNNING with
      | None => (s, Declared)
      | Some s1 =>
        let s1 := upd_task s1 tid (t_set_trig (get_task s1 tid) []) in
        match continue_workflow sp (s1, []) [CSkip tid] with
        | (t1, FOk) => (commit (check_affected sp t1 tid), Ok)
        | (_, FForce) => (s, Declared)
        end
      end
  end.

Definition run (sp : spec) (u : list nat) (evs : list ev) : st := fold_left (fun s e => fst (step sp s e)) evs (init_with u).

Fixpoint run_trace (sp : spec) (s : st) (evs : list ev) : list (st * outc) :=
  match evs with
  | [] => []
  | e :: r => let x := step sp s e in x :: run_trace sp (fst x) r
  end.
