(* Model of the task policies of mistral (property C08): one task, its policies,
   the scheduler jobs the policies create and the action executions ("attempts").

   Anchors (file:function -> definition here):
     mistral/engine/base.py:TaskPolicy._validate (jsonschema on the public fields)   -> int_ok, bool_ok
     mistral/engine/policies.py:build_policies / construct_policies_list / build_*   -> build
     mistral/engine/policies.py:WaitBeforePolicy.before_task_start                   -> h_wb_before
     mistral/engine/policies.py:WaitAfterPolicy.after_task_complete                  -> h_wa_after
     mistral/engine/policies.py:RetryPolicy.after_task_complete                      -> retry_decide, h_retry_after
     mistral/engine/policies.py:TimeoutPolicy.before_task_start                      -> h_timeout_before
     mistral/engine/policies.py:PauseBeforePolicy.before_task_start                  -> h_pause_before
     mistral/engine/policies.py:ConcurrencyPolicy.before_task_start                  -> h_conc_before
     mistral/engine/policies.py:FailOnPolicy.after_task_complete                     -> h_failon_after
     mistral/engine/policies.py:_continue_task/_complete_task/_fail_task_if_incomplete -> fire
     mistral/engine/tasks.py:Task.complete, Task.set_state, RegularTask._run_new,
        _run_existing, _reset_actions, invalidate_result                             -> complete, start, run_existing_*
     mistral/engine/task_handler.py:run_task, continue_task, complete_task,
        _on_action_complete, force_fail_task                                         -> step, handle, force_fail
   Correspondence suite: harness/suites/C08.py (validate, build, retry_decision, traces).
   The task state type and is_completed/is_cancelled/is_idle/is_paused are the
   definitions generated from mistral/workflow/states.py (Gen/States.v).
   Not modelled: with-items tasks (C07), join tasks beyond the retry decision,
   rerun (C12), SKIPPED completions, exceptions of the action scheduling itself.
   No proofs in this file. *)
From Coq Require Import List NArith ZArith Bool.
Require Import Mistral.Gen.States.
Import ListNotations.
Open Scope N_scope.

(* ---- evaluated parameter values (what YAQL/Jinja evaluation can return) ---- *)
Inductive pval :=
| PInt (z : Z)
| PFloat (integral : bool) (z : Z)   (* integral=true: the float z.0 ; false: a non-integral float (or nan/inf) *)
| PBool (b : bool)
| PStr (nonempty : bool)
| PNull
| PColl (nonempty : bool).            (* list / dict *)

(* jsonschema {"type": "integer", "minimum": 0}: bool is not an integer, z.0 is *)
Definition int_ok (v : pval) : bool :=
  match v with
  | PInt z => (0 <=? z)%Z
  | PFloat true z => (0 <=? z)%Z
  | _ => false
  end.

(* jsonschema {"type": "boolean"} *)
Definition bool_ok (v : pval) : bool := match v with PBool _ => true | _ => false end.

Definition as_N (v : pval) : N :=
  match v with PInt z => Z.to_N z | PFloat true z => Z.to_N z | _ => 0 end.

(* Python truthiness *)
Definition truthy (v : pval) : bool :=
  match v with
  | PInt z => negb (z =? 0)%Z
  | PFloat true z => negb (z =? 0)%Z
  | PFloat false _ => true
  | PBool b => b
  | PStr ne => ne
  | PNull => false
  | PColl ne => ne
  end.

(* ---- policy specifications and build_policies ---- *)
(* a value in the workflow text: a literal, or an expression (a string) with the value it evaluates to *)
Inductive sval := Lit (v : pval) | Expr (v : pval).
Definition sv_val (s : sval) : pval := match s with Lit v => v | Expr v => v end.

Record rspec := mkRSpec { rs_count : sval; rs_delay : sval; rs_cont : bool; rs_brk : bool }.
(* PoliciesSpec: absent keys have the defaults 0 / False of PoliciesSpec.__init__ *)
Record pspec := mkPSpec {
  ps_retry : option rspec; ps_wb : sval; ps_wa : sval; ps_timeout : sval;
  ps_pause : sval; ps_conc : sval; ps_failon : sval }.

(* `isinstance(x, str) or x > 0` *)
Definition present_pos (s : sval) : bool :=
  match s with Expr _ => true | Lit (PInt z) => (0 <? z)%Z | Lit _ => false end.
(* `if x` on a literal or an expression string (never empty) *)
Definition present_true (s : sval) : bool :=
  match s with Expr _ => true | Lit v => truthy v end.

Record rcfg := mkRCfg { rc_count : pval; rc_delay : pval; rc_cont : bool; rc_brk : bool }.
(* the policy objects of one hook call, in get_policy_factories order, with evaluated fields *)
Record cfg := mkCfg {
  c_pause : option pval; c_wb : option pval; c_wa : option pval; c_failon : option pval;
  c_retry : option rcfg; c_timeout : option pval; c_conc : option pval }.

Definition pick {A} (a b : option A) : option A := match a with Some _ => a | None => b end.
Definition opt_if {A} (b : bool) (x : A) : option A := if b then Some x else None.

Definition f_pause (p : pspec) := opt_if (present_true (ps_pause p)) (sv_val (ps_pause p)).
Definition f_wb (p : pspec) := opt_if (present_pos (ps_wb p)) (sv_val (ps_wb p)).
Definition f_wa (p : pspec) := opt_if (present_pos (ps_wa p)) (sv_val (ps_wa p)).
Definition f_failon (p : pspec) := opt_if (present_true (ps_failon p)) (sv_val (ps_failon p)).
Definition f_retry (p : pspec) :=
  match ps_retry p with
  | Some r => Some (mkRCfg (sv_val (rs_count r)) (sv_val (rs_delay r)) (rs_cont r) (rs_brk r))
  | None => None
  end.
Definition f_timeout (p : pspec) := opt_if (present_pos (ps_timeout p)) (sv_val (ps_timeout p)).
Definition f_conc (p : pspec) := opt_if (present_true (ps_conc p)) (sv_val (ps_conc p)).

Definition via {A} (f : pspec -> option A) (o : option pspec) : option A :=
  match o with Some p => f p | None => None end.

(* construct_policies_list: the task-level value wins, task-defaults fill what is absent *)
Definition build (task dflt : option pspec) : cfg :=
  mkCfg (pick (via f_pause task) (via f_pause dflt))
        (pick (via f_wb task) (via f_wb dflt))
        (pick (via f_wa task) (via f_wa dflt))
        (pick (via f_failon task) (via f_failon dflt))
        (pick (via f_retry task) (via f_retry dflt))
        (pick (via f_timeout task) (via f_timeout dflt))
        (pick (via f_conc task) (via f_conc dflt)).

(* ---- the per-task machine ---- *)
Inductive info := INone | IAction | ITimeout | IFailOn | IDelay | IPause | IForced.

Inductive jkind := JContinue | JComplete (x : state) (i : info) | JTimeout | JRefresh.
Record job := mkJob { j_at : N; j_kind : jkind }.

Record act := mkAct { a_state : state; a_acc : bool; a_start : N }.

(* one processed action completion (ghost history: time, result, truth of continue-on / break-on) *)
Record hrec := mkH { h_time : N; h_res : state; h_cont : bool; h_brk : bool }.

Record st := mkSt {
  s_state : state; s_info : info;
  s_rno : option N;            (* runtime_context.retry_task_policy.retry_no as stored at the end of the transaction *)
  s_wbskip : bool; s_waskip : bool;
  s_conc : option N;           (* runtime_context.concurrency *)
  s_proc : bool;               (* task_ex.processed *)
  s_wf : state;                (* workflow execution state *)
  s_now : N;
  s_cont : bool; s_brk : bool; (* what continue-on / break-on evaluate to in the current context *)
  s_jobs : list job;           (* pending scheduler jobs, in scheduling order *)
  s_acts : list act;           (* action executions, in creation order *)
  s_disp : list (N * state);   (* dispatch_workflow_commands calls: time, task state *)
  s_hist : list hrec;          (* ghost *)
  s_t0 : option N;             (* ghost: time of the first start *)
  s_early : bool               (* ghost: some job ran before its execute_at *)
}.

Definition init : st :=
  mkSt IDLE INone None false false None false RUNNING 0 false false [] [] [] [] None false.

Definition set_state (x : state) (i : info) (s : st) : st :=
  mkSt x i (s_rno s) (s_wbskip s) (s_waskip s) (s_conc s) (s_proc s) (s_wf s) (s_now s) (s_cont s) (s_brk s)
       (s_jobs s) (s_acts s) (s_disp s) (s_hist s) (s_t0 s) (s_early s).
Definition set_rno (r : option N) (s : st) : st :=
  mkSt (s_state s) (s_info s) r (s_wbskip s) (s_waskip s) (s_conc s) (s_proc s) (s_wf s) (s_now s) (s_cont s) (s_brk s)
       (s_jobs s) (s_acts s) (s_disp s) (s_hist s) (s_t0 s) (s_early s).
Definition set_wbskip (b : bool) (s : st) : st :=
  mkSt (s_state s) (s_info s) (s_rno s) b (s_waskip s) (s_conc s) (s_proc s) (s_wf s) (s_now s) (s_cont s) (s_brk s)
       (s_jobs s) (s_acts s) (s_disp s) (s_hist s) (s_t0 s) (s_early s).
Definition set_waskip (b : bool) (s : st) : st :=
  mkSt (s_state s) (s_info s) (s_rno s) (s_wbskip s) b (s_conc s) (s_proc s) (s_wf s) (s_now s) (s_cont s) (s_brk s)
       (s_jobs s) (s_acts s) (s_disp s) (s_hist s) (s_t0 s) (s_early s).
Definition set_conc (c : option N) (s : st) : st :=
  mkSt (s_state s) (s_info s) (s_rno s) (s_wbskip s) (s_waskip s) c (s_proc s) (s_wf s) (s_now s) (s_cont s) (s_brk s)
       (s_jobs s) (s_acts s) (s_disp s) (s_hist s) (s_t0 s) (s_early s).
Definition set_proc (b : bool) (s : st) : st :=
  mkSt (s_state s) (s_info s) (s_rno s) (s_wbskip s) (s_waskip s) (s_conc s) b (s_wf s) (s_now s) (s_cont s) (s_brk s)
       (s_jobs s) (s_acts s) (s_disp s) (s_hist s) (s_t0 s) (s_early s).
Definition set_wf (w : state) (s : st) : st :=
  mkSt (s_state s) (s_info s) (s_rno s) (s_wbskip s) (s_waskip s) (s_conc s) (s_proc s) w (s_now s) (s_cont s) (s_brk s)
       (s_jobs s) (s_acts s) (s_disp s) (s_hist s) (s_t0 s) (s_early s).
Definition set_now (n : N) (s : st) : st :=
  mkSt (s_state s) (s_info s) (s_rno s) (s_wbskip s) (s_waskip s) (s_conc s) (s_proc s) (s_wf s) n (s_cont s) (s_brk s)
       (s_jobs s) (s_acts s) (s_disp s) (s_hist s) (s_t0 s) (s_early s).
Definition set_env (c b : bool) (s : st) : st :=
  mkSt (s_state s) (s_info s) (s_rno s) (s_wbskip s) (s_waskip s) (s_conc s) (s_proc s) (s_wf s) (s_now s) c b
       (s_jobs s) (s_acts s) (s_disp s) (s_hist s) (s_t0 s) (s_early s).
Definition set_jobs (l : list job) (s : st) : st :=
  mkSt (s_state s) (s_info s) (s_rno s) (s_wbskip s) (s_waskip s) (s_conc s) (s_proc s) (s_wf s) (s_now s) (s_cont s) (s_brk s)
       l (s_acts s) (s_disp s) (s_hist s) (s_t0 s) (s_early s).
Definition set_acts (l : list act) (s : st) : st :=
  mkSt (s_state s) (s_info s) (s_rno s) (s_wbskip s) (s_waskip s) (s_conc s) (s_proc s) (s_wf s) (s_now s) (s_cont s) (s_brk s)
       (s_jobs s) l (s_disp s) (s_hist s) (s_t0 s) (s_early s).
Definition set_disp (l : list (N * state)) (s : st) : st :=
  mkSt (s_state s) (s_info s) (s_rno s) (s_wbskip s) (s_waskip s) (s_conc s) (s_proc s) (s_wf s) (s_now s) (s_cont s) (s_brk s)
       (s_jobs s) (s_acts s) l (s_hist s) (s_t0 s) (s_early s).
Definition set_hist (l : list hrec) (s : st) : st :=
  mkSt (s_state s) (s_info s) (s_rno s) (s_wbskip s) (s_waskip s) (s_conc s) (s_proc s) (s_wf s) (s_now s) (s_cont s) (s_brk s)
       (s_jobs s) (s_acts s) (s_disp s) l (s_t0 s) (s_early s).
Definition set_t0 (t : option N) (s : st) : st :=
  mkSt (s_state s) (s_info s) (s_rno s) (s_wbskip s) (s_waskip s) (s_conc s) (s_proc s) (s_wf s) (s_now s) (s_cont s) (s_brk s)
       (s_jobs s) (s_acts s) (s_disp s) (s_hist s) t (s_early s).
Definition set_early (b : bool) (s : st) : st :=
  mkSt (s_state s) (s_info s) (s_rno s) (s_wbskip s) (s_waskip s) (s_conc s) (s_proc s) (s_wf s) (s_now s) (s_cont s) (s_brk s)
       (s_jobs s) (s_acts s) (s_disp s) (s_hist s) (s_t0 s) b.

(* scheduler.schedule(SchedulerJob(run_after=d, ...)) *)
Definition add_job (d : N) (k : jkind) (s : st) : st :=
  set_jobs (s_jobs s ++ [mkJob (s_now s + d) k]) s.

(* a hook either returns or raises InvalidModelException (with the effects made so far) *)
Inductive res := Ok (s : st) | Raise (s : st).
Definition bind (r : res) (f : st -> res) : res := match r with Ok s => f s | Raise s => Raise s end.
Definition opt_hook (o : option pval) (f : pval -> st -> res) (s : st) : res :=
  match o with Some v => f v s | None => Ok s end.

(* base.TaskPolicy.before_task_start / after_task_complete: evaluate fields, validate *)
Definition validate_int (v : pval) (s : st) : res := if int_ok v then Ok s else Raise s.
Definition validate_bool (v : pval) (s : st) : res := if bool_ok v then Ok s else Raise s.

Definition h_pause_before (v : pval) (s : st) : res :=
  match v with
  | PBool true => Ok (set_wf PAUSED (set_state IDLE IPause s))
  | PBool false => Ok s
  | _ => Raise s
  end.

Definition h_wb_before (v : pval) (s : st) : res :=
  if int_ok v then
    let d := as_N v in
    if d =? 0 then Ok s
    else if s_wbskip s then Ok (set_state RUNNING INone s)
    else if state_eqb (s_state s) IDLE then Ok s
    else Ok (add_job d JContinue (set_state RUNNING_DELAYED IDelay (set_wbskip true s)))
  else Raise s.

Definition h_retry_validate (r : rcfg) (s : st) : res :=
  if int_ok (rc_count r) && int_ok (rc_delay r) then Ok s else Raise s.

Definition h_timeout_before (v : pval) (s : st) : res :=
  if int_ok v then
    let d := as_N v in
    if d =? 0 then Ok s else Ok (add_job d JTimeout s)
  else Raise s.

Definition h_conc_before (v : pval) (s : st) : res :=
  if int_ok v then
    let d := as_N v in
    if d =? 0 then Ok s else Ok (set_conc (Some d) s)
  else Raise s.

(* Task._before_task_start: policies in factory order; FailOnPolicy.before_task_start is `pass` *)
Definition before_hooks (c : cfg) (s : st) : res :=
  bind (opt_hook (c_pause c) h_pause_before s) (fun s =>
  bind (opt_hook (c_wb c) h_wb_before s) (fun s =>
  bind (opt_hook (c_wa c) validate_int s) (fun s =>
  bind (match c_retry c with Some r => h_retry_validate r s | None => Ok s end) (fun s =>
  bind (opt_hook (c_timeout c) h_timeout_before s) (fun s =>
  opt_hook (c_conc c) h_conc_before s))))).

Definition h_wa_after (v : pval) (s : st) : res :=
  if int_ok v then
    let d := as_N v in
    if d =? 0 then Ok s
    else if s_waskip s then Ok s
    else Ok (add_job d (JComplete (s_state s) (s_info s))
               (set_state RUNNING_DELAYED IDelay (set_waskip true s)))
  else Raise s.

(* the `fail_on` field is not covered by FailOnPolicy._schema (its key is "fail-on"):
   the evaluated value is used by truthiness, never rejected *)
Definition h_failon_after (v : pval) (s : st) : res :=
  if state_eqb (s_state s) SUCCESS && truthy v then Ok (set_state ERROR IFailOn s) else Ok s.

(* RetryPolicy.after_task_complete: does the task go into another iteration? *)
Definition retry_decide (cnt rn : N) (x : state) (has_cont cont has_brk brk : bool) : bool :=
  if negb (is_completed x) || is_cancelled x then false else
  let remain := rn <? cnt in
  let stop := (state_eqb x SUCCESS && negb has_cont) || (has_cont && negb cont) in
  let broken := state_eqb x ERROR && (has_brk && brk) in
  negb (negb remain || broken || stop).

Definition invalidate (s : st) : st :=
  set_acts (map (fun a => mkAct (a_state a) false (a_start a)) (s_acts s)) s.

Definition h_retry_after (join : bool) (r : rcfg) (s : st) : res :=
  if int_ok (rc_count r) && int_ok (rc_delay r) then
    let cnt := as_N (rc_count r) in
    if cnt =? 0 then Ok s else
    let x := s_state s in
    if negb (is_completed x) || is_cancelled x then Ok s else
    let rn := match s_rno s with Some n => n | None => 0 end in
    (* `del policy_ctx['retry_no']` mutates a nested dict of the MutableDict column
       runtime_context; when the policy stops it is not followed by
       touch_runtime_context(), the row is not marked dirty and the deletion is not
       persisted: the stored retry_no stays (s_rno is the stored value). *)
    if retry_decide cnt rn x (rc_cont r) (s_cont s) (rc_brk r) (s_brk s) then
      let s2 := set_rno (Some (rn + 1)) (invalidate s) in
      if join then Ok (add_job (as_N (rc_delay r)) JRefresh (set_state WAITING IDelay s2))
      else Ok (add_job (as_N (rc_delay r)) JContinue (set_state RUNNING_DELAYED IDelay s2))
    else Ok s
  else Raise s.

(* Task._after_task_complete *)
Definition after_hooks (c : cfg) (s : st) : res :=
  bind (opt_hook (c_pause c) validate_bool s) (fun s =>
  bind (opt_hook (c_wb c) validate_int s) (fun s =>
  bind (opt_hook (c_wa c) h_wa_after s) (fun s =>
  bind (opt_hook (c_failon c) h_failon_after s) (fun s =>
  bind (match c_retry c with Some r => h_retry_after false r s | None => Ok s end) (fun s =>
  bind (opt_hook (c_timeout c) validate_int s) (fun s =>
  opt_hook (c_conc c) validate_int s)))))).

(* the tail of Task.complete: follow-up commands are dispatched unless the workflow is paused *)
Definition dispatch (s : st) : st :=
  if is_paused (s_wf s) then s
  else set_proc true (set_disp (s_disp s ++ [(s_now s, s_state s)]) s).

(* Task.complete(state, state_info) for a non-SKIPPED state *)
Definition complete (c : cfg) (x : state) (i : info) (s : st) : res :=
  if is_completed (s_state s) then Ok s else
  bind (after_hooks c (set_state x i s)) (fun s2 =>
    if state_eqb (s_state s2) RUNNING_DELAYED then Ok s2 else Ok (dispatch s2)).

(* task_handler.force_fail_task *)
Definition force_fail (s : st) : st := set_wf ERROR (set_state ERROR IForced s).
Definition handle (r : res) : st := match r with Ok s => s | Raise s => force_fail s end.

Definition new_action (s : st) : st := set_acts (s_acts s ++ [mkAct RUNNING false (s_now s)]) s.

(* RegularTask._reset_actions without the reset flag *)
Definition reset_actions (s : st) : st :=
  set_acts (map (fun a => if a_acc a && (state_eqb (a_state a) ERROR || state_eqb (a_state a) CANCELLED)
                          then mkAct (a_state a) false (a_start a) else a) (s_acts s)) s.

(* task_handler.continue_task: set_state(RUNNING) then RegularTask._run_existing
   (its own set_state(RUNNING, None, processed=False) changes nothing any more) *)
Definition continue_task (s : st) : st :=
  new_action (reset_actions (set_state RUNNING INone s)).

(* run_task(first_run=False) on an IDLE task after the workflow was resumed *)
Definition run_existing_resumed (s : st) : st :=
  new_action (reset_actions (set_proc false (set_state RUNNING INone s))).

(* run_task(first_run=True): RegularTask._run_new *)
Definition start (c : cfg) (s : st) : st :=
  if is_idle (s_state s) then
    let s0 := match s_t0 s with None => set_t0 (Some (s_now s)) s | Some _ => s end in
    match before_hooks c (set_state RUNNING (s_info s0) s0) with
    | Raise s2 => force_fail s2
    | Ok s2 => if state_eqb (s_state s2) RUNNING then new_action s2 else s2
    end
  else s.

Definition resume (s : st) : st :=
  if is_paused (s_wf s) then
    let s1 := set_wf RUNNING s in
    if is_idle (s_state s1) then run_existing_resumed s1 else s1
  else s.

Fixpoint upd_nth {A} (l : list A) (i : nat) (x : A) : list A :=
  match l, i with
  | [], _ => []
  | _ :: t, O => x :: t
  | h :: t, S i' => h :: upd_nth t i' x
  end.

Fixpoint del_nth {A} (l : list A) (i : nat) : list A :=
  match l, i with
  | [], _ => []
  | _ :: t, O => t
  | h :: t, S i' => h :: del_nth t i'
  end.

Definition result_state (x : state) : bool :=
  state_eqb x SUCCESS || state_eqb x ERROR || state_eqb x CANCELLED.

(* the executor reports the result of action i: _on_action_complete -> RegularTask.on_action_complete *)
Definition act_done (c : cfg) (i : nat) (x : state) (co br : bool) (s : st) : st :=
  match nth_error (s_acts s) i with
  | Some a =>
      if state_eqb (a_state a) RUNNING && result_state x then
        let s1 := set_acts (upd_nth (s_acts s) i (mkAct x true (a_start a))) s in
        let s2 := set_hist (s_hist s1 ++ [mkH (s_now s1) x co br]) (set_env co br s1) in
        handle (complete c x (if state_eqb x SUCCESS then INone else IAction) s2)
      else s
  | None => s
  end.

(* _fail_task_if_incomplete: the action executions that are still running are abandoned (state ERROR),
   so that their late results are rejected as results of completed executions *)
Definition abandon (s : st) : st :=
  set_acts (map (fun a => if is_completed (a_state a) then a else mkAct ERROR (a_acc a) (a_start a)) (s_acts s)) s.

(* the scheduler runs pending job j: _continue_task / _complete_task return at once unless the task is
   still RUNNING_DELAYED *)
Definition fire (c : cfg) (j : nat) (s : st) : st :=
  match nth_error (s_jobs s) j with
  | None => s
  | Some jb =>
      let s1 := set_jobs (del_nth (s_jobs s) j) s in
      let s1 := if s_now s <? j_at jb then set_early true s1 else s1 in
      match j_kind jb with
      | JContinue => if state_eqb (s_state s1) RUNNING_DELAYED then continue_task s1 else s1
      | JComplete x i => if state_eqb (s_state s1) RUNNING_DELAYED then handle (complete c x i s1) else s1
      | JTimeout => if is_completed (s_state s1) then s1 else handle (complete c ERROR ITimeout (abandon s1))
      | JRefresh => s1
      end
  end.

Inductive event :=
| EStart
| EResume
| EAct (i : nat) (x : state) (cont brk : bool)
| EFire (j : nat)
| ETick (d : N).

Definition step (c : cfg) (s : st) (e : event) : st :=
  match e with
  | EStart => start c s
  | EResume => resume s
  | EAct i x co br => act_done c i x co br s
  | EFire j => fire c j s
  | ETick d => set_now (s_now s + d) s
  end.

Definition run (c : cfg) (evs : list event) : st := fold_left (step c) evs init.

(* ---- views compared with the implementation (flat lists of numbers) ---- *)
Definition state_code (x : state) : N :=
  match x with
  | IDLE => 1 | WAITING => 2 | RUNNING => 3 | RUNNING_DELAYED => 4 | PAUSED => 5
  | SUCCESS => 6 | CANCELLED => 7 | ERROR => 8 | SKIPPED => 9 | Invalid => 0
  end.
(* only three classes of state_info are compared: none, the timeout message, anything else *)
Definition info_code (i : info) : N := match i with INone => 0 | ITimeout => 1 | _ => 2 end.
Definition b2n (b : bool) : N := if b then 1 else 0.
Definition o2n (o : option N) : N := match o with Some n => n + 1 | None => 0 end.

Definition job_view (j : job) : list N :=
  match j_kind j with
  | JContinue => [j_at j; 1; 0; 0]
  | JComplete x i => [j_at j; 2; state_code x; info_code i]
  | JTimeout => [j_at j; 3; 0; 0]
  | JRefresh => [j_at j; 4; 0; 0]
  end.

Definition view (s : st) : list N :=
  [state_code (s_state s); info_code (s_info s); o2n (s_rno s); b2n (s_wbskip s); b2n (s_waskip s);
   o2n (s_conc s); b2n (s_proc s); state_code (s_wf s); s_now s]
  ++ [N.of_nat (length (s_jobs s))] ++ flat_map job_view (s_jobs s)
  ++ [N.of_nat (length (s_acts s))] ++ flat_map (fun a => [state_code (a_state a); b2n (a_acc a); a_start a]) (s_acts s)
  ++ [N.of_nat (length (s_disp s))] ++ flat_map (fun d => [fst d; state_code (snd d)]) (s_disp s).

(* the views after every event of a trace *)
Fixpoint trace (c : cfg) (s : st) (evs : list event) : list (list N) :=
  match evs with
  | [] => []
  | e :: t => let s' := step c s e in view s' :: trace c s' t
  end.

(* the decision of RetryPolicy.after_task_complete alone, on a task in state x with the
   given retry_no: (state after, retry_no after, job scheduled: 0 none / 1 continue / 4 refresh, run_after) *)
Definition retry_view (join : bool) (r : rcfg) (x : state) (rno : option N) (co br : bool) : list N :=
  let s0 := set_env co br (set_rno rno (set_state x INone init)) in
  match h_retry_after join r s0 with
  | Raise _ => [99]
  | Ok s => [state_code (s_state s); o2n (s_rno s)] ++
            match s_jobs s with
            | [] => [0; 0]
            | j :: _ => [match j_kind j with JContinue => 1 | JRefresh => 4 | _ => 9 end; j_at j]
            end
  end.

Definition cfg_view (c : cfg) : list (option pval) :=
  [c_pause c; c_wb c; c_wa c; c_failon c;
   match c_retry c with Some r => Some (rc_count r) | None => None end;
   match c_retry c with Some r => Some (rc_delay r) | None => None end;
   match c_retry c with Some r => Some (PBool (rc_cont r)) | None => None end;
   match c_retry c with Some r => Some (PBool (rc_brk r)) | None => None end;
   c_timeout c; c_conc c].
