(* Model of the tenancy layer of mistral's db api (property C15).
   Anchors:
     mistral/db/v2/sqlalchemy/api.py:_secure_query, _get_accepted_resources   -> visible, shared_ids
     mistral/db/v2/sqlalchemy/api.py:_get_collection, _get_db_object_by_*,
        _get_count, get_db_objects (admin override of `insecure`)             -> q_visible
     mistral/db/sqlalchemy/model_base.py:_set_project_id (+ column default)   -> owner forced in create / apply_sets
     mistral/db/utils.py:check_db_obj_access                                  -> access_check
     every get/load/create/update/delete/create_or_update function of api.py  -> exec_op over the access shapes
        generated into Gen/DbShapes.v by translate/tr_dbshapes.py
     create/get/update/delete_resource_member(s), _get_criterion              -> mem_* functions
   Correspondence suite: harness/suites/C15.py (suites db_matrix, members; real sqlite DB, auth_enable=True).
   No proofs in this file. *)
From Coq Require Import List Bool Arith String.
Import ListNotations.

(* ---- data ---------------------------------------------------------------- *)

Inductive model :=
  | Workbook | WorkflowDefinition | ActionDefinition | CodeSource | DynamicActionDefinition
  | ActionExecution | WorkflowExecution | TaskExecution | Environment | CronTrigger | EventTrigger.

Definition model_eqb (a b : model) : bool :=
  match a, b with
  | Workbook, Workbook | WorkflowDefinition, WorkflowDefinition | ActionDefinition, ActionDefinition
  | CodeSource, CodeSource | DynamicActionDefinition, DynamicActionDefinition
  | ActionExecution, ActionExecution | WorkflowExecution, WorkflowExecution | TaskExecution, TaskExecution
  | Environment, Environment | CronTrigger, CronTrigger | EventTrigger, EventTrigger => true
  | _, _ => false
  end.

Inductive scope := Private | Public.
Definition is_public (s : scope) : bool := match s with Public => true | Private => false end.

(* one row of a secure table.  Names / namespaces / projects are tokens (nat);
   namespace token 0 is the default namespace ''.  r_data stands for the mutable
   payload columns (description, definition, variables, state ...). *)
Record res := mkRes {
  r_id : nat; r_model : model; r_owner : nat; r_scope : scope;
  r_name : nat; r_ns : nat; r_data : nat; r_system : bool }.

Inductive mstatus := Pending | Accepted | Rejected.
Definition is_accepted (s : mstatus) : bool := match s with Accepted => true | _ => false end.

(* one row of resource_members_v2; m_type token: 0 = 'workflow', 1 = 'workbook' *)
Record member := mkMem { m_res : nat; m_type : nat; m_owner : nat; m_member : nat; m_status : mstatus }.

Record db := mkDb { rows : list res; mems : list member }.
Record ctx := mkCtx { c_project : nat; c_admin : bool }.

(* ---- _secure_query -------------------------------------------------------- *)

(* RESOURCE_MAPPING *)
Definition res_type (m : model) : option nat :=
  match m with WorkflowDefinition => Some 0 | Workbook => Some 1 | _ => None end.

(* _get_accepted_resources(res_type): type, status == 'accepted', member_id == caller *)
Definition accepted_for (c : ctx) (t : nat) (m : member) : bool :=
  (m_type m =? t) && is_accepted (m_status m) && (m_member m =? c_project c).

Definition shared_ids (d : db) (c : ctx) (t : nat) : list nat :=
  map m_res (filter (accepted_for c t) (mems d)).

Definition shared_with (d : db) (c : ctx) (r : res) : bool :=
  match res_type (r_model r) with
  | Some t => existsb (Nat.eqb (r_id r)) (shared_ids d c t)
  | None => false
  end.

(* the filter of _secure_query on a secure model *)
Definition visible (d : db) (c : ctx) (r : res) : bool :=
  (r_owner r =? c_project c) || is_public (r_scope r) || shared_with d c r.

(* ---- access shapes -------------------------------------------------------- *)

(* how the query of a db-api function is built *)
Inductive qmode :=
  | QSecure      (* _secure_query, also for admins *)
  | QAdmin       (* model_query if ctx.is_admin else _secure_query; no `insecure` parameter exposed *)
  | QAdminArg    (* same, and the public function lets its caller pass insecure=True *)
  | QInsecure    (* b.model_query / session.query: no tenancy filter *)
  | QOwn         (* _secure_query further restricted to project_id == caller (also for admins) *)
  | QOwnAdmin.   (* model_query for admin contexts, otherwise restricted to project_id == caller *)

Inductive sel :=
  | SelId            (* id == identifier *)
  | SelName          (* name == identifier *)
  | SelNameNs        (* name == identifier and namespace == ns ('' when None) *)
  | SelNameNsOrId    (* id == identifier or (name == identifier and (ns is None or namespace == ns)) *)
  | SelNameNsOrIdFb  (* the same, retried in namespace '' when nothing matched (get_action_definition) *)
  | SelNameNsDef     (* name == identifier and namespace in (ns, '') (load_workflow_definition) *)
  | SelAll.          (* filters only *)

Record fetch := mkFetch { f_q : qmode; f_sel : sel }.

(* what precedes the mutation of a fetched row *)
Inductive guard :=
  | GNone
  | GOwner     (* owner-or-admin test only *)
  | GAccess.   (* m_dbutils.check_db_obj_access: owner-or-admin, and no system row for non-admins *)

Inductive shape :=
  | SGet (f : fetch)                       (* first match or DBEntityNotFoundError *)
  | SLoad (f : fetch)                      (* first match or None *)
  | SList (q : qmode)                      (* all matches of the caller's filters *)
  | SCount (q : qmode)
  | SCreate (forced : bool)               (* forced: the model class has the _set_project_id 'set' hook *)
  | SUpdate (f : fetch) (g : guard) (forced : bool)  (* fetch as SGet; g: the check before the mutation *)
  | SDeleteObj (f : fetch) (g : guard) (cascade : bool)  (* fetch as SGet, then delete that row (+ its member rows) *)
  | SDeleteQuery (f : fetch)               (* query.filter(sel).delete(): every match; none -> NotFound *)
  | SDeleteAll (q : qmode)                 (* _delete_all: every match of the caller's filters *)
  | SCreateOrUpdate (probe : fetch) (upd : fetch) (g : guard) (forced : bool)
  | SInternal.                             (* engine/service-internal function: not part of the tenant surface *)

(* arguments of one call *)
Record args := mkArgs {
  a_model : model;          (* the table the function works on *)
  a_ident : nat;            (* identifier: compared with ids and with names *)
  a_ns : option nat;        (* namespace argument; None = not given *)
  a_insecure : bool;        (* insecure=True passed by the caller (QAdminArg only) *)
  a_pick : nat;             (* which of several matching rows .first() returns *)
  a_filter_name : option nat;   (* list/delete-all filters *)
  a_filter_owner : option nat;
  a_new_id : nat;           (* create: id, name, ns, scope, payload of the new row *)
  a_new_name : nat; a_new_ns : nat; a_new_scope : scope; a_new_data : nat;
  a_set_data : option nat;  (* update: values *)
  a_set_scope : option scope;
  a_owner_val : option nat  (* values['project_id'] of create / update, when present *)
}.

Inductive result :=
  | RNotFound | RNone | RDenied | RInvalid | RDuplicate | ROk
  | RRow (r : res) | RRows (l : list res) | RCount (n : nat).

Definition q_visible (q : qmode) (d : db) (c : ctx) (a : args) (r : res) : bool :=
  match q with
  | QSecure => visible d c r
  | QAdmin => c_admin c || visible d c r
  | QAdminArg => c_admin c || a_insecure a || visible d c r
  | QInsecure => true
  | QOwn => (r_owner r =? c_project c)
  | QOwnAdmin => c_admin c || (r_owner r =? c_project c)
  end.

Definition ns_is (o : option nat) (r : res) : bool :=
  match o with None => true | Some n => r_ns r =? n end.

Definition sel_match (s : sel) (a : args) (r : res) : bool :=
  match s with
  | SelId => r_id r =? a_ident a
  | SelName => r_name r =? a_ident a
  | SelNameNs => (r_name r =? a_ident a) && (r_ns r =? match a_ns a with Some n => n | None => 0 end)
  | SelNameNsOrId | SelNameNsOrIdFb => (r_id r =? a_ident a) || ((r_name r =? a_ident a) && ns_is (a_ns a) r)
  | SelNameNsDef => (r_name r =? a_ident a) && ((r_ns r =? match a_ns a with Some n => n | None => 0 end) || (r_ns r =? 0))
  | SelAll => true
  end.

Definition in_table (a : args) (r : res) : bool := model_eqb (r_model r) (a_model a).

Definition candidates (f : fetch) (d : db) (c : ctx) (a : args) : list res :=
  let base := filter (fun r => in_table a r && q_visible (f_q f) d c a r) (rows d) in
  let l := filter (sel_match (f_sel f) a) base in
  match f_sel f, l with
  | SelNameNsOrIdFb, [] =>
      filter (fun r => (r_id r =? a_ident a) || ((r_name r =? a_ident a) && (r_ns r =? 0))) base
  | _, _ => l
  end.

(* .first(): any one of the matching rows (SQL gives no order), chosen by a_pick *)
Definition first_of (l : list res) (a : args) : option res :=
  match l with [] => None | x :: _ => Some (nth (a_pick a) l x) end.

Definition filters_match (a : args) (r : res) : bool :=
  match a_filter_name a with None => true | Some n => r_name r =? n end &&
  match a_filter_owner a with None => true | Some p => r_owner r =? p end.

(* check_db_obj_access *)
Inductive access := AOk | ADenied | AInvalid.
Definition access_check (c : ctx) (r : res) : access :=
  if negb (c_admin c) && negb (r_owner r =? c_project c) then ADenied
  else if negb (c_admin c) && r_system r then AInvalid
  else AOk.

Definition guard_check (g : guard) (c : ctx) (r : res) : access :=
  match g with
  | GNone => AOk
  | GOwner => if negb (c_admin c) && negb (r_owner r =? c_project c) then ADenied else AOk
  | GAccess => access_check c r
  end.

(* model.update(values): on a hooked class every set of project_id stores the caller's
   project (_set_project_id); on a class without the hook the given value is stored *)
Definition apply_sets (forced : bool) (c : ctx) (a : args) (r : res) : res :=
  mkRes (r_id r) (r_model r)
        (match a_owner_val a with Some p => if forced then c_project c else p | None => r_owner r end)
        (match a_set_scope a with Some s => s | None => r_scope r end)
        (r_name r) (r_ns r)
        (match a_set_data a with Some x => x | None => r_data r end)
        (r_system r).

Definition replace_row (r' : res) (l : list res) : list res :=
  map (fun x => if (r_id x =? r_id r') then r' else x) l.

Definition remove_row (i : nat) (l : list res) : list res :=
  filter (fun x => negb (r_id x =? i)) l.

(* unique constraints: 0 none, 1 (name, project), 2 (name, namespace, project) *)
Definition unique_kind (m : model) : nat :=
  match m with
  | Workbook | WorkflowDefinition | ActionDefinition | CodeSource | DynamicActionDefinition => 2
  | Environment | CronTrigger => 1
  | _ => 0
  end.

(* ids are UUIDs: unique over all tables *)
Definition clashes (r x : res) : bool :=
  (r_id x =? r_id r) ||
  (model_eqb (r_model x) (r_model r) &&
   match unique_kind (r_model r) with
   | 0 => false
   | 1 => (r_name x =? r_name r) && (r_owner x =? r_owner r)
   | _ => (r_name x =? r_name r) && (r_ns x =? r_ns r) && (r_owner x =? r_owner r)
   end).

(* column default security.get_project_id; an explicit value survives only without the hook *)
Definition new_row (forced : bool) (c : ctx) (a : args) : res :=
  mkRes (a_new_id a) (a_model a)
        (match a_owner_val a with Some p => if forced then c_project c else p | None => c_project c end)
        (a_new_scope a) (a_new_name a) (a_new_ns a) (a_new_data a) false.

Definition do_create (forced : bool) (d : db) (c : ctx) (a : args) : result * db :=
  let r := new_row forced c a in
  if existsb (clashes r) (rows d) then (RDuplicate, d)
  else (RRow r, mkDb (rows d ++ [r]) (mems d)).

Definition do_update (f : fetch) (g : guard) (forced : bool) (d : db) (c : ctx) (a : args) : result * db :=
  match first_of (candidates f d c a) a with
  | None => (RNotFound, d)
  | Some r =>
      match guard_check g c r with
      | ADenied => (RDenied, d)
      | AInvalid => (RInvalid, d)
      | AOk => let r' := apply_sets forced c a r in (RRow r', mkDb (replace_row r' (rows d)) (mems d))
      end
  end.

Definition drop_members (i : nat) (t : option nat) (l : list member) : list member :=
  match t with
  | Some t => filter (fun m => negb ((m_res m =? i) && (m_type m =? t))) l
  | None => l
  end.

Definition exec_op (s : shape) (d : db) (c : ctx) (a : args) : result * db :=
  match s with
  | SGet f => (match first_of (candidates f d c a) a with Some r => RRow r | None => RNotFound end, d)
  | SLoad f => (match first_of (candidates f d c a) a with Some r => RRow r | None => RNone end, d)
  | SList q => (RRows (filter (filters_match a) (candidates (mkFetch q SelAll) d c a)), d)
  | SCount q => (RCount (List.length (filter (filters_match a) (candidates (mkFetch q SelAll) d c a))), d)
  | SCreate forced => do_create forced d c a
  | SUpdate f g forced => do_update f g forced d c a
  | SDeleteObj f g cascade =>
      match first_of (candidates f d c a) a with
      | None => (RNotFound, d)
      | Some r =>
          match guard_check g c r with
          | ADenied => (RDenied, d)
          | AInvalid => (RInvalid, d)
          | AOk => (ROk, mkDb (remove_row (r_id r) (rows d))
                              (if cascade then drop_members (r_id r) (res_type (r_model r)) (mems d) else mems d))
          end
      end
  | SDeleteQuery f =>
      let hit := candidates f d c a in
      match hit with
      | [] => (RNotFound, d)
      | _ => (ROk, mkDb (filter (fun r => negb (existsb (fun h => r_id h =? r_id r) hit)) (rows d)) (mems d))
      end
  | SDeleteAll q =>
      let hit := filter (filters_match a) (candidates (mkFetch q SelAll) d c a) in
      (ROk, mkDb (filter (fun r => negb (existsb (fun h => r_id h =? r_id r) hit)) (rows d)) (mems d))
  | SCreateOrUpdate probe upd g forced =>
      match candidates probe d c a with
      | [] => do_create forced d c a
      | _ => do_update upd g forced d c a
      end
  | SInternal => (ROk, d)
  end.

(* ---- membership functions -------------------------------------------------- *)

Record margs := mkMargs {
  g_res : nat; g_type : nat; g_member : nat;        (* resource_id, res_type, member_id *)
  g_owner : option nat;                             (* values['project_id'] of create (column default: caller) *)
  g_status : mstatus                                (* status to store *)
}.

Inductive mop := MCreate | MGet | MList | MUpdate | MDelete.

Inductive mresult := MNotFound | MDuplicate | MOk | MRow (m : member) | MRows (l : list member).

(* _get_criterion(resource_id, member_id, is_owner=True) *)
Definition crit_owner (c : ctx) (g : margs) (with_member : bool) (m : member) : bool :=
  (m_owner m =? c_project c) && (m_res m =? g_res g) && (if with_member then m_member m =? g_member g else true).

(* _get_criterion(resource_id, member_id, is_owner=False) *)
Definition crit_member (c : ctx) (g : margs) (with_member : bool) (m : member) : bool :=
  if with_member && negb (g_member g =? c_project c) then false
  else (m_member m =? c_project c) && (m_res m =? g_res g).

Definition mem_exec (o : mop) (d : db) (c : ctx) (g : margs) : mresult * db :=
  let typed := fun m : member => m_type m =? g_type g in
  match o with
  | MCreate =>
      let m := mkMem (g_res g) (g_type g) (match g_owner g with Some p => p | None => c_project c end)
                     (g_member g) (g_status g) in
      if existsb (fun x => (m_res x =? g_res g) && (m_type x =? g_type g) && (m_member x =? g_member g)) (mems d)
      then (MDuplicate, d) else (MRow m, mkDb (rows d) (mems d ++ [m]))
  | MGet =>
      match filter (fun m => typed m && (crit_owner c g true m || crit_member c g true m)) (mems d) with
      | [] => (MNotFound, d)
      | m :: _ => (MRow m, d)
      end
  | MList => (MRows (filter (fun m => typed m && (crit_owner c g false m || crit_member c g false m)) (mems d)), d)
  | MUpdate =>
      if negb (g_member g =? c_project c) then (MNotFound, d)
      else match filter (fun m => typed m && crit_member c g true m) (mems d) with
           | [] => (MNotFound, d)
           | m :: _ =>
               let m' := mkMem (m_res m) (m_type m) (m_owner m) (m_member m) (g_status g) in
               (MRow m', mkDb (rows d)
                  (map (fun x => if (m_res x =? m_res m) && (m_type x =? m_type m) && (m_member x =? m_member m)
                                 then m' else x) (mems d)))
           end
  | MDelete =>
      let hit := fun m => typed m && crit_owner c g true m in
      if existsb hit (mems d) then (MOk, mkDb (rows d) (filter (fun m => negb (hit m)) (mems d)))
      else (MNotFound, d)
  end.

(* ---- printing (correspondence) --------------------------------------------- *)

Definition find_row (i : nat) (d : db) : option res := find (fun r => r_id r =? i) (rows d).

Definition scope_code (s : scope) : nat := match s with Private => 0 | Public => 1 end.

(* (id, owner, scope, data) of every row, in table order *)
Definition dump_rows (d : db) : list (nat * nat * nat * nat) :=
  map (fun r => (r_id r, r_owner r, scope_code (r_scope r), r_data r)) (rows d).

Definition status_code (s : mstatus) : nat := match s with Pending => 0 | Accepted => 1 | Rejected => 2 end.

Definition dump_mems (d : db) : list (nat * nat * nat * nat * nat) :=
  map (fun m => (m_res m, m_type m, m_owner m, m_member m, status_code (m_status m))) (mems d).

(* outcome class: a tag and the ids involved *)
Definition result_view (r : result) : string * list nat :=
  match r with
  | RNotFound => ("notfound"%string, [])
  | RNone => ("none"%string, [])
  | RDenied => ("denied"%string, [])
  | RInvalid => ("invalid"%string, [])
  | RDuplicate => ("duplicate"%string, [])
  | ROk => ("ok"%string, [])
  | RRow x => ("row"%string, [r_id x])
  | RRows l => ("rows"%string, map r_id l)
  | RCount n => ("count"%string, [n])
  end.

Definition run_view (s : shape) (d : db) (c : ctx) (a : args) :=
  let '(r, d') := exec_op s d c a in (result_view r, dump_rows d', dump_mems d').

(* every outcome the model allows for the call: one per choice of .first() *)
Definition run_views (s : shape) (d : db) (c : ctx) (a : args) (picks : nat) :=
  map (fun p => run_view s d c
     (mkArgs (a_model a) (a_ident a) (a_ns a) (a_insecure a) p (a_filter_name a) (a_filter_owner a)
             (a_new_id a) (a_new_name a) (a_new_ns a) (a_new_scope a) (a_new_data a)
             (a_set_data a) (a_set_scope a) (a_owner_val a))) (seq 0 picks).

Definition mresult_view (r : mresult) : string * list (nat * nat * nat * nat * nat) :=
  let v := fun m => (m_res m, m_type m, m_owner m, m_member m, status_code (m_status m)) in
  match r with
  | MNotFound => ("notfound"%string, [])
  | MDuplicate => ("duplicate"%string, [])
  | MOk => ("ok"%string, [])
  | MRow m => ("row"%string, [v m])
  | MRows l => ("rows"%string, map v l)
  end.

Definition mem_view (o : mop) (d : db) (c : ctx) (g : margs) :=
  let '(r, d') := mem_exec o d c g in (mresult_view r, dump_mems d').

(* ---- what this model assumes about the helper code ------------------------------
   The extractor (translate/tr_dbshapes.py) reads these facts from the source on every
   run into Gen.DbShapes.code_facts; Properties/C15.v states code_facts = expected_facts.
   _secure_query: own / public / accepted-share clauses            -> visible
   _get_accepted_resources: type, status 'accepted', member=caller -> accepted_for
   check_db_obj_access: foreign -> NotAllowed, system -> Invalid   -> access_check
   _set_project_id + hook registration                              -> forced owner
   _get_criterion and the resource-member functions                 -> mem_exec *)
Local Open Scope string_scope.
Definition expected_facts : list (string * list string) := [
  ("MistralSecureModelBase.columns", ["scope default='private'"; "project_id default=security.get_project_id"]);
  ("RESOURCE_MAPPING", ["models.WorkflowDefinition='workflow'"; "models.Workbook='workbook'"]);
  ("_get_accepted_resources", ["_secure_query"; "models.ResourceMember.resource_type == res_type"; "models.ResourceMember.status == 'accepted'"; "models.ResourceMember.member_id == security.get_project_id()"]);
  ("_get_criterion", ["params: resource_id, member_id=None, is_owner=True"; "if is_owner and member_id"; "return sa.and_(models.ResourceMember.project_id == security.get_project_id(), models.ResourceMember.resource_id == resource_id, models.ResourceMember.member_id == member_id)"; "else"; "if is_owner and (not member_id)"; "return sa.and_(models.ResourceMember.project_id == security.get_project_id(), models.ResourceMember.resource_id == resource_id)"; "else"; "if not is_owner and member_id and (member_id != security.get_project_id())"; "return None"; "return sa.and_(models.ResourceMember.member_id == security.get_project_id(), models.ResourceMember.resource_id == resource_id)"]);
  ("_secure_query", ["nonsecure passthrough"; "or: own"; "or: public"; "or: shared"; "filter: query.filter(query_criterion)"; "src: []"; "src: RESOURCE_MAPPING.get(model, '')"; "src: _get_accepted_resources(res_type)"; "src: [res.resource_id for res in shared_res]"; "if: not issubclass(model, mb.MistralSecureModelBase)"; "if: res_type"; "if: shared_res_ids"; "returns: query"]);
  ("_set_project_id", ["return security.get_project_id()"]);
  ("check_db_obj_access", ["ctx = context.ctx()"; "is_admin = ctx.is_admin"; "if not is_admin and db_obj.project_id != security.get_project_id(): raise exc.NotAllowedException"; "if not is_admin and hasattr(db_obj, 'is_system') and db_obj.is_system: raise exc.InvalidActionException"]);
  ("create_resource_member", [".update()"; ".save(session=session)"]);
  ("delete_resource_member", ["if count == 0: raise exc.DBEntityNotFoundError"; ".delete()"; "_get_criterion(resource_id, member_id)"; ".filter_by(resource_type=res_type)"; "_secure_query(models.ResourceMember)"]);
  ("facade", ["load_action_definition: retried with namespace=''"]);
  ("get_resource_member", ["if not res_member: raise exc.DBEntityNotFoundError"; ".filter_by(resource_type=res_type)"; ".first()"; "_secure_query(models.ResourceMember)"; "sa.or_"; "_get_criterion(resource_id, member_id)"; "_get_criterion(resource_id, member_id, is_owner=False)"]);
  ("get_resource_members", [".filter_by(resource_type=res_type)"; ".all()"; "_secure_query(models.ResourceMember)"; "sa.or_"; "_get_criterion(resource_id)"; "_get_criterion(resource_id, is_owner=False)"]);
  ("register_secure_model_hooks", ["for sec_model_class in utils.iter_subclasses(MistralSecureModelBase)"; "if '__abstract__' not in sec_model_class.__dict__"; "listen(sec_model_class.project_id, 'set', _set_project_id, retval=True)"]);
  ("update_resource_member", ["if member_id != security.get_project_id(): raise exc.DBEntityNotFoundError"; "if not res_member: raise exc.DBEntityNotFoundError"; ".filter_by(resource_type=res_type)"; ".first()"; ".update()"; "_secure_query(models.ResourceMember)"; "_get_criterion(resource_id, member_id, is_owner=False)"])
].

(* ---- the REST list layer -----------------------------------------------------------
   Anchors:
     mistral/utils/rest_utils.py:get_all       the `insecure` decision (a disjunction of conditions, extracted into
                                               Gen.RestLists.insecure_cond) handed to the db-api list function
     mistral/api/controllers/v2/*.py           every method that ends in rest_utils.get_all: the policy rule enforced
                                               first, the gate of '<x>:list:all_projects', whether all_projects and a
                                               project_id filter are passed on (Gen.RestLists.rest_lists)
     mistral/policies/*.py                     default check string of each rule (admin_only / admin_or_owner)
   Correspondence suite: harness/suites/C15.py (suite rest_lists, the real pecan application). *)

Inductive icond := IAllProjects | IAdmin | IFilterProjectId.
Inductive rule := RAdminOnly | RAdminOrOwner.
(* when the controller enforces '<x>:list:all_projects' *)
Inductive gate := GateNever | GateAllp | GateAllpOrPid.

Record list_ep := mkListEp {
  le_model : model;
  le_fn : string;            (* the db-api list function *)
  le_rule : rule;            (* '<x>:list', enforced unconditionally *)
  le_gate : gate;
  le_allp_rule : rule;       (* '<x>:list:all_projects' *)
  le_pass_allp : bool;       (* all_projects is handed to rest_utils.get_all *)
  le_pass_pid : bool         (* a project_id filter can reach rest_utils.get_all *)
}.

(* one list request: all_projects, project_id filter, name filter *)
Record lreq := mkLreq { lq_allp : bool; lq_pid : option nat; lq_name : option nat }.

Inductive lresult := LForbidden | LOk (l : list res).

(* oslo.policy defaults: admin_only = is_admin:True; admin_or_owner = is_admin:True or project_id:%(project_id)s
   with the target project taken from the caller's own context (access_control.enforce): always satisfied *)
Definition rule_ok (r : rule) (admin : bool) : bool :=
  match r with RAdminOnly => admin | RAdminOrOwner => true end.

Definition gate_fires (g : gate) (allp pid_set : bool) : bool :=
  match g with GateNever => false | GateAllp => allp | GateAllpOrPid => allp || pid_set end.

Definition icond_holds (i : icond) (allp pid_set admin : bool) : bool :=
  match i with IAllProjects => allp | IAdmin => admin | IFilterProjectId => pid_set end.

Definition is_some {A : Type} (o : option A) : bool := match o with Some _ => true | None => false end.

(* the insecure flag rest_utils.get_all computes for a request that passed the gates *)
Definition rest_insecure (ic : list icond) (ep : list_ep) (allp_req pid_req admin : bool) : bool :=
  existsb (fun i => icond_holds i (le_pass_allp ep && allp_req) (le_pass_pid ep && pid_req) admin) ic.

Definition rest_args (ep : list_ep) (insecure : bool) (r : lreq) : args :=
  mkArgs (le_model ep) 0 None insecure 0 (lq_name r) (if le_pass_pid ep then lq_pid r else None)
         0 0 0 Private 0 None None None.

(* q is the query mode of the db-api list function (its shape is SList q) *)
Definition rest_list (ic : list icond) (ep : list_ep) (q : qmode) (d : db) (c : ctx) (r : lreq) : lresult :=
  let allp := lq_allp r in
  let pid := is_some (lq_pid r) in
  if negb (rule_ok (le_rule ep) (c_admin c)) then LForbidden
  else if gate_fires (le_gate ep) allp pid && negb (rule_ok (le_allp_rule ep) (c_admin c)) then LForbidden
  else
    let a := rest_args ep (rest_insecure ic ep allp pid (c_admin c)) r in
    LOk (filter (filters_match a) (candidates (mkFetch q SelAll) d c a)).

Definition rest_view (ic : list icond) (ep : list_ep) (q : qmode) (d : db) (c : ctx) (r : lreq) : string * list nat :=
  match rest_list ic ep q d c r with
  | LForbidden => ("forbidden", [])
  | LOk l => ("ok", map r_id l)
  end.

(* facts about rest_utils.get_all and the policy base rules the model relies on (compared in Properties/C15.v) *)
Definition expected_rest_facts : list (string * list string) := [
  ("access_control.enforce", ["target_obj='project_id':context.project_id, 'user_id':context.user_id";
                              "policy_context['is_admin']=context.is_admin"; "target_obj.update(target or {})";
                              "authorize(action, target_obj, policy_context)"]);
  ("policy.base", ["admin_only=is_admin:True"; "admin_or_owner=is_admin:True or project_id:%(project_id)s"]);
  ("rest_utils.get_all", ["param all_projects=False"; "insecure = False";
                          "get_all_function(..., insecure=insecure, **filters) x2"; "no other assignment to insecure"])
].
