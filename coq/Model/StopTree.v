(* Model of the operator requests stop / cancel / pause / resume over the EXECUTION TREE and of the hand-off
   of a finished sub-workflow to its parent task (property C11, tree clauses; property C10, pause clause).

   A workflow execution is a node (state, state_info tag, number of results it has sent to its parent, its
   task executions); a task execution is (state, kind, the sub-workflow executions it owns) - an action task
   owns none, a `workflow:` task owns one (Plain) or one per item (Items).  Addresses: a path of
   (task position, sub-workflow position) pairs from the root.  One function = one committed transaction of
   the engine; Declared = a declared exception escaped and the transaction was rolled back.

   Anchors (source function -> model definition):
     mistral/engine/workflow_handler.py:stop_workflow (wf.stop, then for CANCELLED the walk over ALL task
        executions and ALL their sub-workflow executions)                              -> stop_node / cancel
     mistral/engine/workflows.py:Workflow.stop, _succeed_workflow (nothing if already SUCCESS),
        _fail_workflow / _cancel_workflow (nothing if completed), set_state (transition table,
        WorkflowException otherwise), _send_result_to_parent_workflow                 -> stop_row, finish
     mistral/engine/workflow_handler.py:pause_workflow / _pause_subworkflows (finished sub-workflows are walked through)
        + workflows.py:Workflow.pause (nothing if PAUSED; set_state; schedule_on_action_update)
        + task_handler.py:schedule_on_action_update (synchronous unless with-items), _on_action_update
          (Task.update(PAUSED), then pause_workflow of the parent workflow)           -> pause_down, pause_path
     mistral/engine/workflow_handler.py:resume_workflow / _resume_subworkflows (nothing unless PAUSED / IDLE; finished
        sub-workflows are walked through) + Workflow.resume (set_state(RUNNING); schedule_on_action_update)
        + _on_action_update (Task.update(RUNNING) unless a child is PAUSED; the parent workflow is resumed
          when none of its tasks is PAUSED)                                           -> resume_down, resume_path
     mistral/engine/default_engine.py:on_action_complete(wf_action=True) -> action_handler ->
        task_handler._on_action_complete -> tasks.py:RegularTask.on_action_complete / Task.complete
        ("ignore if task already completed"), WithItemsTask.on_action_complete (is_with_items_completed,
        _get_final_state)                                                             -> deliver_task, deliver_at
     mistral/engine/workflows.py:Workflow.start / _get_parent_workflow_execution (a sub-workflow started below a
        CANCELLED workflow is cancelled at once, before any task is created)            -> new_child, start_child_at
   The three walks go THROUGH finished sub-workflows (a forced stop ERROR / SUCCESS of an inner execution leaves
   its sub-workflows running) and only skip the state change of the finished execution itself.
   Class of trees (in_class): no IDLE workflow execution (an execution is created and set RUNNING in one
   transaction).
   What a resume CONTINUES with (dispatch of next tasks) and the completion check of a workflow are the core
   model's business (Model/Engine.v).
   Correspondence: harness/engine_stoptree.py (called from harness/suites/C11.py and C10.py) abstracts the DB
   tree of the REAL engine before / after every operator request and every delivery of a failed or cancelled
   sub-workflow's result and compares with stop_at / pause_at / resume_at / deliver_at.
   No proofs in this file. *)
From Coq Require Import List Bool Arith.
Require Import Mistral.Gen.States.
Import ListNotations.

Inductive kind := Plain | Items.
Inductive outcome := Ok | Declared | OutOfClass.

(* mkN state state_info_tag sent tasks;  a task is (state, kind, sub-workflow executions) *)
Inductive node := mkN : state -> nat -> nat -> list (state * kind * list node) -> node.
Definition task := (state * kind * list node)%type.
Definition path := list (nat * nat).

Definition nstate (n : node) : state := match n with mkN st _ _ _ => st end.
Definition ninfo (n : node) : nat := match n with mkN _ i _ _ => i end.
Definition nsent (n : node) : nat := match n with mkN _ _ s _ => s end.
Definition ntasks (n : node) : list task := match n with mkN _ _ _ ts => ts end.
Definition finished (n : node) : bool := is_completed (nstate n).

Fixpoint upd {A : Type} (n : nat) (f : A -> A) (l : list A) : list A :=
  match l, n with
  | [], _ => []
  | x :: r, 0 => f x :: r
  | x :: r, S k => x :: upd k f r
  end.

Definition can_go (a b : state) : bool := match is_valid_transition a b with Some true => true | _ => false end.

(* ------------------------------------------------------------------ *)
(* stop                                                                 *)

(* the row of a workflow that reaches a final state: state_info := msg, and a sub-workflow sends its result *)
Definition finish (child : bool) (st : state) (msg sent : nat) (ts : list task) : node :=
  mkN st msg (if child then S sent else sent) ts.

(* stop_workflow(wf_ex, CANCELLED, msg): wf.stop (nothing if completed), then every sub-workflow of every task *)
Fixpoint cancel (child : bool) (m : nat) (n : node) : node :=
  match n with
  | mkN st info sent ts =>
    let ts' := map (fun t : task => let '(s, k, subs) := t in (s, k, map (cancel true m) subs)) ts in
    if is_completed st then mkN st info sent ts' else finish child CANCELLED m sent ts'
  end.

(* every execution the walk sets to CANCELLED must be allowed to go there (else WorkflowException, rollback) *)
Fixpoint cancel_ok (n : node) : bool :=
  match n with
  | mkN st _ _ ts =>
    (is_completed st || can_go st CANCELLED) &&
    forallb (fun t : task => let '(_, _, subs) := t in forallb cancel_ok subs) ts
  end.

Definition stop_node (child : bool) (s : state) (m : nat) (n : node) : node * outcome :=
  match n with
  | mkN st info sent ts =>
    match s with
    | CANCELLED => if cancel_ok n then (cancel child m n, Ok) else (n, Declared)
    | ERROR => if is_completed st then (n, Ok)
               else if can_go st ERROR then (finish child ERROR m sent ts, Ok) else (n, Declared)
    | SUCCESS => if state_eqb st SUCCESS then (n, Ok)
                 else if can_go st SUCCESS then (finish child SUCCESS m sent ts, Ok) else (n, Declared)
    | _ => (n, Declared)
    end
  end.

(* apply an operation to the node at an address; None = no such execution *)
Fixpoint at_path (p : path) (f : bool -> node -> node * outcome) (child : bool) (n : node) : option (node * outcome) :=
  match p with
  | [] => Some (f child n)
  | (ti, si) :: rest =>
    match n with
    | mkN st info sent ts =>
      match nth_error ts ti with
      | None => None
      | Some (s, k, subs) =>
        match nth_error subs si with
        | None => None
        | Some c =>
          match at_path rest f true c with
          | None => None
          | Some (c', o) => Some (mkN st info sent (upd ti (fun _ => (s, k, upd si (fun _ => c') subs)) ts), o)
          end
        end
      end
    end
  end.

(* ------------------------------------------------------------------ *)
(* late start of a sub-workflow                                         *)

(* workflows.py:Workflow.start of a sub-workflow (the start_workflow request sent by WorkflowAction.schedule is
   processed): set_state(RUNNING); if the execution that owns the parent task is CANCELLED - the cancel came while the
   request was on its way - _cancel_workflow(parent's state_info) and return before any command is dispatched: the new
   execution is CANCELLED with the parent's message, owns no task and reports to its parent task.  Otherwise it is
   RUNNING (its first tasks are created by the workflow definition: not part of this model, the node is shown bare). *)
Definition new_child (parent : node) : node :=
  if state_eqb (nstate parent) CANCELLED then mkN CANCELLED (ninfo parent) 1 [] else mkN RUNNING 0 0 [].

(* the start of task ti (task_handler.run_task -> RegularTask._run_new: an IDLE task becomes RUNNING;
   WorkflowAction.schedule starts the sub-workflow - cnt of them for a with-items task - in the same transaction, or
   the start_workflow request is processed later: cnt new executions are appended) *)
Definition start_node (ti cnt : nat) (child : bool) (n : node) : node * outcome :=
  match n with
  | mkN st info sent ts =>
    match nth_error ts ti with
    | Some (s, k, subs) =>
      (mkN st info sent (upd ti (fun _ => ((if state_eqb s IDLE then RUNNING else s), k, subs ++ repeat (new_child n) cnt)) ts), Ok)
    | None => (n, Declared)
    end
  end.

(* the address names the execution that owns the task, ti the task *)
Definition start_child_at (p : path) (ti cnt : nat) (n : node) : node * outcome :=
  match at_path p (start_node ti cnt) false n with Some r => r | None => (n, Declared) end.

(* ------------------------------------------------------------------ *)
(* class of trees                                                       *)
Fixpoint all_nodes (P : node -> bool) (n : node) : bool :=
  P n && match n with mkN _ _ _ ts => forallb (fun t : task => let '(_, _, subs) := t in forallb (all_nodes P) subs) ts end.

Definition in_class (n : node) : bool := all_nodes (fun c => negb (state_eqb (nstate c) IDLE)) n.

Definition guarded (n : node) (r : option (node * outcome)) : node * outcome :=
  if in_class n then match r with Some x => x | None => (n, Declared) end else (n, OutOfClass).

Definition stop_at (s : state) (m : nat) (p : path) (n : node) : node * outcome :=
  guarded n (at_path p (fun child c => stop_node child s m c) false n).

(* ------------------------------------------------------------------ *)
(* pause                                                                *)

(* Task.update(PAUSED): ignored for a completed task or an invalid transition *)
Definition task_pause (s : state) : state := if is_completed s then s else if can_go s PAUSED then PAUSED else s.
(* Task.update(RUNNING) (the caller has checked that no child is PAUSED) *)
Definition task_resume (s : state) : state := if is_completed s then s else if can_go s RUNNING then RUNNING else s.

(* pause_workflow(wf_ex) = _pause_subworkflows(wf_ex), then wf.pause; _pause_subworkflows walks THROUGH finished
   sub-workflows (their own state is left alone) and pauses the others.  A sub-workflow that changes to PAUSED updates
   its Plain parent task at once (an Items one through a scheduled job): Task.update(PAUSED), then pause_workflow of the
   task's workflow - when that workflow is finished wf.pause raises, _on_action_update catches it and force_fail_task
   sets the task to ERROR whatever its state was *)
Fixpoint pause_down (n : node) : node :=
  match n with
  | mkN st info sent ts =>
    let ts' := map (fun t : task => let '(s, k, subs) := t in
                 let hit := existsb (fun c => state_eqb (nstate c) RUNNING) subs in
                 ((match k with
                   | Plain => if hit then (if is_completed st then ERROR else task_pause s) else s
                   | Items => s
                   end), k, map pause_down subs)) ts in
    mkN (if state_eqb st RUNNING then PAUSED else st) info sent ts'
  end.

(* pause at an address: returns the new tree and whether the pause goes on upwards (the execution changed to
   PAUSED and its parent task is Plain: _on_action_update pauses the parent workflow in the same transaction) *)
Fixpoint pause_path (p : path) (n : node) : option (node * bool) :=
  match p with
  | [] => if state_eqb (nstate n) RUNNING || state_eqb (nstate n) PAUSED
          then Some (pause_down n, state_eqb (nstate n) RUNNING) else None
  | (ti, si) :: rest =>
    match n with
    | mkN st info sent ts =>
      match nth_error ts ti with
      | None => None
      | Some (s, k, subs) =>
        match nth_error subs si with
        | None => None
        | Some c =>
          match pause_path rest c with
          | None => None
          | Some (c', up) =>
            let go := up && match k with Plain => true | Items => false end in
            let s1 := if go then (if is_completed st then ERROR else task_pause s) else s in
            let n1 := mkN st info sent (upd ti (fun _ => (s1, k, upd si (fun _ => c') subs)) ts) in
            if go then Some (pause_down n1, state_eqb st RUNNING) else Some (n1, false)
          end
        end
      end
    end
  end.

Definition pause_at (p : path) (n : node) : node * outcome :=
  guarded n (match pause_path p n with Some (n', _) => Some (n', Ok) | None => None end).

(* ------------------------------------------------------------------ *)
(* resume                                                               *)
Definition resumable (st : state) : bool := state_eqb st PAUSED || state_eqb st IDLE.

(* what resume_workflow / _resume_subworkflows do to a sub-workflow: a finished one is walked through, a PAUSED (or
   IDLE) one is resumed after its own sub-workflows, any other returns at once; a sub-workflow that changes to
   RUNNING updates its Plain parent task at once (unless another child of it is PAUSED) *)
Fixpoint resume_walk (n : node) : node :=
  match n with
  | mkN st info sent ts =>
    if is_completed st || resumable st then
      let ts' := map (fun t : task => let '(s, k, subs) := t in
                   let subs' := map resume_walk subs in
                   let hit := existsb (fun c => resumable (nstate c)) subs in
                   let still := existsb (fun c => state_eqb (nstate c) PAUSED) subs' in
                   ((match k with Plain => if hit && negb still then task_resume s else s | Items => s end), k, subs')) ts in
      mkN (if is_completed st then st else RUNNING) info sent ts'
    else n
  end.

(* resume_workflow(wf_ex) as requested for wf_ex itself: nothing unless it is PAUSED (or IDLE) *)
Definition resume_down (n : node) : node := if resumable (nstate n) then resume_walk n else n.

Definition any_task_paused (ts : list task) : bool := existsb (fun t : task => let '(s, _, _) := t in state_eqb s PAUSED) ts.

Fixpoint resume_path (p : path) (n : node) : option (node * bool) :=
  match p with
  | [] => Some (resume_down n, resumable (nstate n))
  | (ti, si) :: rest =>
    match n with
    | mkN st info sent ts =>
      match nth_error ts ti with
      | None => None
      | Some (s, k, subs) =>
        match nth_error subs si with
        | None => None
        | Some c =>
          match resume_path rest c with
          | None => None
          | Some (c', up) =>
            let go := up && match k with Plain => true | Items => false end in
            let ts1 := upd ti (fun _ => ((if go then task_resume s else s), k, upd si (fun _ => c') subs)) ts in
            let n1 := mkN st info sent ts1 in
            if go && negb (any_task_paused ts1) then Some (resume_down n1, resumable st) else Some (n1, false)
          end
        end
      end
    end
  end.

(* Workflow.resume continues the workflow in the same transaction; when nothing is left to do the completion
   check runs at once and may finish the execution again (core model: Model/Engine.v).  The tree model only
   speaks about resumes after which every RUNNING execution still has an unfinished task. *)
Definition settled (n : node) : bool :=
  all_nodes (fun c => negb (state_eqb (nstate c) RUNNING) ||
                      existsb (fun t : task => negb (is_completed (fst (fst t)))) (ntasks c)) n.

Definition resume_at (p : path) (n : node) : node * outcome :=
  if in_class n
  then match resume_path p n with
       | Some (n', _) => if settled n' then (n', Ok) else (n, OutOfClass)
       | None => (n, Declared)
       end
  else (n, OutOfClass).

(* ------------------------------------------------------------------ *)
(* deferred report of a pause / resume to a with-items parent task      *)

(* task_handler._scheduled_on_action_update -> _on_action_update for the sub-workflow at the address (scheduled by
   schedule_on_action_update when the parent task is with-items; a Plain parent is updated at once, see pause_path /
   resume_path): nothing for a finished sub-workflow; a PAUSED one: Task.update(PAUSED), then pause_workflow of the
   task's workflow (which comes DOWN again to the sibling items and goes on upwards); a RUNNING one:
   Task.update(RUNNING) unless another child is PAUSED, then - if no task of the workflow is PAUSED - resume_workflow *)
Inductive note := NPause | NResume | NNone.

Definition up_pause (st : state) (info sent : nat) (ts : list task) (ti : nat) (s : state) (k : kind) (subs : list node) : node * note :=
  let s1 := if is_completed st then ERROR else task_pause s in
  (pause_down (mkN st info sent (upd ti (fun _ => (s1, k, subs)) ts)), if state_eqb st RUNNING then NPause else NNone).

Definition up_resume (st : state) (info sent : nat) (ts : list task) (ti : nat) (s : state) (k : kind) (subs : list node) : node * note :=
  let s1 := if existsb (fun x => state_eqb (nstate x) PAUSED) subs then s else task_resume s in
  let ts1 := upd ti (fun _ => (s1, k, subs)) ts in
  if any_task_paused ts1 then (mkN st info sent ts1, NNone)
  else (resume_down (mkN st info sent ts1), if resumable st then NResume else NNone).

Fixpoint notify_path (p : path) (n : node) : option (node * note) :=
  match p with
  | [] => None
  | (ti, si) :: rest =>
    match n with
    | mkN st info sent ts =>
      match nth_error ts ti with
      | None => None
      | Some (s, k, subs) =>
        match nth_error subs si with
        | None => None
        | Some c =>
          match rest with
          | [] =>
            if finished c then Some (n, NNone)
            else if state_eqb (nstate c) PAUSED then Some (up_pause st info sent ts ti s k subs)
            else if is_running (nstate c) then Some (up_resume st info sent ts ti s k subs)
            else Some (n, NNone)
          | _ =>
            match notify_path rest c with
            | None => None
            | Some (c', nt) =>
              let subs' := upd si (fun _ => c') subs in
              match nt, k with
              | NPause, Plain => Some (up_pause st info sent ts ti s k subs')
              | NResume, Plain => Some (up_resume st info sent ts ti s k subs')
              | _, _ => Some (mkN st info sent (upd ti (fun _ => (s, k, subs')) ts), NNone)
              end
            end
          end
        end
      end
    end
  end.

Definition notify_at (p : path) (n : node) : node * outcome :=
  if in_class n
  then match notify_path p n with
       | Some (n', _) => if settled n' then (n', Ok) else (n, OutOfClass)
       | None => (n, Declared)
       end
  else (n, OutOfClass).

(* ------------------------------------------------------------------ *)
(* hand-off of a finished sub-workflow to its parent task               *)

(* what the parent task becomes when the result of one of its finished sub-workflows is processed: a function of
   its own state, its kind and the states of its sub-workflow executions *)
Definition dstate (s : state) (k : kind) (l : list state) : state :=
  if is_completed s then s
  else match k with
       | Plain => match l with
                  | [c] => if is_completed c then c else s
                  | _ => s
                  end
       | Items =>
         if existsb (fun c => state_eqb c CANCELLED) l then CANCELLED
         else if (2 <=? length l) && forallb is_completed l
              then (if existsb (fun c => state_eqb c ERROR) l then ERROR else SUCCESS)
              else s
       end.

Definition deliver_task (t : task) : task :=
  let '(s, k, subs) := t in (dstate s k (map nstate subs), k, subs).

(* the address names the sub-workflow whose result is delivered; only a finished one sends a result *)
Fixpoint deliver_path (p : path) (n : node) : option node :=
  match p with
  | [] => None
  | (ti, si) :: rest =>
    match n with
    | mkN st info sent ts =>
      match nth_error ts ti with
      | None => None
      | Some (s, k, subs) =>
        match nth_error subs si with
        | None => None
        | Some c =>
          match rest with
          | [] => if finished c then Some (mkN st info sent (upd ti deliver_task ts)) else None
          | _ => match deliver_path rest c with
                 | None => None
                 | Some c' => Some (mkN st info sent (upd ti (fun _ => (s, k, upd si (fun _ => c') subs)) ts))
                 end
          end
        end
      end
    end
  end.

Definition deliver_at (p : path) (n : node) : node * outcome :=
  match deliver_path p n with Some n' => (n', Ok) | None => (n, Declared) end.

(* ------------------------------------------------------------------ *)
(* sequences of requests                                                *)
Inductive op := OStop (s : state) (m : nat) (p : path) | OPause (p : path) | OResume (p : path) | ODeliver (p : path) | ONotify (p : path).
Definition apply_op (n : node) (o : op) : node :=
  match o with
  | OStop s m p => fst (stop_at s m p n)
  | OPause p => fst (pause_at p n)
  | OResume p => fst (resume_at p n)
  | ODeliver p => fst (deliver_at p n)
  | ONotify p => fst (notify_at p n)
  end.

(* printer for the correspondence suite *)
Definition show_result (r : node * outcome) := r.
