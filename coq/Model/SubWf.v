(* Model of the component-level cores behind property C09 (a sub-workflow and its parent
   task stay consistent).

   Anchors (source function -> model definition):
     mistral/engine/actions.py:WorkflowAction.schedule
         (system params, the loop moving undeclared input keys to params)   -> sys_params, root_of, param_split
     mistral/engine/utils.py:resolve_workflow_definition                    -> resolve, wb_name_of
         (`parent_wf_name.rstrip(parent_wf_spec_name)[:-1]`                 -> rstrip, drop_last)
     mistral/db/v2/sqlalchemy/api.py:load_workflow_definition               -> load
         (name match, namespace in [ns, ''], non-default namespace first)
     mistral/engine/workflows.py:Workflow._send_result_to_parent_workflow   -> result_to_parent
     mistral/engine/default_engine.py:on_action_complete(wf_action=True) +
       mistral/engine/tasks.py:RegularTask.on_action_complete               -> parent_task_state
   Correspondence suite: harness/suites/C09.py (param_split, rstrip, resolve, result_to_parent, subwf_rows).
   No proofs in this file. *)
From Coq Require Import List Bool String Ascii Arith.
Require Import Mistral.Gen.States.
Import ListNotations.
Open Scope string_scope.

(* ------------------------------------------------------------------ *)
(* dictionaries with string keys (python dict: unique keys, insertion order); values are
   abstracted to numbers *)
Definition dict := list (string * nat).

Fixpoint lookup (k : string) (d : dict) : option nat :=
  match d with
  | [] => None
  | (k', v) :: r => if String.eqb k' k then Some v else lookup k r
  end.

(* d[k] = v *)
Fixpoint dset (k : string) (v : nat) (d : dict) : dict :=
  match d with
  | [] => [(k, v)]
  | (k', v') :: r => if String.eqb k' k then (k', v) :: r else (k', v') :: dset k v r
  end.

(* del d[k] *)
Fixpoint dremove (k : string) (d : dict) : dict :=
  match d with
  | [] => []
  | (k', v') :: r => if String.eqb k' k then dremove k r else (k', v') :: dremove k r
  end.

Fixpoint mem_key (k : string) (l : list string) : bool :=
  match l with [] => false | x :: r => String.eqb x k || mem_key k r end.

(* root_execution_id = parent_wf_ex.root_execution_id or parent_wf_ex.id *)
Definition root_of (parent_root : option nat) (parent_id : nat) : nat :=
  match parent_root with Some r => r | None => parent_id end.

(* wf_params before the loop; `notify` only when the parent has it *)
Definition sys_params (root task index ns : nat) (notify : option nat) : dict :=
  List.app [("root_execution_id", root); ("task_execution_id", task); ("index", index); ("namespace", ns)]
           (match notify with Some n => [("notify", n)] | None => [] end).

Definition sys_keys : list string := ["root_execution_id"; "task_execution_id"; "index"; "namespace"; "notify"].

(* for k, v in list(input_dict.items()):
       if k not in wf_spec.get_input():
           if k in wf_params: raise InputException(...)     (reserved name: the calling task fails)
           wf_params[k] = v; del input_dict[k]
   None = the InputException (nothing is started) *)
Fixpoint split_loop (declared : list string) (items input params : dict) : option (dict * dict) :=
  match items with
  | [] => Some (input, params)
  | (k, v) :: t =>
    if mem_key k declared then split_loop declared t input params
    else match lookup k params with
         | Some _ => None
         | None => split_loop declared t (dremove k input) (dset k v params)
         end
  end.

(* returns (input passed to the child, params passed to the child), or None = refused *)
Definition param_split (declared : list string) (input sys : dict) : option (dict * dict) :=
  split_loop declared input input sys.

(* printer for the correspondence suite *)
Definition show_split (r : option (dict * dict)) : bool * (dict * dict) :=
  match r with Some p => (true, p) | None => (false, ([], [])) end.

(* ------------------------------------------------------------------ *)
(* resolve_workflow_definition                                          *)

Fixpoint mem_char (c : ascii) (cs : string) : bool :=
  match cs with
  | EmptyString => false
  | String x r => Ascii.eqb x c || mem_char c r
  end.

(* python s.rstrip(cs): remove trailing characters that occur in cs *)
Fixpoint rstrip (s cs : string) : string :=
  match s with
  | EmptyString => EmptyString
  | String c r =>
    match rstrip r cs with
    | EmptyString => if mem_char c cs then EmptyString else String c EmptyString
    | r' => String c r'
    end
  end.

(* python s[:-1] *)
Fixpoint drop_last (s : string) : string :=
  match s with
  | EmptyString => EmptyString
  | String c EmptyString => EmptyString
  | String c r => String c (drop_last r)
  end.

(* wb_name = parent_wf_name.rstrip(parent_wf_spec_name)[:-1] *)
Definition wb_name_of (parent parent_spec : string) : string := drop_last (rstrip parent parent_spec).

Record wfdef := mkDef { d_name : string; d_ns : string; d_id : nat }.

Fixpoint find_def (db : list wfdef) (name ns : string) : option nat :=
  match db with
  | [] => None
  | d :: r => if String.eqb (d_name d) name && String.eqb (d_ns d) ns then Some (d_id d) else find_def r name ns
  end.

(* load_workflow_definition(name, namespace): the definition in the given namespace has
   priority over the one in the default namespace '' *)
Definition load (db : list wfdef) (name ns : string) : option nat :=
  match find_def db name ns with
  | Some d => Some d
  | None => find_def db name ""
  end.

(* None = WorkflowException("Failed to find workflow ...") *)
Definition resolve (db : list wfdef) (parent parent_spec ns child : string) : option nat :=
  let first :=
    if String.eqb parent parent_spec then None
    else load db (wb_name_of parent parent_spec ++ "." ++ child) ns in
  match first with
  | Some d => Some d
  | None => load db child ns
  end.

(* ------------------------------------------------------------------ *)
(* result hand-off to the parent                                        *)

Inductive sent :=
| SendStored      (* result=None: the parent reads the child's stored output -> Result(data=output) *)
| SendError       (* Result(error=state_info or default) *)
| SendCancel      (* Result(error=.., cancel=True) *)
| SendRefused.    (* RuntimeError: must never be called in another state *)

Definition result_to_parent (child_state : state) : sent :=
  match child_state with
  | SUCCESS => SendStored
  | ERROR => SendError
  | CANCELLED => SendCancel
  | _ => SendRefused
  end.

(* the state requested for the parent task when the hand-off is delivered: the child's state *)
Definition parent_task_state (child_state : state) : state := child_state.

Definition sent_name (s : sent) : string :=
  match s with SendStored => "stored" | SendError => "error" | SendCancel => "cancel" | SendRefused => "refused" end.

(* printers for the correspondence suite *)
Definition opt_show (o : option nat) : nat := match o with Some n => S n | None => 0 end.
