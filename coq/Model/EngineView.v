(* Printer of the canonical view of Model/Engine.v states, compared token by token with
   the view harness/engine_driver.py abstracts from the real database
   (harness/suites/engine_trace.py).  No proofs. *)
From Coq Require Import List Bool Arith String Ascii.
Require Import Mistral.Gen.States Mistral.Model.Engine.
Import ListNotations.
Open Scope string_scope.

Definition digit (n : nat) : string :=
  match n with
  | 0 => "0" | 1 => "1" | 2 => "2" | 3 => "3" | 4 => "4"
  | 5 => "5" | 6 => "6" | 7 => "7" | 8 => "8" | _ => "9"
  end.

Fixpoint nat_str_aux (fuel n : nat) (acc : string) : string :=
  match fuel with
  | O => acc
  | S f => let acc' := digit (n mod 10) ++ acc in
           match n / 10 with O => acc' | q => nat_str_aux f q acc' end
  end.
Definition nat_str (n : nat) : string := nat_str_aux (S n) n "".

Definition b_str (b : bool) : string := if b then "1" else "0".

Fixpoint join (sep : string) (l : list string) : string :=
  match l with
  | [] => ""
  | [x] => x
  | x :: r => x ++ sep ++ join sep r
  end.

Definition ev_str (e : evkind) : string :=
  match e with OnSuccess => "on-success" | OnError => "on-error" | OnComplete => "on-complete" | OnSkip => "on-skip" end.

Definition out_str (o : outcome) : string := match o with OOk => "ok" | OErr => "err" | OCancel => "cancel" end.

Definition trow_str (r : trow) : string :=
  nat_str (t_name r) ++ "," ++ state_name (t_state r) ++ "," ++ b_str (t_processed r) ++ "," ++
  b_str (t_has_next r) ++ "," ++ b_str (t_err_handled r) ++ "," ++ b_str (t_unique r) ++ ",[" ++
  join "/" (map (fun p => nat_str (fst p) ++ ":" ++ ev_str (snd p)) (t_next r)) ++ "]".

Definition arow_str (a : arow) : string :=
  nat_str (a_task a) ++ "," ++ state_name (a_state a) ++ "," ++ b_str (a_accepted a).

Definition item_str (i : item) : string :=
  match i with
  | IStartTask t f r x => "ST(" ++ nat_str t ++ "," ++ b_str f ++ "," ++ b_str r ++ "," ++ b_str x ++ ")"
  | IExec a => "EX(" ++ nat_str a ++ ")"
  | IResult a r => "RS(" ++ nat_str a ++ "," ++ out_str r ++ ")"
  | IPtq _ => "PQ"
  | IRefresh t => "RF(" ++ nat_str t ++ ")"
  end.

Definition outc_str (o : outc) : string :=
  match o with Ok => "ok" | Declared => "declared" | Internal => "internal" | NotEnabled => "notenabled" end.

Definition view (s : st) : string :=
  (if wf_created s then state_name (wf_state s) else "-") ++ "|" ++ nat_str (List.length (backlog s)) ++ "|" ++
  join ";" (map trow_str (tasks s)) ++ "|" ++ join ";" (map arow_str (acts s)) ++ "|" ++
  join ";" (map item_str (pend s)).

Definition trace_view (sp : spec) (u : list nat) (evs : list ev) : list string :=
  map (fun x => view (fst x) ++ "|" ++ outc_str (snd x)) (run_trace sp (init_with u) evs).

(* one string per trace so that the harness parses one line *)
Definition trace_str (sp : spec) (u : list nat) (evs : list ev) : string := join "#" (trace_view sp u evs).
