(* Model of the lost-executor / stuck-task machinery (property C20).
   Anchors (what each definition mirrors):
     exp_date, expired, select     mistral/services/action_heartbeat_checker.py:handle_expired_actions (exp_date)
                                   mistral/db/v2/sqlalchemy/api.py:get_running_expired_sync_action_executions
                                   (NULL last_heartbeat / NULL is_sync never match; `query.limit(limit)` is
                                   evaluated but its result is discarded, so batch_size does not restrict)
     complete                      mistral/engine/actions.py:RegularAction.complete through
                                   mistral/engine/action_handler.py:on_action_complete (a completed action
                                   refuses a second result: ValueError, transaction rolled back)
     process, checker_pass         handle_expired_actions loop: DBEntityNotFoundError on the parent task /
                                   workflow => `continue` for that action only
     enabled, service_pass,        action_heartbeat_checker.py:start / _loop (`interval and max_missed`,
     first_pass_at, nth_pass_at    Timer(interval*max_missed), sleep(check_interval) between passes)
     create_row                    models.py:ActionExecution.last_heartbeat default (now + first_heartbeat_timeout),
                                   engine/actions.py:_create_action_execution (RUNNING, is_sync)
     beat                          default_engine.py:process_action_heartbeats ->
                                   sqlalchemy/api.py:update_action_execution_heartbeat (by id, any state)
     step, run                     the operations above under a virtual clock
     ts_of, stuck_decision,        mistral/engine/workflow_handler.py:_check_and_fix_integrity
     integrity_pass, rearms        (and _schedule_check_and_fix_integrity: negative delay => never); the guards in
                                   front of the re-arm call come from Gen/IntegrityShape.v (translate/tr_integrityshape.py)
     chain, cstep, crun            the periodic chain: start_workflow / the check as a scheduler job / rerun_workflow
   Correspondence suite: harness/suites/C20.py (select, pass_ops, service, integrity).
   Times are whole seconds of the virtual clock (utc_now_sec / patched utcnow). No proofs in this file. *)
From Coq Require Import List ZArith Bool.
Require Import Mistral.Gen.States Mistral.Gen.IntegrityShape.
Import ListNotations.
Open Scope Z_scope.

(* ---- [action_heartbeat] configuration ---------------------------------- *)
Record hbcfg := mkCfg { interval : Z; max_missed : Z; first_timeout : Z; batch : Z }.

(* how an action execution got its final state *)
Inductive rkind := RSuccess | RError | RCancel | RHeartbeat.

Record arow := mkA {
  a_id : nat;
  a_state : state;
  a_sync : option bool;        (* is_sync column, nullable *)
  a_hb : option Z;             (* last_heartbeat column, nullable *)
  a_parent_ok : bool;          (* task row and its workflow row exist *)
  a_accepted : bool;
  a_result : option rkind }.

Definition exp_date (c : hbcfg) (now : Z) : Z := now - max_missed c * interval c.

Definition sync_true (o : option bool) : bool :=
  match o with Some true => true | _ => false end.

Definition hb_before (o : option Z) (t : Z) : bool :=
  match o with Some h => h <? t | None => false end.

(* the WHERE clause of get_running_expired_sync_action_executions *)
Definition expired (c : hbcfg) (now : Z) (r : arow) : bool :=
  hb_before (a_hb r) (exp_date c now) && sync_true (a_sync r) && state_eqb (a_state r) RUNNING.

Definition select (c : hbcfg) (now : Z) (rows : list arow) : list arow :=
  filter (expired c now) rows.

Definition state_of_kind (k : rkind) : state :=
  match k with RSuccess => SUCCESS | RCancel => CANCELLED | RError => ERROR | RHeartbeat => ERROR end.

(* RegularAction.complete: None = refused (already completed) *)
Definition complete (k : rkind) (r : arow) : option arow :=
  if is_completed (a_state r) then None
  else Some (mkA (a_id r) (state_of_kind k) (a_sync r) (a_hb r) (a_parent_ok r) true (Some k)).

Definition upd (id : nat) (f : arow -> arow) (tbl : list arow) : list arow :=
  map (fun r => if Nat.eqb (a_id r) id then f r else r) tbl.

Definition lookup (id : nat) (tbl : list arow) : option arow :=
  find (fun r => Nat.eqb (a_id r) id) tbl.

(* an accepted completion: the one moment the task handler is told about the action *)
Record event := mkEv { e_id : nat; e_kind : rkind; e_at : Z; e_hb : option Z }.

Definition force (k : rkind) (r : arow) : arow :=
  match complete k r with Some r' => r' | None => r end.

(* the loop of handle_expired_actions over the selected rows *)
Fixpoint process (now : Z) (sel : list arow) (tbl : list arow) (log : list event)
  : list arow * list event :=
  match sel with
  | [] => (tbl, log)
  | r :: rest =>
      if a_parent_ok r
      then process now rest (upd (a_id r) (force RHeartbeat) tbl)
                   (log ++ [mkEv (a_id r) RHeartbeat now (a_hb r)])
      else process now rest tbl log      (* DBEntityNotFoundError: continue *)
  end.

Definition checker_pass (c : hbcfg) (now : Z) (tbl : list arow) (log : list event) :=
  process now (select c now tbl) tbl log.

(* start(): `enabled = interval and max_missed` *)
Definition enabled (c : hbcfg) : bool := negb (interval c =? 0) && negb (max_missed c =? 0).

Definition service_pass (c : hbcfg) (now : Z) (tbl : list arow) (log : list event) :=
  if enabled c then checker_pass c now tbl log else (tbl, log).

(* start() at t0: first pass after interval*max_missed, then one every check_interval *)
Definition first_pass_at (c : hbcfg) (t0 : Z) : option Z :=
  if enabled c then Some (t0 + interval c * max_missed c) else None.
Definition nth_pass_at (c : hbcfg) (t0 : Z) (n : nat) : option Z :=
  if enabled c then Some (t0 + interval c * max_missed c + Z.of_nat n * interval c) else None.

(* results an executor (or the API) can report *)
Inductive genuine := GSuccess | GError | GCancel.
Definition kind_of (g : genuine) : rkind :=
  match g with GSuccess => RSuccess | GError => RError | GCancel => RCancel end.

(* ---- operations under a virtual clock ---------------------------------- *)
Record st := mkSt { rows : list arow; clock : Z; log : list event }.

Inductive op :=
| OCreate (id : nat) (sync : option bool) (parent_ok : bool)
| OBeat (ids : list nat)
| OResult (id : nat) (g : genuine)
| OOrphan (id : nat)
| OPass
| OTick (dt : N).

Definition has_id (id : nat) (tbl : list arow) : bool := existsb (fun r => Nat.eqb (a_id r) id) tbl.

Definition create_row (c : hbcfg) (now : Z) (id : nat) (sync : option bool) (pok : bool) : arow :=
  mkA id RUNNING sync (Some (now + first_timeout c)) pok false None.

Definition beat_row (now : Z) (r : arow) : arow :=
  mkA (a_id r) (a_state r) (a_sync r) (Some now) (a_parent_ok r) (a_accepted r) (a_result r).

Definition orphan_row (r : arow) : arow :=
  mkA (a_id r) (a_state r) (a_sync r) (a_hb r) false (a_accepted r) (a_result r).

Definition mem_nat (x : nat) (l : list nat) : bool := existsb (Nat.eqb x) l.

Definition beat (now : Z) (ids : list nat) (tbl : list arow) : list arow :=
  map (fun r => if mem_nat (a_id r) ids then beat_row now r else r) tbl.

(* DefaultEngine.on_action_complete with a genuine result *)
Definition deliver (now : Z) (id : nat) (k : rkind) (tbl : list arow) (lg : list event) :=
  match lookup id tbl with
  | None => (tbl, lg)
  | Some r =>
      match complete k r with
      | None => (tbl, lg)
      | Some _ => (upd id (force k) tbl, lg ++ [mkEv id k now (a_hb r)])
      end
  end.

Definition step (c : hbcfg) (s : st) (o : op) : st :=
  match o with
  | OCreate id sync pok =>
      if has_id id (rows s) then s
      else mkSt (rows s ++ [create_row c (clock s) id sync pok]) (clock s) (log s)
  | OBeat ids => mkSt (beat (clock s) ids (rows s)) (clock s) (log s)
  | OResult id g => let '(t, l) := deliver (clock s) id (kind_of g) (rows s) (log s) in mkSt t (clock s) l
  | OOrphan id => mkSt (upd id orphan_row (rows s)) (clock s) (log s)
  | OPass => let '(t, l) := service_pass c (clock s) (rows s) (log s) in mkSt t (clock s) l
  | OTick dt => mkSt (rows s) (clock s + Z.of_N dt) (log s)
  end.

Definition run (c : hbcfg) (ops : list op) (s : st) : st := fold_left (step c) ops s.

(* ---- integrity check ---------------------------------------------------- *)
Record child := mkC { c_state : state; c_created : Z; c_updated : option Z }.
Record trow := mkT { t_id : nat; t_state : state; t_created : Z; t_updated : option Z;
                     t_children : list child }.

(* `updated_at or created_at` *)
Definition ts_of (created : Z) (updated : option Z) : Z :=
  match updated with Some u => u | None => created end.

Definition child_ts (c : child) : Z := ts_of (c_created c) (c_updated c).

Fixpoint max_ts (d : Z) (l : list child) : Z :=
  match l with [] => d | c :: r => Z.max (child_ts c) (max_ts d r) end.

(* body of the `for t_ex in running_task_execs` loop: true = schedule_on_action_complete is called *)
Definition stuck_decision (delay now : Z) (t : trow) : bool :=
  if now - ts_of (t_created t) (t_updated t) <? delay then false
  else match t_children t with
       | [] => false
       | c0 :: cs =>
           if forallb (fun c => is_completed (c_state c)) (c0 :: cs)
           then now - max_ts (child_ts c0) cs >? delay
           else false
       end.

Definition is_running_row (t : trow) : bool := state_eqb (t_state t) RUNNING.

(* The early returns in front of the re-arming call (Gen/IntegrityShape.v, extracted from the source on every run;
   the extractor refuses any other statement in front of it). *)
Definition guard_blocks (g : rearm_guard) (delay : Z) (wf : option state) : bool :=
  match g with
  | GNegativeDelay => delay <? 0
  | GWorkflowMissing => match wf with None => true | Some _ => false end
  | GWorkflowCompleted => match wf with Some ws => is_completed ws | None => false end
  end.

Definition rearms (delay : Z) (wf : option state) : bool :=
  negb (existsb (fun g => guard_blocks g delay wf) rearm_guards).

(* wf = None: no such workflow execution.  tasks = the workflow's task rows in query order.
   Result: (is the next check scheduled (at now + rearm_period), ids handed to schedule_on_action_complete).
   The re-arm directly follows the guards, everything after it happens iff the re-arm happened. *)
Definition integrity_pass (delay : Z) (batch : nat) (now : Z) (wf : option state) (tasks : list trow)
  : bool * list nat :=
  if rearms delay wf
  then (true, map t_id (filter (stuck_decision delay now) (firstn batch (filter is_running_row tasks))))
  else (false, []).

Definition next_check_at (now : Z) : Z := now + rearm_period.

(* ---- the chain of periodic checks ----------------------------------------
   mirrors: workflow_handler.start_workflow (first check after start_check_after), _check_and_fix_integrity as a
   scheduler job (removed when it runs, re-arms itself), rerun_workflow (schedules a check after `delay`),
   _schedule_check_and_fix_integrity (refuses only on a negative delay); pause/resume/stop = CWf.
   Scheduler assumption made explicit in CTick/CFire: a job runs when it is due and the clock does not move past a
   pending job (property C13 covers the scheduler itself). *)
Record chain := mkCh { ch_wf : option state; ch_tasks : list trow; ch_jobs : list Z; ch_clock : Z;
                       ch_fired : list (Z * list nat) }.

Inductive cev :=
| CTick (dt : N)
| CFire (k : nat)                (* the scheduler runs the k-th pending integrity job *)
| CTasks (l : list trow)         (* any change of the task rows by the engine *)
| CWf (w : option state)         (* pause / resume / completion / deletion of a live workflow *)
| CRerun (ws : state).           (* rerun_workflow: Workflow._recursive_rerun schedules a check at once,
                                    workflow_handler.rerun_workflow another one after `delay` *)

Definition live (wf : option state) : bool :=
  match wf with Some ws => negb (is_completed ws) | None => false end.

Fixpoint remove_nth {A : Type} (k : nat) (l : list A) : list A :=
  match l, k with
  | [], _ => []
  | _ :: r, O => r
  | x :: r, S k' => x :: remove_nth k' r
  end.

Definition schedule_refuses (delay : Z) : bool :=
  existsb (fun g => guard_blocks g delay (Some RUNNING)) schedule_guards.

Definition chain_start (delay : Z) (ws : state) (t0 : Z) : chain :=
  mkCh (Some ws) [] (if schedule_refuses delay then [] else [t0 + start_check_after]) t0 [].

Definition cstep (delay : Z) (batch : nat) (c : chain) (e : cev) : chain :=
  match e with
  | CTick dt =>
      let t := ch_clock c + Z.of_N dt in
      if forallb (fun j => t <=? j) (ch_jobs c)
      then mkCh (ch_wf c) (ch_tasks c) (ch_jobs c) t (ch_fired c) else c
  | CFire k =>
      match nth_error (ch_jobs c) k with
      | Some due =>
          if due <=? ch_clock c then
            let res := integrity_pass delay batch (ch_clock c) (ch_wf c) (ch_tasks c) in
            mkCh (ch_wf c) (ch_tasks c)
                 (remove_nth k (ch_jobs c) ++ (if fst res then [next_check_at (ch_clock c)] else []))
                 (ch_clock c) (ch_fired c ++ [(ch_clock c, snd res)])
          else c
      | None => c
      end
  | CTasks l => mkCh (ch_wf c) l (ch_jobs c) (ch_clock c) (ch_fired c)
  | CWf w => if live (ch_wf c) then mkCh w (ch_tasks c) (ch_jobs c) (ch_clock c) (ch_fired c) else c
  | CRerun ws =>
      mkCh (Some ws) (ch_tasks c)
           (ch_jobs c ++ (if schedule_refuses delay then [] else [ch_clock c; ch_clock c + delay]))
           (ch_clock c) (ch_fired c)
  end.

Definition crun (delay : Z) (batch : nat) (evs : list cev) (c : chain) : chain :=
  fold_left (cstep delay batch) evs c.

(* ---- printers used by the correspondence suite -------------------------- *)
Definition kind_code (o : option rkind) : Z :=
  match o with None => 0 | Some RSuccess => 1 | Some RError => 2 | Some RCancel => 3 | Some RHeartbeat => 4 end.

Definition state_code (s : state) : Z :=
  match s with RUNNING => 1 | SUCCESS => 2 | ERROR => 3 | CANCELLED => 4 | PAUSED => 5 | IDLE => 6
             | RUNNING_DELAYED => 7 | WAITING => 8 | SKIPPED => 9 | Invalid => 0 end.

Definition row_flat (r : arow) : list Z :=
  [Z.of_nat (a_id r); state_code (a_state r); match a_hb r with Some h => h | None => -1 end;
   kind_code (a_result r); if a_accepted r then 1 else 0].

(* (rows as id,state,hb,kind,accepted ... ; log as id,kind,at ...) *)
Definition st_view (s : st) : list Z * list Z :=
  (flat_map row_flat (rows s),
   flat_map (fun e => [Z.of_nat (e_id e); kind_code (Some (e_kind e)); e_at e]) (log s)).

Definition select_ids (c : hbcfg) (now : Z) (rows : list arow) : list Z :=
  map (fun r => Z.of_nat (a_id r)) (select c now rows).

Definition integrity_view (delay : Z) (batch : nat) (now : Z) (wf : option state) (tasks : list trow) : list Z :=
  let '(b, ids) := integrity_pass delay batch now wf tasks in
  (if b then 1 else 0) :: map Z.of_nat ids.

(* (pending job due times, fired checks as at,n,id1..idn ...) *)
Definition chain_view (c : chain) : list Z * list Z :=
  (ch_jobs c, flat_map (fun f => fst f :: Z.of_nat (length (snd f)) :: map Z.of_nat (snd f)) (ch_fired c)).

Definition pass_times (c : hbcfg) (t0 : Z) (n : nat) : list Z :=
  flat_map (fun k => match nth_pass_at c t0 k with Some t => [t] | None => [] end) (seq 0 n).
