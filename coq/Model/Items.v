(* Model of the with-items task: mistral/engine/tasks.py class WithItemsTask and its callers.
   Anchors (file:function -> definition here):
     mistral/engine/policies.py:ConcurrencyPolicy.before_task_start / build_concurrency_policy -> policy_conc
     mistral/engine/tasks.py:WithItemsTask._prepare_runtime_context / _is_new     -> prepare
     mistral/engine/tasks.py:WithItemsTask._get_accepted_executions / _get_unaccepted_executions
                             / _get_next_start_index / _get_next_indexes          -> candidates, next_start, next_indexes
     mistral/engine/tasks.py:WithItemsTask._schedule_actions / _decrease_capacity -> schedule
       (with engine/actions.py:RegularAction._prepare_runtime_context for the index of a new execution)
     mistral/engine/tasks.py:WithItemsTask._increase_capacity                     -> increase_capacity
     mistral/engine/tasks.py:WithItemsTask.is_with_items_completed                -> items_completed
     mistral/engine/tasks.py:WithItemsTask._get_final_state                       -> final_state
     mistral/engine/tasks.py:WithItemsTask._has_more_iterations                   -> has_more
     mistral/engine/tasks.py:WithItemsTask.on_action_complete (under named_lock)  -> on_action_complete
     mistral/engine/tasks.py:Task.complete (only: ignored when already completed) -> complete
     mistral/engine/tasks.py:RegularTask._reset_actions, Task.invalidate_result   -> reset_actions, invalidate
     mistral/engine/tasks.py:RegularTask._run_new / _run_existing                 -> Start / Continue / Rerun in step
     mistral/engine/workflows.py:Workflow.rerun (task.cleanup_runtime_context)    -> cleanup (part of Rerun)
     mistral/engine/actions.py:RegularAction.complete                             -> accept
     mistral/engine/task_handler.py:schedule_on_action_complete (one keyed job per completed item) -> jobs
     mistral/workflow/data_flow.py:get_task_execution_result (stable sort by index, accepted only) -> result
   Engine-level guards that are not in WithItemsTask itself: Start only for a new task; RetryInvalidate only
   for a task that completed in SUCCESS/ERROR (policies.py RetryPolicy.after_task_complete: `not completed or
   cancelled -> return`); Continue only in RUNNING_DELAYED; Rerun only for ERROR tasks
   (api/controllers/v2/task.py: 'The current task execution must be in ERROR for rerun').
   One event = one transaction (DESIGN.md section 2); Handle runs under named_lock('with-items-<id>') after a
   refresh of the row (Gen/ItemsLock.v states that this is still so in the source).
   Not modelled: IDLE/PAUSED child states (sub-workflow items), an exception out of action.schedule in the
   middle of a batch, a with-items expression whose length changes between runs, keep-result: false.
   Correspondence suite: harness/suites/C07.py (every definition below is driven through `step`/`view`
   against the real methods on fake task/execution objects; next_indexes, items_completed, final_state,
   has_more and result are additionally compared after every event).
   No proofs in this file. *)
From Coq Require Import List Arith Bool ZArith.
Import ListNotations.

Inductive est := ERunning | ESuccess | EError | ECancelled.
Inductive tstate := TIdle | TRunning | TDelayed | TSuccess | TError | TCancelled.
Inductive outcome := OSuccess | OError | OCancel.

Record exec := mkExec { idx : nat; st : est; acc : bool; out : Z }.

Record task := mkTask {
  execs : list exec;        (* task_ex.executions in creation order; the position is the execution's id *)
  nitems : nat;             (* length of the evaluated with-items lists *)
  conc : option nat;        (* runtime_context['concurrency']; None = key absent *)
  prepared : bool;          (* runtime_context has a (truthy) 'with_items' entry *)
  cap : option nat;         (* with_items.capacity (None when prepared without concurrency) *)
  count : nat;              (* with_items.count *)
  tst : tstate;
  jobs : list nat           (* pending _scheduled_on_action_complete jobs (execution ids) *)
}.

Definition set_execs l t := mkTask l (nitems t) (conc t) (prepared t) (cap t) (count t) (tst t) (jobs t).
Definition set_cap c t := mkTask (execs t) (nitems t) (conc t) (prepared t) c (count t) (tst t) (jobs t).
Definition set_tst s t := mkTask (execs t) (nitems t) (conc t) (prepared t) (cap t) (count t) s (jobs t).
Definition set_jobs j t := mkTask (execs t) (nitems t) (conc t) (prepared t) (cap t) (count t) (tst t) j.

(* _DEFAULT_WITH_ITEMS = {count: 0, concurrency: 0, capacity: 0} is what the getters see before prepare *)
Definition init : task := mkTask [] 0 None false (Some 0) 0 TIdle [].

Definition e_completed (s : est) : bool := match s with ERunning => false | _ => true end.
Definition e_running (s : est) : bool := match s with ERunning => true | _ => false end.
Definition e_cancelled (s : est) : bool := match s with ECancelled => true | _ => false end.
Definition e_error (s : est) : bool := match s with EError => true | _ => false end.
Definition t_completed (s : tstate) : bool :=
  match s with TSuccess | TError | TCancelled => true | _ => false end.

(* Task.complete: `if self.is_completed(): return`, else set the state *)
Definition complete (s : tstate) (t : task) : task := if t_completed (tst t) then t else set_tst s t.

(* build_concurrency_policy: no policy for a falsy value; before_task_start: nothing for 0 *)
Definition policy_conc (c : nat) : option nat := if c =? 0 then None else Some c.

Definition prepare (t : task) : task :=
  if prepared t then t
  else mkTask (execs t) (nitems t) (conc t) true (conc t) (nitems t) (tst t) (jobs t).

Definition p_accepted (e : exec) : bool := acc e && e_completed (st e).
Definition p_unaccepted (e : exec) : bool := negb (acc e) && e_completed (st e).
Definition p_started (e : exec) : bool := acc e || e_running (st e).   (* accepted, RUNNING or IDLE *)

Definition idx_in (p : exec -> bool) (l : list exec) (i : nat) : bool :=
  existsb (fun e => p e && (idx e =? i)) l.

Definition bound (l : list exec) : nat := S (list_max (map idx l)).

(* sorted(set(unaccepted) - set(accepted)) *)
Definition candidates (l : list exec) : list nat :=
  filter (fun i => idx_in p_unaccepted l i && negb (idx_in p_accepted l i)) (seq 0 (bound l)).

Definition next_start (l : list exec) : nat := length (filter p_started l).

Definition take_cap (c : option nat) (l : list nat) : list nat :=
  match c with None => l | Some k => firstn k l end.

Definition all_next (t : task) : list nat :=
  match candidates (execs t) with
  | [] => seq (next_start (execs t)) (count t - next_start (execs t))
  | c :: cs => let m := list_max (c :: cs) in (c :: cs) ++ seq (S m) (count t - S m)
  end.

Definition next_indexes (t : task) : list nat := take_cap (cap t) (all_next t).

Definition new_exec (i : nat) : exec := mkExec i ERunning false 0%Z.

Definition dec_cap (c : option nat) (k : nat) : option nat :=
  match c with None => None | Some n => Some (n - k) end.

(* _schedule_actions, after the `if self._is_new(): self._prepare_runtime_context(...)` part *)
Definition schedule_body (t1 : task) : task :=
  match next_indexes t1 with
  | [] => complete TSuccess t1
  | l => set_cap (dec_cap (cap t1) (length l)) (set_execs (execs t1 ++ map new_exec l) t1)
  end.

Definition schedule (t : task) : task := schedule_body (prepare t).

Definition increase_capacity (t : task) : task :=
  match conc t, cap t with
  | Some c, Some k => if k <? c then set_cap (Some (S k)) t else t
  | _, _ => t
  end.

Definition opt_eqb (a b : option nat) : bool :=
  match a, b with
  | None, None => true
  | Some x, Some y => x =? y
  | _, _ => false
  end.

Definition full_capacity (t : task) : bool :=
  match conc t with None => true | Some _ => opt_eqb (cap t) (conc t) end.

Definition has_cancelled (l : list exec) : bool := existsb (fun e => acc e && e_cancelled (st e)) l.
Definition has_error (l : list exec) : bool := existsb (fun e => acc e && e_error (st e)) l.

Definition items_completed (t : task) : bool :=
  if has_cancelled (execs t) then true
  else ((if count t =? 0 then 1 else count t) =? length (filter acc (execs t))) && full_capacity t.

Definition final_state (l : list exec) : tstate :=
  if has_cancelled l then TCancelled else if has_error l then TError else TSuccess.

Definition has_more (t : task) : bool :=
  length (filter p_started (execs t)) <? count t.

Definition on_action_complete (t : task) : task :=
  if t_completed (tst t) then t
  else
    let t1 := increase_capacity t in
    if items_completed t1 then complete (final_state (execs t1)) t1
    else if has_more t1 && (match conc t1 with Some _ => true | None => false end) then schedule t1
    else t1.

Definition reset_actions (flag : bool) (l : list exec) : list exec :=
  map (fun e =>
         if flag || (acc e && (e_error (st e) || e_cancelled (st e)))
         then mkExec (idx e) (st e) false (out e) else e) l.

Definition invalidate (l : list exec) : list exec :=
  map (fun e => mkExec (idx e) (st e) false (out e)) l.

Definition outcome_state (o : outcome) : est :=
  match o with OSuccess => ESuccess | OError => EError | OCancel => ECancelled end.

Fixpoint upd {A} (l : list A) (k : nat) (x : A) : list A :=
  match l, k with
  | [], _ => []
  | _ :: r, O => x :: r
  | y :: r, S k' => y :: upd r k' x
  end.

(* RegularAction.complete on execution number i (refused for a completed execution) followed by
   task_handler.schedule_on_action_complete *)
Definition accept (i : nat) (o : outcome) (v : Z) (t : task) : task :=
  match nth_error (execs t) i with
  | Some e =>
    if e_running (st e)
    then set_jobs (jobs t ++ [i]) (set_execs (upd (execs t) i (mkExec (idx e) (outcome_state o) true v)) t)
    else t
  | None => t
  end.

Fixpoint remove_first (i : nat) (l : list nat) : list nat :=
  match l with
  | [] => []
  | x :: r => if x =? i then r else x :: remove_first i r
  end.

Definition mem (i : nat) (l : list nat) : bool := existsb (Nat.eqb i) l.

(* Workflow.rerun: task.cleanup_runtime_context() clears with_items and concurrency;
   _run_existing(rerun) runs the policies' before_task_start again, which restores concurrency *)
Definition cleanup (t : task) : task :=
  mkTask (execs t) (nitems t) (conc t) false (Some 0) 0 (tst t) (jobs t).

Inductive event :=
| Start (n c : nat)
| Accept (i : nat) (o : outcome) (v : Z)
| Handle (i : nat)
| RetryInvalidate
| Continue
| Rerun (reset : bool).

Definition step (t : task) (e : event) : task :=
  match e with
  | Start n c =>
    match tst t with
    | TIdle => schedule (mkTask (execs t) n (policy_conc c) (prepared t) (cap t) (count t) TRunning (jobs t))
    | _ => t
    end
  | Accept i o v => accept i o v t
  | Handle i =>
    if mem i (jobs t) then on_action_complete (set_jobs (remove_first i (jobs t)) t) else t
  | RetryInvalidate =>
    match tst t with
    | TSuccess | TError => set_tst TDelayed (set_execs (invalidate (execs t)) t)
    | _ => t
    end
  | Continue =>
    match tst t with
    | TDelayed => schedule (set_execs (reset_actions false (execs t)) (set_tst TRunning t))
    | _ => t
    end
  | Rerun flag =>
    match tst t with
    | TError => schedule (set_execs (reset_actions flag (execs t)) (set_tst TRunning (cleanup t)))
    | _ => t
    end
  end.

Definition run (evs : list event) : task := fold_left step evs init.

(* get_task_execution_result: list.sort(key=index) is stable; accepted executions only *)
Fixpoint insert (x : exec) (l : list exec) : list exec :=
  match l with
  | [] => [x]
  | y :: r => if idx x <=? idx y then x :: y :: r else y :: insert x r
  end.

Definition isort (l : list exec) : list exec := fold_right insert [] l.

Definition result_execs (l : list exec) : list exec := filter acc (isort l).
Definition result (l : list exec) : list Z := map out (result_execs l).

Definition running (l : list exec) : nat := length (filter (fun e => e_running (st e)) l).

(* ---- printing for the correspondence harness (numbers only) ---- *)
Definition zb (b : bool) : Z := if b then 1%Z else 0%Z.
Definition zo (o : option nat) : Z := match o with None => (-1)%Z | Some n => Z.of_nat n end.
Definition zest (s : est) : Z :=
  match s with ERunning => 0 | ESuccess => 1 | EError => 2 | ECancelled => 3 end%Z.
Definition ztst (s : tstate) : Z :=
  match s with TIdle => 0 | TRunning => 1 | TDelayed => 2 | TSuccess => 3 | TError => 4 | TCancelled => 5 end%Z.
Definition zlist (l : list Z) : list Z := Z.of_nat (length l) :: l.

Definition view (t : task) : list Z :=
  [ztst (tst t); zo (conc t); zb (prepared t); zo (cap t); Z.of_nat (count t)]
  ++ zlist (flat_map (fun e => [Z.of_nat (idx e); zest (st e); zb (acc e); out e]) (execs t))
  ++ zlist (map Z.of_nat (jobs t))
  ++ zlist (map Z.of_nat (next_indexes t))
  ++ [zb (items_completed t); ztst (final_state (execs t)); zb (has_more t)]
  ++ zlist (result (execs t)).

Fixpoint views (t : task) (evs : list event) : list (list Z) :=
  match evs with
  | [] => []
  | e :: r => let t' := step t e in view t' :: views t' r
  end.

(* the harness compares one number per event: a polynomial hash of the view (same formula in C07.py) *)
Definition vhash (l : list Z) : Z :=
  fold_left (fun h x => Z.land (h * 1000003 + x + 7) 2305843009213693951%Z) l 17%Z.

(* index of the first event after which the model's view differs from the expected one (0-based), or -1 *)
Fixpoint first_diff (k : Z) (t : task) (evs : list event) (expected : list Z) : Z :=
  match evs, expected with
  | e :: r, x :: xs => let t' := step t e in if Z.eqb (vhash (view t')) x then first_diff (k + 1) t' r xs else k
  | [], [] => (-1)%Z
  | _, _ => k
  end.
