(* Model of the construction of a specification tree with validate=True: which
   spec classes are instantiated on which data in which order, where the JSON schema
   is checked, and - as PARTIAL constructors - where the Python code assumes a key
   or a type without checking it (a failed assumption is a TypeError / KeyError /
   AttributeError / IndexError, i.e. an internal error instead of a definition error).

   (State of the code after fix 31aaf4b7: the version probe, the polymorphic key, non-dict tasks
   and inline parameters next to a non-dict input are definition errors.)
   Mirrors  mistral/lang/parser.py:parse_yaml (`or {}`), _get_spec_version,
              get_workflow_list_spec_from_yaml, get_action_list_spec_from_yaml, get_workbook_spec_from_yaml
            mistral/lang/base.py:instantiate_spec (polymorphic dispatch BEFORE the schema check),
              BaseSpec.__init__/_spec_property/_group_spec, BaseListSpec.__init__/validate_schema, BaseSpecList.__init__
            mistral/lang/v2/workflows.py:WorkflowSpec.__init__
            mistral/lang/v2/tasks.py:TaskSpec.__init__/validate_schema/_get_with_items_as_dict/_process_action_and_workflow,
              DirectWorkflowTaskSpec.__init__
            mistral/lang/v2/task_defaults.py, policies.py, retry_policy.py, on_clause.py (prepare_next_clause), publish.py,
              actions.py:ActionSpec.__init__, workbook.py:WorkbookSpec.__init__
   Driven against the real parser entry points by harness/suites/C14.py (suite `walk`):
   the sequence of (class, schema verdict) the real code hands to jsonschema.validate
   and its outcome class (accept / definition error / internal error).

   NOT modelled (all raise DSLParsingException-family errors, never internal ones):
   expression syntax checks, _validate_name, the with-items / command formats,
   semantic validation (start tasks, joins, links), the DSL version check.  The
   real run may therefore stop earlier than the model with a definition error.
   No proofs here. *)
From Coq Require Import List String ZArith Bool Arith.
Require Import Mistral.Model.Jv Mistral.Model.Schema Mistral.Model.Norm Mistral.Model.Slice Mistral.Gen.Schemas.
Import ListNotations.
Open Scope string_scope.

Inductive cls := CWfList | CActList | CWb | CWfD | CWfR | CTaskD | CTaskR
               | CDefaults | CPolicies | CRetry | COnClause | CPublish | CAction.

Definition schema_of (c : cls) : schema :=
  match c with
  | CWfList => S_WorkflowListSpec | CActList => S_ActionListSpec | CWb => S_WorkbookSpec
  | CWfD => S_DirectWorkflowSpec | CWfR => S_ReverseWorkflowSpec
  | CTaskD => S_DirectWorkflowTaskSpec | CTaskR => S_ReverseWorkflowTaskSpec
  | CDefaults => S_TaskDefaultsSpec | CPolicies => S_PoliciesSpec | CRetry => S_RetrySpec
  | COnClause => S_OnClauseSpec | CPublish => S_PublishSpec | CAction => S_ActionSpec
  end.

Definition cls_code (c : cls) : string :=
  match c with
  | CWfList => "L" | CActList => "M" | CWb => "B" | CWfD => "W" | CWfR => "V"
  | CTaskD => "T" | CTaskR => "U" | CDefaults => "D" | CPolicies => "P" | CRetry => "R"
  | COnClause => "O" | CPublish => "H" | CAction => "A"
  end.

Inductive verdict := VOk | VDsl | VCrash.

(* outcome and the (class, schema verdict) trace in order *)
Definition res := (verdict * list (cls * bool))%type.

Definition ok : res := (VOk, []).
Definition dsl : res := (VDsl, []).
Definition crash : res := (VCrash, []).

Definition andthen (a : res) (k : unit -> res) : res :=
  match fst a with
  | VOk => let r := k tt in (fst r, (snd a ++ snd r)%list)
  | _ => a
  end.

Fixpoint each {A} (f : A -> res) (l : list A) : res :=
  match l with
  | [] => ok
  | x :: r => andthen (f x) (fun _ => each f r)
  end.

Definition present (o : option jv) : bool := match o with Some _ => true | None => false end.
(* d.get(k) is not None *)
Definition nonnull (o : option jv) : option jv :=
  match o with Some JNull => None | x => x end.

(* ---------------- the unchecked assumptions of the constructors ---------------- *)

(* on_clause._as_tuple / _parse_cmd_and_input on one element of a `next` list *)
Definition next_item_ok (x : jv) : bool :=
  match x with
  | JStr _ => true
  | JObj kvs => match kvs with [] => false | _ => true end     (* list(val.items())[0] *)
  | _ => false                                                  (* ' ' not in <non-string> *)
  end.

(* on_clause.prepare_next_clause(x) *)
Definition next_ok (x : jv) : bool :=
  if negb (truthy x) then true
  else match x with
       | JStr _ => true
       | JObj _ => true                     (* iterates the keys *)
       | JArr l => forallb next_item_ok l
       | _ => false                         (* for item in <number/bool> *)
       end.

(* RetrySpec.__init__ on the (one-line form already transformed) data *)
Definition retry_ok (d : jv) : bool :=
  match d with JObj kvs => present (lookup "delay" kvs) | _ => false end.

(* utils.get_dict_from_entries(data.get('input', [])) *)
Definition entries_ok (o : option jv) : bool :=
  match o with
  | None => true
  | Some (JArr l) => forallb (fun e => negb (is_arr e)) l      (* result[e] = ... needs a hashable e *)
  | Some (JStr _) => true
  | Some (JObj _) => true
  | Some _ => false
  end.

(* the command string passed to _parse_cmd_and_input by TaskSpec.validate_schema *)
Definition cmd_value (t : obj) : option jv :=
  match lookup "action" t with
  | Some a => if truthy a then Some a else lookup "workflow" t
  | None => lookup "workflow" t
  end.

(* TaskSpec.validate_schema after the schema check: len(name), _parse_cmd_and_input(action or workflow) *)
Definition task_pre_ok (t : obj) : bool :=
  match lookup "name" t with
  | Some (JStr _) | Some (JArr _) | Some (JObj _) => true
  | _ => false
  end &&
  match cmd_value t with
  | Some c => if truthy c then is_str c else true
  | None => true
  end.

(* TaskSpec._get_with_items_as_dict: for item in raw *)
Definition with_items_ok (t : obj) : bool :=
  match lookup "with-items" t with
  | None => true
  | Some (JStr _) | Some (JArr _) | Some (JObj _) => true
  | Some _ => false
  end.

(* utils.merge_dicts(left, params) with left = data.get(key, {}) *)
Definition merge_ok (left : option jv) (params : obj) : bool :=
  match params with
  | [] => true
  | _ => match left with
         | None | Some JNull | Some (JObj _) => true
         | Some _ => false
         end
  end.

(* TaskSpec._process_action_and_workflow: `if params and not isinstance(self._input, dict)` is a
   definition error (self._input = data.get('input', {})) *)
Definition params_allowed (input : option jv) (params : obj) : bool :=
  match params with
  | [] => true
  | _ => match input with
         | None | Some (JObj _) => true
         | Some _ => false
         end
  end.

Definition is_empty_obj (o : obj) : bool := match o with [] => true | _ => false end.

Definition group_props : list string :=
  ["retry"; "wait-before"; "wait-after"; "timeout"; "pause-before"; "concurrency"; "fail-on"].

(* BaseSpec._group_spec: the truthy properties, in this order *)
Definition group (src : obj) : obj :=
  flat_map (fun p => match lookup p src with
                     | Some v => if truthy v then [(p, v)] else []
                     | None => []
                     end) group_props.

Section Walk.
  Variable re : nat -> string -> bool.
  Variable pp : string -> obj.
  (* fl s = (str(float(s)) == '2.0'), Python float parsing of a version string *)
  Variable fl : string -> bool.

  (* BaseSpec.__init__ with validate=True: schema first, then the rest of the constructor *)
  Definition step (c : cls) (d : jv) (k : unit -> res) : res :=
    if validate re (schema_of c) d
    then let r := k tt in (fst r, (c, true) :: snd r)
    else (VDsl, [(c, false)]).

  Definition guard (b : bool) (k : unit -> res) : res := if b then k tt else crash.

  Definition walk_publish (d : jv) : res :=
    step CPublish d (fun _ => guard (is_obj d) (fun _ => ok)).

  Definition walk_onclause (d : jv) : res :=
    step COnClause d (fun _ =>
      match d with
      | JObj kvs =>
          andthen (match nonnull (lookup "publish" kvs) with Some p => walk_publish p | None => ok end)
                  (fun _ => guard (next_ok (match lookup "next" kvs with Some x => x | None => JNull end))
                                  (fun _ => ok))
      | _ => guard (next_ok d) (fun _ => ok)
      end).

  Definition retry_data (v : jv) : jv :=
    match v with JStr s => JObj (pp s) | _ => v end.

  Definition walk_retry (v : jv) : res :=
    let d := retry_data v in
    step CRetry d (fun _ => guard (retry_ok d) (fun _ => ok)).

  Definition walk_policies (src : obj) : res :=
    let g := group src in
    step CPolicies (JObj g) (fun _ =>
      match nonnull (lookup "retry" g) with Some r => walk_retry r | None => ok end).

  Definition walk_clauses (kvs : obj) : res :=
    each (fun key => match nonnull (lookup key kvs) with Some c => walk_onclause c | None => ok end)
         ["on-complete"; "on-success"; "on-error"; "on-skip"].

  Definition walk_defaults (d : jv) : res :=
    step CDefaults d (fun _ =>
      match d with
      | JObj kvs => andthen (walk_policies kvs) (fun _ => walk_clauses kvs)
      | _ => crash
      end).

  Definition task_params (t : obj) : obj :=
    match task_cmd t with Some c => pp c | None => [] end.

  (* TaskSpec / DirectWorkflowTaskSpec / ReverseWorkflowTaskSpec on the injected task dict *)
  Definition walk_task (direct : bool) (d : jv) : res :=
    step (if direct then CTaskD else CTaskR) d (fun _ =>
      match d with
      | JObj t =>
          guard (task_pre_ok t) (fun _ =>
          guard (with_items_ok t) (fun _ =>
          andthen (walk_policies t) (fun _ =>
          if negb (params_allowed (lookup "input" t) (task_params t)) then dsl
          else guard (merge_ok (lookup "input" t) (task_params t)) (fun _ =>
               if direct then walk_clauses t else ok))))
      | _ => crash
      end).

  (* instantiate_spec on a class with _polymorphic_key = ('type', 'direct') *)
  Inductive dispatch := DDirect | DReverse | DNoClass.
  Definition dispatch_of (m : obj) : dispatch :=
    match lookup "type" m with
    | None => DDirect
    | Some (JStr s) => if String.eqb s "direct" then DDirect
                       else if String.eqb s "reverse" then DReverse else DNoClass
    | Some _ => DNoClass           (* lists / dicts are refused before the cache lookup *)
    end.

  Definition inject (k : string) (m : obj) : obj := set "version" v20 (set "name" (JStr k) m).

  (* one entry of `tasks`: WorkflowSpec.__init__ injects the type into the tasks that are dicts,
     TaskSpecList injects name / version and instantiates (a non-dict is a definition error) *)
  Definition walk_task_entry (direct : bool) (wf_type : jv) (kv : string * jv) : res :=
    let (k, v) := kv in
    if String.eqb k "version" then ok
    else match v with
         | JObj t => walk_task direct (JObj (inject k (set "type" wf_type t)))
         | _ => dsl                                        (* "must be backed by a dictionary" *)
         end.

  (* WorkflowSpec on the injected workflow dict (after dispatch) *)
  Definition walk_wf_body (direct : bool) (w : obj) : res :=
    step (if direct then CWfD else CWfR) (JObj w) (fun _ =>
      match lookup "tasks" w with
      | Some (JObj ts) =>
          if is_empty_obj ts || present (lookup "version" ts) then dsl   (* no tasks / 'version' cannot be a task name *)
          else
          guard (present (lookup "name" w) && entries_ok (lookup "input" w)) (fun _ =>
          andthen (match nonnull (lookup "task-defaults" w) with Some td => walk_defaults td | None => ok end)
                  (fun _ => each (walk_task_entry direct (wf_type_of w)) ts))
      | Some t => if truthy t then crash else dsl             (* `'version' in <non-container>` / no tasks *)
      | None => dsl                                           (* "doesn't have any tasks" *)
      end).

  Definition walk_wf (w : obj) : res :=
    match dispatch_of w with
    | DDirect => walk_wf_body true w
    | DReverse => walk_wf_body false w
    | DNoClass => dsl
    end.

  Definition walk_action (d : jv) : res :=
    step CAction d (fun _ =>
      match d with
      | JObj a =>
          guard (present (lookup "name" a) && present (lookup "base" a) && entries_ok (lookup "input" a)
                 && match lookup "base" a with Some b => is_str b | None => false end) (fun _ =>
          guard (merge_ok (lookup "base-input" a)
                          (match action_cmd a with Some c => pp c | None => [] end)) (fun _ => ok))
      | _ => crash
      end).

  (* BaseListSpec: WorkflowListSpec / ActionListSpec *)
  Definition walk_list (c : cls) (member : obj -> res) (d : jv) : res :=
    step c d (fun _ =>
      match d with
      | JObj kvs =>
          if Nat.ltb (List.length kvs) 2 then dsl
          else each (fun kv => if String.eqb (fst kv) "version" then ok
                               else match snd kv with
                                    | JObj m => member (inject (fst kv) m)
                                    | _ => crash                       (* v['name'] = k *)
                                    end) kvs
      | _ => crash
      end).

  (* parse_yaml: safe_yaml.load(text) or {} *)
  Definition or_empty (d : jv) : jv := if truthy d then d else JObj [].

  Definition walk_wf_list (d : jv) : res := walk_list CWfList walk_wf (or_empty d).
  Definition walk_action_list (d : jv) : res :=
    walk_list CActList (fun m => walk_action (JObj m)) (or_empty d).

  (* a workbook section through BaseSpecList (ActionSpecList / WorkflowSpecList) *)
  Definition walk_section (is_wf : bool) (o : option jv) : res :=
    match nonnull o with
    | None => ok
    | Some (JObj sec) =>
        each (fun kv => if String.eqb (fst kv) "version" then ok
                        else match snd kv with
                             | JObj m => if is_wf then walk_wf (inject (fst kv) m)
                                         else walk_action (JObj (inject (fst kv) m))
                             | v => if is_wf then dsl else walk_action v
                             end) (set "version" v20 sec)
    | Some _ => crash                                    (* data.items() *)
    end.

  (* parser._get_spec_version: the version of a dict must read as the float 2.0
     (fl s = (str(float(s)) == '2.0')); anything that is not a dict counts as 2.0 *)
  Definition version_ok (d : jv) : bool :=
    match d with
    | JObj wb =>
        match lookup "version" wb with
        | None => true
        | Some (JStr s) => String.eqb s "2.0" || fl s
        | Some (JNum n den) => Z.eqb n 2 && Pos.eqb den 1
        | Some _ => false
        end
    | _ => true
    end.

  Definition walk_wb (d0 : jv) : res :=
    let d := or_empty d0 in
    if negb (version_ok d) then dsl else
    step CWb d (fun _ =>
      match d with
      | JObj wb =>
          guard (present (lookup "name" wb)) (fun _ =>
          andthen (walk_section false (lookup "actions" wb))
                  (fun _ => walk_section true (lookup "workflows" wb)))
      | _ => crash
      end).

  (* ---- printing for the correspondence suite ---- *)
  Definition verdict_code (v : verdict) : string :=
    match v with VOk => "ok" | VDsl => "dsl" | VCrash => "crash" end.

  Fixpoint trace_code (t : list (cls * bool)) : string :=
    match t with
    | [] => ""
    | (c, b) :: r => cls_code c ++ (if b then "+" else "-") ++ trace_code r
    end.

  Definition show (r : res) : string := verdict_code (fst r) ++ ":" ++ trace_code (snd r).

End Walk.

Definition fl_of_table (t : list string) (s : string) : bool := existsb (String.eqb s) t.

(* oracle for inline parameters from a table; default {} *)
Fixpoint pp_of_table (t : list (string * obj)) (s : string) : obj :=
  match t with
  | [] => []
  | (s', o) :: r => if String.eqb s s' then o else pp_of_table r s
  end.
