#!/bin/bash
# Evaluate one seeded change produced in a scratch worktree:
#   tools/seed_eval.sh C17 [extra check ids...]
# 1. confirms the worktree carries exactly patch.diff, 2. runs the demonstration with the change (must
# fail) and without it (must pass), 3. runs the registered check(s) against the worktree
# (VERIF_REPO=<worktree>), 4. prints a summary.  Nothing in /repo is touched.
id=$1; shift
P=${SEEDPFX:-seed}; wt=/tmp/${P}_$id; out=/tmp/${P}_${id}_out
[ -d "$wt" ] || { echo "no worktree $wt"; exit 2; }
cd "$wt" || exit 2
git diff > /tmp/${P}_${id}_cur.diff
if ! diff -q /tmp/${P}_${id}_cur.diff "$out/patch.diff" >/dev/null; then
  echo "NOTE: worktree diff differs from patch.diff; using worktree diff"; cp /tmp/${P}_${id}_cur.diff "$out/patch.diff"
fi
echo "== patch: $(git diff --stat | tail -1)"
demo=$(ls $out/demo.py $out/test_demo.py 2>/dev/null | head -1)
run_demo() {
  if [[ "$(basename $demo)" == test_* ]]; then
    (cd "$wt" && PYTHONPATH="$wt" timeout 900 /venv/bin/python -m pytest -q -p no:cacheprovider "$demo" 2>&1 | tail -5)
  else
    (cd "$wt" && PYTHONPATH="$wt" timeout 900 /venv/bin/python "$demo" 2>&1 | tail -5; echo "exit=${PIPESTATUS[0]}")
  fi
}
echo "== demo WITH change"; run_demo
git apply -R "$out/patch.diff" && { echo "== demo WITHOUT change"; run_demo; git apply "$out/patch.diff"; }
for c in $id "$@"; do
  echo "== check $c against $wt"
  (cd /verif && VERIF_REPO="$wt" timeout 3000 ./check $c > /tmp/${P}_${id}_check_$c.log 2>&1; echo "exit=$?"; grep -E "VIOLATION|KNOWN-FINDING|ok " /tmp/${P}_${id}_check_$c.log | head -8)
done
