#!/bin/bash
# Re-run every stored seeded change against the current machinery: for each /verif/seeded/<dir> a scratch worktree
# of /repo's HEAD gets patch.diff applied, the property's check runs against it (VERIF_REPO), the worktree is removed.
# Expected: every line says exit=1 (a VIOLATION line for that property).  usage: tools/seed_regress.sh [dir-glob]
cd "$(dirname "$0")/.."
for d in seeded/${1:-*}/; do
  n=$(basename $d); id=${n%%-*}; wt=/tmp/sr_$n
  git -C /repo worktree add -q --detach $wt HEAD 2>/dev/null || { echo "$n: cannot create worktree"; continue; }
  if git -C $wt apply $PWD/$d/patch.diff 2>/tmp/sr_apply.err || (cd $wt && patch -p1 --fuzz=3 -s < $OLDPWD/$d/patch.diff >/tmp/sr_apply.err 2>&1); then
    s=$(date +%s); VERIF_REPO=$wt timeout 3000 ./check $id > /tmp/sr_$n.log 2>&1; rc=$?
    echo "$n: exit=$rc $(( $(date +%s)-s ))s $(grep -c '^VIOLATION' /tmp/sr_$n.log) violation line(s) | $(grep "tier=" /tmp/sr_$n.log | tail -1 | cut -c1-140)"
  else
    echo "$n: patch does not apply to HEAD: $(head -1 /tmp/sr_apply.err)"
  fi
  git -C /repo worktree remove --force $wt
done
