#!/usr/bin/env python3
"""Store one confirmed seeded change under /verif/seeded/<id>-<slug>/ and remove its scratch worktree.
usage: seed_store.py Cnn slug 'summary' 'needs_to_manifest' 'confirmed' 'existing tests' 'detected_by' [caught|missed|caught-after-strengthening]"""
import json, os, shutil, subprocess, sys
pid, slug, summary, needs, confirmed, tests, detected, status = sys.argv[1:9]
P = os.environ.get('SEEDPFX', 'seed')
out = '/tmp/%s_%s_out' % (P, pid)
dst = '/verif/seeded/%s-%s' % (pid, slug)
os.makedirs(dst, exist_ok=True)
for f in os.listdir(out):
    if f in ('patch.diff', 'notes.md') or f.startswith('demo') or f.startswith('test_demo'):
        shutil.copy(os.path.join(out, f), os.path.join(dst, f))
meta = {'property': pid, 'summary': summary, 'needs_to_manifest': needs,
        'produced_by': 'fresh sub-agent given only the property text and a scratch worktree',
        'confirmed': confirmed, 'existing_tests_run_by_author': tests, 'detected_by': detected, 'status': status,
        'check_command': 'VERIF_REPO=<worktree with patch.diff applied> ./check %s' % pid}
json.dump(meta, open(os.path.join(dst, 'meta.json'), 'w'), indent=1)
wt = '/tmp/%s_%s' % (P, pid)
if os.path.isdir(wt) and '--keep' not in sys.argv:
    subprocess.run(['git', '-C', '/repo', 'worktree', 'remove', '--force', wt])
print('stored', dst)
