#!/usr/bin/env python3
"""Print the DESIGN.md 11.7 table from seeded/*/meta.json."""
import glob, json, os
rows = []
for d in sorted(glob.glob('/verif/seeded/*/meta.json')):
    m = json.load(open(d))
    rows.append((m['property'], os.path.basename(os.path.dirname(d)), m.get('status', 'caught'), m['summary'], m['needs_to_manifest'], m['detected_by']))
print('| property | seeded change (`seeded/<dir>`) | needs to manifest | reported by | status |')
print('|---|---|---|---|---|')
for p, d, st, s, n, det in rows:
    print('| %s | `%s`: %s | %s | %s | %s |' % (p, d, s.replace('|', '/'), n.replace('|', '/'), det.replace('|', '/'), st))
