#!/bin/bash
# Re-check every compiled Properties file and everything it depends on with the independent checker and
# list the axioms the whole closure relies on.  Takes several minutes; output: coqchk_report.txt
cd "$(dirname "$0")/../coq" || exit 2
mods=$(ls Properties/C*.v | sed 's#Properties/\(.*\)\.v#Mistral.Properties.\1#' | tr '\n' ' ')
{ echo "coqchk -silent -o -R . Mistral $mods"; echo "coq: $(coqc --version | head -1)"; echo "tree: /verif $(git -C .. rev-parse --short HEAD), /repo $(git -C /repo rev-parse --short HEAD)"; date -u;
  timeout 7200 coqchk -silent -o -R . Mistral $mods 2>&1 | tail -40; echo "exit=${PIPESTATUS[0]}"; } > ../coqchk_report.txt
tail -5 ../coqchk_report.txt
