#!/bin/bash
# Move a seed worktree (detached HEAD with an uncommitted change) onto /repo's current HEAD.
id=$1; P=${SEEDPFX:-seed}; wt=/tmp/${P}_$id
cd "$wt" || exit 2
head=$(git -C /repo rev-parse HEAD)
[ "$(git rev-parse HEAD)" = "$head" ] && { echo "already at $head"; exit 0; }
git diff > /tmp/${P}_${id}_rebase.diff
git apply -R /tmp/${P}_${id}_rebase.diff && git checkout -q --detach "$head" && git apply /tmp/${P}_${id}_rebase.diff && echo "rebased $id onto $head: $(git diff --stat | tail -1)"
