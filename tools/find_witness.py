#!/venv/bin/python
"""Search the real engine (at PYTHONPATH's mistral) for traces violating the engine oracles.
usage: PYTHONPATH=<repo>:/verif find_witness.py N profiles outdir [seed]"""
import collections
import json
import logging
import os
import random
import sys
logging.disable(logging.CRITICAL)
from harness import engine_trace as et


def main():
    n = int(sys.argv[1])
    profiles = sys.argv[2].split(',')
    outdir = sys.argv[3]
    seed = int(sys.argv[4]) if len(sys.argv) > 4 else 0
    os.makedirs(outdir, exist_ok=True)
    rng = random.Random('witness/%d' % seed)
    jobs = []
    for i in range(n):
        prof = profiles[i % len(profiles)]
        prog = et.gen_program(rng, max_tasks=5, allow_cycles=(rng.random() < 0.25))
        jobs.append({'tasks': prog.tasks, 'seed': seed * 100003 + i, 'inject': et.PROFILES[prof], 'profile': prof,
                     'max_events': 120})
    traces = et.run_jobs(jobs)
    seen = collections.Counter()
    best = {}
    for t in traces:
        for f in t.failures:
            sig = (f['property'], f['signature'])
            seen[sig] += 1
            k = f['at_event'] + 1
            if sig not in best or k < best[sig][0]:
                best[sig] = (k, t, f)
    for sig, (k, t, f) in best.items():
        name = '%s_%s.json' % (sig[0], ''.join(c if c.isalnum() else '_' for c in sig[1]))
        json.dump({'program': t.prog.to_json(), 'labels': t.labels[:k] if not f['signature'].startswith(('stuck', 'join-started')) else t.labels,
                   'seed': t.seed, 'style': t.style,
                   'scheduler': t.sched, 'properties': [sig[0]], 'expect': sig[1], 'what': f['what']},
                  open(os.path.join(outdir, name), 'w'), indent=1)
    for sig, c in seen.items():
        print(sig, c, 'len', best[sig][0], best[sig][2]['what'][:100])
    ie = collections.Counter(e['type'] + ':' + e['event'] for t in traces for e in t.entry_errors)
    print('entry errors', dict(ie))


if __name__ == '__main__':
    main()
