#!/venv/bin/python
"""Regenerate MANIFEST.json from the suites that exist (harness/suites/Cnn.py : MANIFEST dict)."""
import importlib
import json
import os
import sys

HERE = os.path.dirname(os.path.dirname(os.path.abspath(__file__)))
sys.path.insert(0, HERE)
os.environ.setdefault('VERIF_REPO', '/repo')

props = [json.loads(l) for l in open(os.path.join(HERE, 'properties.jsonl'))]
baseline = json.load(open('/root/.vp/BASELINE.json'))['cmd'] if os.path.exists('/root/.vp/BASELINE.json') else \
    'cd /repo && /venv/bin/python -m pytest -ra -q -p no:cacheprovider --timeout=900 --continue-on-collection-errors'
checks, na = [], []
for p in props:
    pid = p['id']
    path = os.path.join(HERE, 'harness', 'suites', pid + '.py')
    if not os.path.exists(path):
        na.append({'property_id': pid, 'reason': 'no check registered yet: model/proofs for this property are not built at this commit (planned in DESIGN.md section 6 %s)' % pid})
        continue
    m = importlib.import_module('harness.suites.' + pid).MANIFEST
    checks.append({
        'property_id': pid,
        'quick_cmd': './check %s --tier quick' % pid,
        'thorough_cmd': './check %s --tier thorough' % pid,
        'evidence_file': 'evidence/%s.json' % pid,
        'replay_cmd_template': './check %s --replay {path}' % pid,
        'engine': m.get('engine', 'coq+component-harness'),
        'level_claimed': {'category': 'proof', 'text': m['level_text'], 'design_ref': 'DESIGN.md ' + m.get('design_ref', '6')},
        'level_note': m['level_note'],
        'technique': m['technique'],
    })
man = {
    'version': 1,
    'setup_cmd': './setup.sh',
    'hooks': {
        'guard': 'MISTRAL_VERIF',
        'enable': 'none needed: the harness replaces module attributes at run time (no guarded code in /repo); ./check exports MISTRAL_VERIF=1 for future hooks',
        'baseline_off_cmd': baseline,
        'source_commits': [],
        'add_only': True,
    },
    'engines': [
        {'name': 'coq', 'path': 'coq/', 'serves_properties': [c['property_id'] for c in checks],
         'kind_free_text': 'Coq 8.16.1 development: Gen/ (translated from /repo on every run), Model/ (executable Gallina), Proofs/, Properties/ (theorems + Print Assumptions)'},
        {'name': 'component-harness', 'path': 'harness/', 'serves_properties': [c['property_id'] for c in checks],
         'kind_free_text': 'Python drivers running the real mistral functions and the Coq models (vm_compute) on the same inputs; property oracles; verdict logic'},
    ],
    'checks': checks,
    'not_applicable': na,
    'notes': 'See DESIGN.md. known_findings.json lists open findings (none suppress new violations) and fixed ones.',
}
json.dump(man, open(os.path.join(HERE, 'MANIFEST.json'), 'w'), indent=1)
print('checks:', [c['property_id'] for c in checks], 'not claimed:', [n['property_id'] for n in na])
