#!/bin/bash
# run every registered check once (quick tier by default) and summarise
cd "$(dirname "$0")/.."
TIER=${1:-quick}
for c in $(ls harness/suites | grep -E '^C[0-9]+\.py$' | sed 's/\.py//'); do
  s=$(date +%s)
  out=$(./check $c --tier $TIER 2>&1)
  rc=$?
  e=$(date +%s)
  echo "$c rc=$rc $((e-s))s $(echo "$out" | grep -c '^VIOLATION') violations, $(echo "$out" | grep -c '^KNOWN-FINDING') known | $(echo "$out" | grep "tier=$TIER" | tail -1 | cut -c1-160)"
done
